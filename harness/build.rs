//! Generates the property-module registry: every src/cNN.rs is a module exposing
//!   pub fn generate(rng: &mut Rng, n: usize, tier: &str) -> Vec<serde_json::Value>
//!   pub fn batch(inputs: &[serde_json::Value]) -> Batch
//! so that adding a property never edits main.rs.
use std::{env, fs, path::Path};

fn main() {
    let src = Path::new(&env::var("CARGO_MANIFEST_DIR").unwrap()).join("src");
    let src = fs::canonicalize(src).unwrap();
    let mut mods: Vec<String> = fs::read_dir(&src)
        .unwrap()
        .filter_map(|e| e.ok())
        .filter_map(|e| e.file_name().to_str().map(|s| s.to_string()))
        .filter(|n| {
            n.len() == 6 && n.starts_with('c') && n.ends_with(".rs") && n[1..3].chars().all(|c| c.is_ascii_digit())
        })
        .map(|n| n[..3].to_string())
        .collect();
    mods.sort();
    // SNT_ONLY=c05,c20 restricts the build to the listed property modules, so that a check of one
    // property does not depend on the harness code of another one still compiling
    if let Ok(only) = env::var("SNT_ONLY") {
        let keep: Vec<String> = only.split(',').map(|s| s.trim().to_lowercase()).filter(|s| !s.is_empty()).collect();
        if !keep.is_empty() {
            mods.retain(|m| keep.contains(m));
        }
    }
    println!("cargo:rerun-if-env-changed=SNT_ONLY");
    let mut out = String::new();
    for m in &mods {
        out.push_str(&format!("#[path = \"{}/{}.rs\"]\npub mod {};\n", src.display(), m, m));
    }
    out.push_str("pub fn generate(prop: &str, rng: &mut crate::util::Rng, n: usize, tier: &str) -> Option<Vec<serde_json::Value>> {\n    match prop {\n");
    for m in &mods {
        out.push_str(&format!("        \"{}\" => Some({}::generate(rng, n, tier)),\n", m.to_uppercase(), m));
    }
    out.push_str("        _ => None,\n    }\n}\n");
    out.push_str("pub fn batch(prop: &str, inputs: &[serde_json::Value]) -> Option<crate::util::Batch> {\n    match prop {\n");
    for m in &mods {
        out.push_str(&format!("        \"{}\" => Some({}::batch(inputs)),\n", m.to_uppercase(), m));
    }
    out.push_str("        _ => None,\n    }\n}\n");
    // tools: src/tool_<name>.rs exposing `pub fn main(args: &[String]) -> i32`, run as `snt_harness tool <name> args..`
    let mut tools: Vec<String> = fs::read_dir(&src)
        .unwrap()
        .filter_map(|e| e.ok())
        .filter_map(|e| e.file_name().to_str().map(|s| s.to_string()))
        .filter(|n| n.starts_with("tool_") && n.ends_with(".rs"))
        .map(|n| n[..n.len() - 3].to_string())
        .collect();
    tools.sort();
    // a tool may name the property modules it needs in a header comment `// requires: c02, c05`;
    // it is left out of builds restricted (SNT_ONLY) to other modules
    tools.retain(|t| {
        let text = fs::read_to_string(src.join(format!("{}.rs", t))).unwrap_or_default();
        let declared = text.lines().take(8).filter_map(|l| l.trim().strip_prefix("// requires:")).all(|reqs| {
            reqs.split(',').map(|r| r.trim().to_lowercase()).filter(|r| !r.is_empty()).all(|r| mods.contains(&r))
        });
        // references such as `crate::registry::c02::...` are requirements too
        let mut referenced = true;
        for (i, _) in text.match_indices("::c") {
            let rest = &text[i + 3..];
            let digits: String = rest.chars().take(2).collect();
            let after = rest.chars().nth(2);
            if digits.len() == 2 && digits.chars().all(|c| c.is_ascii_digit()) && after.map_or(true, |c| !c.is_ascii_alphanumeric() && c != '_') {
                if !mods.contains(&format!("c{}", digits)) {
                    referenced = false;
                }
            }
        }
        declared && referenced
    });
    for t in &tools {
        out.push_str(&format!("#[path = \"{}/{}.rs\"]\npub mod {};\n", src.display(), t, t));
    }
    out.push_str("pub fn tool(name: &str, args: &[String]) -> Option<i32> {\n    let _ = args;\n    match name {\n");
    for t in &tools {
        out.push_str(&format!("        \"{}\" => Some({}::main(args)),\n", &t[5..], t));
    }
    out.push_str("        _ => None,\n    }\n}\n");
    let dst = Path::new(&env::var("OUT_DIR").unwrap()).join("registry.rs");
    fs::write(dst, out).unwrap();
    println!("cargo:rerun-if-changed=src");
    println!("cargo:rerun-if-changed=build.rs");
}
