//! C16 (queue part): histories of calls on a real `surf_n_term::common::IOQueue`; after every call the
//! harness records the return value, len(), chunks_count(), is_empty() and as_slice().
//!
//! input JSON: {"ops": [["w",[bytes]], ["f"], ["r",n], ["c",amt], ["cw",k,clamp], ["ce"], ["d"], ["re"]]}
use crate::util::*;
use serde_json::{json, Value};
use std::io::{Read, Write};
use std::panic::AssertUnwindSafe;
use surf_n_term::common::IOQueue;

#[derive(Clone, Debug)]
pub enum Op {
    Write(Vec<u8>),
    Flush,
    Read(usize),
    Consume(usize),
    ConsumeWith(usize, bool),
    ConsumeWithErr,
    Drop,
    ReadToEnd,
}

enum Ret {
    Unit,
    Bytes(Vec<u8>),
    Num(usize),
}

pub fn parse_ops(v: &Value) -> Vec<Op> {
    let mut out = vec![];
    for o in v.as_array().map(|a| a.as_slice()).unwrap_or(&[]) {
        let k = o[0].as_str().unwrap_or("");
        let num = |i: usize| o[i].as_u64().unwrap_or(0) as usize;
        out.push(match k {
            "w" => Op::Write(vbytes(&o[1])),
            "f" => Op::Flush,
            "r" => Op::Read(num(1)),
            "c" => Op::Consume(num(1)),
            "cw" => Op::ConsumeWith(num(1), o[2].as_bool().unwrap_or(true)),
            "ce" => Op::ConsumeWithErr,
            "d" => Op::Drop,
            "re" => Op::ReadToEnd,
            _ => continue,
        });
    }
    out
}

pub fn ops_json(ops: &[Op]) -> Value {
    Value::Array(
        ops.iter()
            .map(|o| match o {
                Op::Write(b) => json!(["w", jbytes(b)]),
                Op::Flush => json!(["f"]),
                Op::Read(n) => json!(["r", n]),
                Op::Consume(n) => json!(["c", n]),
                Op::ConsumeWith(k, c) => json!(["cw", k, c]),
                Op::ConsumeWithErr => json!(["ce"]),
                Op::Drop => json!(["d"]),
                Op::ReadToEnd => json!(["re"]),
            })
            .collect(),
    )
}

fn op_coq(o: &Op) -> String {
    match o {
        Op::Write(b) => format!("W {}", cbytes(b)),
        Op::Flush => "F".into(),
        Op::Read(n) => format!("Rd {}", n),
        Op::Consume(n) => format!("Cn {}", n),
        Op::ConsumeWith(k, c) => format!("CW {} {}", k, cbool(*c)),
        Op::ConsumeWithErr => "CE".into(),
        Op::Drop => "D".into(),
        Op::ReadToEnd => "RE".into(),
    }
}

fn apply(q: &mut IOQueue, o: &Op) -> Ret {
    match o {
        Op::Write(b) => Ret::Num(q.write(b).unwrap_or(usize::MAX)),
        Op::Flush => {
            let _ = q.flush();
            Ret::Unit
        }
        Op::Read(n) => {
            let mut buf = vec![0u8; *n];
            let k = q.read(&mut buf).unwrap_or(usize::MAX);
            Ret::Bytes(buf[..k.min(*n)].to_vec())
        }
        Op::Consume(n) => {
            q.consume(*n);
            Ret::Unit
        }
        Op::ConsumeWith(k, clamp) => {
            let r = q.consume_with(|s| Ok::<usize, ()>(if *clamp { (*k).min(s.len()) } else { *k }));
            Ret::Num(r.unwrap_or(usize::MAX))
        }
        Op::ConsumeWithErr => {
            let _ = q.consume_with(|_| Err::<usize, ()>(()));
            Ret::Unit
        }
        Op::Drop => {
            q.clear_but_last();
            Ret::Unit
        }
        Op::ReadToEnd => {
            let mut out = vec![];
            let _ = q.read_to_end(&mut out);
            Ret::Bytes(out)
        }
    }
}

pub fn run(input: &Value) -> Case {
    let ops = parse_ops(&input["ops"]);
    let mut q = IOQueue::new();
    let mut obs_coq: Vec<String> = vec![];
    let mut obs_json: Vec<Value> = vec![];
    let mut panicked = false;
    let mut split = false; // some call left the front chunk partly consumed
    let mut dropped = false; // a drop discarded something
    let mut max_chunks = 0usize;
    for o in &ops {
        let before = (q.chunks_count(), q.len());
        let r = catch(AssertUnwindSafe(|| {
            let r = apply(&mut q, o);
            let slice = q.as_slice().to_vec();
            (r, q.len(), q.chunks_count(), q.is_empty(), slice)
        }));
        match r {
            None => {
                obs_coq.push("Pn".into());
                obs_json.push(json!("panic"));
                panicked = true;
                break;
            }
            Some((r, len, count, empty, slice)) => {
                let (rc, rj) = match &r {
                    Ret::Unit => ("U".to_string(), json!(null)),
                    Ret::Bytes(b) => (format!("(Bs {})", cbytes(b)), jbytes(b)),
                    Ret::Num(n) => (format!("(Nm {})", n), json!(n)),
                };
                obs_coq.push(format!("Ob {} {} {} {} {}", rc, len, count, cbool(empty), cbytes(&slice)));
                obs_json.push(json!({"ret": rj, "len": len, "count": count, "empty": empty, "slice": jbytes(&slice)}));
                max_chunks = max_chunks.max(count);
                if matches!(o, Op::Read(_) | Op::Consume(_) | Op::ConsumeWith(..)) && count == before.0 && len < before.1 {
                    split = true;
                }
                if matches!(o, Op::Drop) && count < before.0 {
                    dropped = true;
                }
            }
        }
    }
    let mut j = input.clone();
    j["impl"] = Value::Array(obs_json);
    let nwrites = ops.iter().filter(|o| matches!(o, Op::Write(b) if !b.is_empty())).count();
    let nflush = ops.iter().filter(|o| matches!(o, Op::Flush)).count();
    let mut tags = vec![
        format!("ops={}", match ops.len() { 0..=4 => "1-4", 5..=12 => "5-12", 13..=30 => "13-30", _ => ">30" }),
        format!("max_chunks={}", max_chunks.min(6)),
        format!("split_front={}", split),
        format!("drop_discards={}", dropped),
        format!("panic={}", panicked),
    ];
    if ops.windows(2).any(|w| matches!(w, [Op::Flush, Op::Flush])) {
        tags.push("double_flush".into());
    }
    if ops.iter().any(|o| matches!(o, Op::ReadToEnd)) {
        tags.push("read_to_end".into());
    }
    if ops.iter().any(|o| matches!(o, Op::Write(b) if b.is_empty())) {
        tags.push("empty_write".into());
    }
    Case {
        coq: format!("Q {} {}", clist(ops.iter().map(op_coq)), clist(obs_coq)),
        json: j,
        tags,
        nontrivial: nwrites >= 2 && nflush >= 1 && max_chunks >= 2 && (split || dropped),
    }
}

fn gen_payload(rng: &mut Rng) -> Vec<u8> {
    let n = match rng.below(40) {
        0..=2 => 0,
        3..=27 => 1 + rng.below(5) as usize,
        28..=38 => 1 + rng.below(16) as usize,
        _ => 40 + rng.below(80) as usize,
    };
    // a small alphabet makes equal bytes in different frames likely (duplicates must not confuse anyone)
    if rng.chance(1, 3) {
        (0..n).map(|_| 97 + rng.below(3) as u8).collect()
    } else {
        rng.bytes(n)
    }
}

fn gen_amount(rng: &mut Rng) -> usize {
    match rng.below(20) {
        0 => 0,
        1..=12 => rng.below(8) as usize,
        13..=16 => rng.below(40) as usize,
        17 => 300 + rng.below(100) as usize,
        18 => usize::MAX - rng.below(3) as usize,
        _ => 1,
    }
}

pub fn gen_ops(rng: &mut Rng) -> Vec<Op> {
    let n = match rng.below(20) {
        0..=1 => 1 + rng.below(4),
        2..=12 => 5 + rng.below(10),
        13..=18 => 12 + rng.below(18),
        _ => 30 + rng.below(30),
    } as usize;
    // style: writer-heavy (many chunks pile up), reader-heavy, balanced
    let style = rng.below(4);
    let mut ops = vec![];
    for _ in 0..n {
        let (w, f, r) = match style {
            0 => (45, 30, 15),
            1 => (30, 15, 45),
            _ => (35, 20, 30),
        };
        let x = rng.below(100);
        if x < w {
            ops.push(Op::Write(gen_payload(rng)));
        } else if x < w + f {
            ops.push(Op::Flush);
            if rng.chance(1, 5) {
                ops.push(Op::Flush);
            }
        } else if x < w + f + r {
            match rng.below(10) {
                0..=3 => ops.push(Op::Read(gen_amount(rng).min(1 << 20))),
                4..=5 => ops.push(Op::Consume(gen_amount(rng))),
                6..=8 => {
                    let k = gen_amount(rng);
                    ops.push(Op::ConsumeWith(k, !rng.chance(1, 6)))
                }
                _ => ops.push(Op::ConsumeWithErr),
            }
        } else if rng.chance(4, 5) {
            ops.push(Op::Drop);
        } else {
            ops.push(Op::ReadToEnd);
        }
    }
    if rng.chance(1, 2) {
        ops.push(Op::ReadToEnd);
    }
    ops
}

pub fn generate(rng: &mut Rng, n: usize, _tier: &str) -> Vec<Value> {
    let mut v = vec![];
    // fixed part: the unit test's script, and the poll-loop pattern (write, flush, partial sends, empty tail chunk)
    v.push(json!({"ops": [["w",[111,110]],["w",[101]],["f"],["w",[44,116,119,111]],["f"],["re"]]}));
    v.push(json!({"ops": [["w",[1,2,3,4,5]],["f"],["cw",2,true],["f"],["cw",2,true],["cw",9,true],["cw",9,true],["cw",9,true]]}));
    while v.len() < n {
        let ops = gen_ops(rng);
        v.push(json!({ "ops": ops_json(&ops) }));
    }
    v
}

pub fn batch(inputs: &[Value]) -> Batch {
    Batch {
        prop: "C16",
        coq_import: "Corr.C16Corr",
        case_type: "c16_case",
        report_fn: "c16_report",
        rule: "history with >=2 non-empty writes and >=1 flush that reaches >=2 chunks and either leaves the front chunk partly consumed or drops pending chunks; distinct by input",
        cases: inputs.iter().map(run).collect(),
        preamble: String::new(),
    }
}
