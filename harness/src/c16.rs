//! C16 (queue part): histories of calls on a real `surf_n_term::common::IOQueue`; after every call the
//! harness records the return value, len(), chunks_count(), is_empty() and as_slice().
//!
//! input JSON: {"ops": [["w",[bytes]], ["f"], ["r",n], ["c",amt], ["cw",k,clamp], ["ce"], ["d"], ["re"]]}
use crate::util::*;
use serde_json::{json, Value};
use std::io::{Read, Write};
use std::panic::AssertUnwindSafe;
use surf_n_term::common::IOQueue;

#[derive(Clone, Debug)]
pub enum Op {
    Write(Vec<u8>),
    Flush,
    Read(usize),
    Consume(usize),
    ConsumeWith(usize, bool),
    ConsumeWithErr,
    Drop,
    ReadToEnd,
}

enum Ret {
    Unit,
    Bytes(Vec<u8>),
    Num(usize),
}

pub fn parse_ops(v: &Value) -> Vec<Op> {
    let mut out = vec![];
    for o in v.as_array().map(|a| a.as_slice()).unwrap_or(&[]) {
        let k = o[0].as_str().unwrap_or("");
        let num = |i: usize| o[i].as_u64().unwrap_or(0) as usize;
        out.push(match k {
            "w" => Op::Write(vbytes(&o[1])),
            "f" => Op::Flush,
            "r" => Op::Read(num(1)),
            "c" => Op::Consume(num(1)),
            "cw" => Op::ConsumeWith(num(1), o[2].as_bool().unwrap_or(true)),
            "ce" => Op::ConsumeWithErr,
            "d" => Op::Drop,
            "re" => Op::ReadToEnd,
            _ => continue,
        });
    }
    out
}

pub fn ops_json(ops: &[Op]) -> Value {
    Value::Array(
        ops.iter()
            .map(|o| match o {
                Op::Write(b) => json!(["w", jbytes(b)]),
                Op::Flush => json!(["f"]),
                Op::Read(n) => json!(["r", n]),
                Op::Consume(n) => json!(["c", n]),
                Op::ConsumeWith(k, c) => json!(["cw", k, c]),
                Op::ConsumeWithErr => json!(["ce"]),
                Op::Drop => json!(["d"]),
                Op::ReadToEnd => json!(["re"]),
            })
            .collect(),
    )
}

fn op_coq(o: &Op) -> String {
    match o {
        Op::Write(b) => format!("W {}", cbytes(b)),
        Op::Flush => "F".into(),
        Op::Read(n) => format!("Rd {}", n),
        Op::Consume(n) => format!("Cn {}", n),
        Op::ConsumeWith(k, c) => format!("CW {} {}", k, cbool(*c)),
        Op::ConsumeWithErr => "CE".into(),
        Op::Drop => "D".into(),
        Op::ReadToEnd => "RE".into(),
    }
}

/// The same calls through the std traits the type implements (`Write::write_all`, `BufRead::fill_buf` +
/// `BufRead::consume`): same meaning in the model, another part of the API surface (input field "via":"traits";
/// such histories also start from `IOQueue::default()`).
fn apply_via(q: &mut IOQueue, o: &Op, traits: bool) -> Ret {
    use std::io::BufRead;
    if traits {
        match o {
            // (write_all of an empty buffer never calls write: left to the direct call)
            Op::Write(b) if !b.is_empty() => {
                return match q.write_all(b) {
                    Ok(()) => Ret::Num(b.len()),
                    Err(_) => Ret::Num(usize::MAX),
                }
            }
            Op::ConsumeWith(k, true) => {
                let n = (*k).min(BufRead::fill_buf(q).map(|s| s.len()).unwrap_or(0));
                BufRead::consume(q, n);
                return Ret::Num(n);
            }
            Op::Consume(n) => {
                BufRead::consume(q, *n);
                return Ret::Unit;
            }
            _ => {}
        }
    }
    apply(q, o)
}

fn new_queue(traits: bool) -> IOQueue {
    if traits {
        IOQueue::default()
    } else {
        IOQueue::new()
    }
}

fn apply(q: &mut IOQueue, o: &Op) -> Ret {
    match o {
        Op::Write(b) => Ret::Num(q.write(b).unwrap_or(usize::MAX)),
        Op::Flush => {
            let _ = q.flush();
            Ret::Unit
        }
        Op::Read(n) => {
            let mut buf = vec![0u8; *n];
            let k = q.read(&mut buf).unwrap_or(usize::MAX);
            Ret::Bytes(buf[..k.min(*n)].to_vec())
        }
        Op::Consume(n) => {
            q.consume(*n);
            Ret::Unit
        }
        Op::ConsumeWith(k, clamp) => {
            let r = q.consume_with(|s| Ok::<usize, ()>(if *clamp { (*k).min(s.len()) } else { *k }));
            Ret::Num(r.unwrap_or(usize::MAX))
        }
        Op::ConsumeWithErr => {
            let _ = q.consume_with(|_| Err::<usize, ()>(()));
            Ret::Unit
        }
        Op::Drop => {
            q.clear_but_last();
            Ret::Unit
        }
        Op::ReadToEnd => {
            let mut out = vec![];
            let _ = q.read_to_end(&mut out);
            Ret::Bytes(out)
        }
    }
}

pub fn run(input: &Value) -> Case {
    if input["big"].as_bool().unwrap_or(false) {
        return run_big(input);
    }
    if input["seg"].as_bool().unwrap_or(false) {
        return run_seg(input);
    }
    let ops = parse_ops(&input["ops"]);
    let traits = input["via"].as_str() == Some("traits");
    let mut q = new_queue(traits);
    let mut obs_coq: Vec<String> = vec![];
    let mut obs_json: Vec<Value> = vec![];
    let mut panicked = false;
    let mut split = false; // some call left the front chunk partly consumed
    let mut dropped = false; // a drop discarded something
    let mut front_partial = false; // the front chunk is partly consumed right now
    let mut drop_partial = false; // a discarding drop found it so
    let mut max_chunks = 0usize;
    for o in &ops {
        let before = (q.chunks_count(), q.len());
        let r = catch(AssertUnwindSafe(|| {
            let r = apply_via(&mut q, o, traits);
            let slice = q.as_slice().to_vec();
            (r, q.len(), q.chunks_count(), q.is_empty(), slice)
        }));
        match r {
            None => {
                obs_coq.push("Pn".into());
                obs_json.push(json!("panic"));
                panicked = true;
                break;
            }
            Some((r, len, count, empty, slice)) => {
                let (rc, rj) = match &r {
                    Ret::Unit => ("U".to_string(), json!(null)),
                    Ret::Bytes(b) => (format!("(Bs {})", cbytes(b)), jbytes(b)),
                    Ret::Num(n) => (format!("(Nm {})", n), json!(n)),
                };
                obs_coq.push(format!("Ob {} {} {} {} {}", rc, len, count, cbool(empty), cbytes(&slice)));
                obs_json.push(json!({"ret": rj, "len": len, "count": count, "empty": empty, "slice": jbytes(&slice)}));
                max_chunks = max_chunks.max(count);
                if matches!(o, Op::Read(_) | Op::Consume(_) | Op::ConsumeWith(..) | Op::ReadToEnd) {
                    if count == before.0 && len < before.1 {
                        split = true;
                        front_partial = true;
                    } else if count < before.0 {
                        front_partial = false;
                    }
                }
                if matches!(o, Op::Drop) && count < before.0 {
                    dropped = true;
                    if front_partial {
                        drop_partial = true;
                    }
                }
            }
        }
    }
    let mut j = input.clone();
    j["impl"] = Value::Array(obs_json);
    let nwrites = ops.iter().filter(|o| matches!(o, Op::Write(b) if !b.is_empty())).count();
    let nflush = ops.iter().filter(|o| matches!(o, Op::Flush)).count();
    let mut tags = vec![
        format!("ops={}", match ops.len() { 0..=4 => "1-4", 5..=12 => "5-12", 13..=30 => "13-30", _ => ">30" }),
        format!("max_chunks={}", if max_chunks > 32 { ">32".to_string() } else if max_chunks > 6 { "7-32".to_string() } else { max_chunks.to_string() }),
        format!("split_front={}", split),
        format!("drop_discards={}", dropped),
        format!("drop_with_front_partly_consumed={}", drop_partial),
        format!("panic={}", panicked),
    ];
    if ops.windows(2).any(|w| matches!(w, [Op::Flush, Op::Flush])) {
        tags.push("double_flush".into());
    }
    if ops.iter().any(|o| matches!(o, Op::ReadToEnd)) {
        tags.push("read_to_end".into());
    }
    if ops.iter().any(|o| matches!(o, Op::Write(b) if b.is_empty())) {
        tags.push("empty_write".into());
    }
    if traits {
        tags.push("via_std_traits".into());
    }
    Case {
        coq: format!("Q {} {}", clist(ops.iter().map(op_coq)), clist(obs_coq)),
        json: j,
        tags,
        nontrivial: nwrites >= 2 && nflush >= 1 && max_chunks >= 2 && (split || dropped),
    }
}


// ---------------------------------------------------------------------------------------------
// Big histories: one or more chunks of 4 KiB .. 1 MiB (sizes on both sides of the powers of two a
// maintainer might pick as a threshold) drained by many short reads / consumes of varying sizes, with
// flushes, further writes and drops interleaved.  Payloads are generated from a seed (same generator
// in Corr/C16Corr.v), byte strings in observations are summarised as (length, digest).
// input JSON: {"big": true, "ops": [["wg",seed,len],["f"],["r",n],["c",amt],["cw",k,clamp],["ce"],["d"],["re"]]}

const MASK63: u64 = 0x7FFF_FFFF_FFFF_FFFF;

fn lcg(x: u64) -> u64 {
    x.wrapping_mul(6364136223846793005).wrapping_add(1442695040888963407) & MASK63
}

pub fn gen_bytes(n: usize, seed: u64) -> Vec<u8> {
    let mut x = seed & MASK63;
    (0..n)
        .map(|_| {
            x = lcg(x);
            ((x >> 32) & 255) as u8
        })
        .collect()
}

pub fn digest(b: &[u8]) -> u64 {
    let mut h: u64 = 0;
    for x in b {
        h = h.wrapping_mul(1000003).wrapping_add(*x as u64 + 1) & MASK63;
    }
    h
}

fn run_big(input: &Value) -> Case {
    let jops = input["ops"].as_array().cloned().unwrap_or_default();
    let mut q = IOQueue::new();
    let mut ops_coq: Vec<String> = vec![];
    let mut obs_coq: Vec<String> = vec![];
    let mut obs_json: Vec<Value> = vec![];
    let mut panicked = false;
    let mut max_chunk = 0usize;
    let mut partials_in_big = 0usize; // takes that left a >64 KiB front chunk partly consumed
    let mut dropped = false;
    for o in &jops {
        let k = o[0].as_str().unwrap_or("");
        let num = |i: usize| o[i].as_u64().unwrap_or(0);
        let (op, coq) = match k {
            "wg" => {
                let (seed, len) = (num(1), num(2) as usize);
                max_chunk = max_chunk.max(len);
                (Op::Write(gen_bytes(len, seed)), format!("BW {} {}", seed & MASK63, len))
            }
            "f" => (Op::Flush, "BF".to_string()),
            "r" => (Op::Read(num(1) as usize), format!("BRd {}", num(1))),
            "c" => (Op::Consume(num(1) as usize), format!("BCn {}", num(1))),
            "cw" => {
                let c = o[2].as_bool().unwrap_or(true);
                (Op::ConsumeWith(num(1) as usize, c), format!("BCW {} {}", num(1), cbool(c)))
            }
            "ce" => (Op::ConsumeWithErr, "BCE".to_string()),
            "d" => (Op::Drop, "BD".to_string()),
            "re" => (Op::ReadToEnd, "BRE".to_string()),
            _ => continue,
        };
        ops_coq.push(coq);
        let before = (q.chunks_count(), q.len(), q.as_slice().len());
        let r = catch(AssertUnwindSafe(|| {
            let r = apply(&mut q, &op);
            let s = q.as_slice();
            (r, q.len(), q.chunks_count(), q.is_empty(), s.len(), digest(s))
        }));
        match r {
            None => {
                obs_coq.push("BPn".into());
                obs_json.push(json!("panic"));
                panicked = true;
                break;
            }
            Some((r, len, count, empty, slen, sdig)) => {
                let (rc, rj) = match &r {
                    Ret::Unit => ("BU".to_string(), json!(null)),
                    Ret::Bytes(b) => (format!("(BBs {} {})", b.len(), digest(b)), json!({"len": b.len(), "digest": digest(b)})),
                    Ret::Num(n) => (format!("(BNm {})", (*n as u64) & MASK63), json!(n)),
                };
                obs_coq.push(format!("BOb {} {} {} {} {} {}", rc, len, count, cbool(empty), slen, sdig));
                obs_json.push(json!({"ret": rj, "len": len, "count": count, "empty": empty, "slice_len": slen, "slice_digest": sdig}));
                if matches!(op, Op::Read(_) | Op::Consume(_) | Op::ConsumeWith(..)) && count == before.0 && len < before.1 && before.2 > 65536 {
                    partials_in_big += 1;
                }
                if matches!(op, Op::Drop) && count < before.0 {
                    dropped = true;
                }
            }
        }
    }
    let mut j = input.clone();
    j["impl"] = Value::Array(obs_json);
    let size_tag = match max_chunk {
        0..=4096 => "<=4K",
        4097..=65535 => "4K-64K",
        65536..=131072 => "64K-128K",
        131073..=524288 => "128K-512K",
        _ => ">512K",
    };
    Case {
        coq: format!("QB {} {}", clist(ops_coq), clist(obs_coq)),
        json: j,
        tags: vec![
            "big".into(),
            format!("big.max_write={}", size_tag),
            format!("big.partial_takes_in_chunk_over_64K={}", match partials_in_big { 0 => "0", 1 => "1", 2..=9 => "2-9", _ => ">=10" }),
            format!("big.drop_discards={}", dropped),
            format!("panic={}", panicked),
        ],
        nontrivial: partials_in_big >= 2,
    }
}

// ---------------------------------------------------------------------------------------------
// Segment histories: every byte written is a function of its position in the stream of everything written
// (`pat`), so a history of megabytes is described by lengths only and what comes out is reported as runs
// (start, length) of stream positions.  TRUSTED: this function claims a run only after it has compared every
// byte it got with the pattern over that run; the claim itself is "the head of what a FIFO still owes", kept as
// a flat list of runs that follows the queue's own len() for raw consumes and drops.  A buffer that does not
// match its claim is reported as a run starting at BAD, which neither the model nor the specification accepts.
// input JSON: {"seg": true, "ops": [["w",len],["f"],["r",n],["c",amt],["cw",k,clamp],["ce"],["d"],["re"]]}

const BAD: u64 = 1 << 62;

#[inline]
pub fn pat(i: u64) -> u8 {
    (i.wrapping_mul(0x9E37_79B9_7F4A_7C15) >> 56) as u8
}

struct Live {
    runs: std::collections::VecDeque<(u64, u64)>,
    total: u64,
}

impl Live {
    fn push(&mut self, a: u64, n: u64) {
        if n == 0 {
            return;
        }
        self.total += n;
        if let Some(l) = self.runs.back_mut() {
            if l.0 + l.1 == a {
                l.1 += n;
                return;
            }
        }
        self.runs.push_back((a, n));
    }
    /// the first k bytes owed, as runs (None when fewer are owed)
    fn head(&self, k: u64) -> Option<Vec<(u64, u64)>> {
        if k > self.total {
            return None;
        }
        let mut out = vec![];
        let mut left = k;
        for &(a, n) in &self.runs {
            if left == 0 {
                break;
            }
            let t = left.min(n);
            out.push((a, t));
            left -= t;
        }
        Some(out)
    }
    fn drop_front(&mut self, mut k: u64) {
        k = k.min(self.total);
        self.total -= k;
        while k > 0 {
            let f = self.runs.front_mut().unwrap();
            if f.1 <= k {
                k -= f.1;
                self.runs.pop_front();
            } else {
                f.0 += k;
                f.1 -= k;
                k = 0;
            }
        }
    }
    fn drop_back(&mut self, mut k: u64) {
        k = k.min(self.total);
        self.total -= k;
        while k > 0 {
            let b = self.runs.back_mut().unwrap();
            if b.1 <= k {
                k -= b.1;
                self.runs.pop_back();
            } else {
                b.1 -= k;
                k = 0;
            }
        }
    }
    /// the runs `buf` is claimed to be, after comparing every byte with the pattern
    fn claim(&self, buf: &[u8]) -> Vec<(u64, u64)> {
        let bad = vec![(BAD, buf.len() as u64)];
        let runs = match self.head(buf.len() as u64) {
            Some(r) => r,
            None => return bad,
        };
        let mut i = 0usize;
        for &(a, n) in &runs {
            for j in 0..n {
                if buf[i] != pat(a + j) {
                    return bad;
                }
                i += 1;
            }
        }
        runs
    }
}

fn cruns(r: &[(u64, u64)]) -> String {
    clist(r.iter().map(|(a, n)| format!("({}, {})", a, n)))
}

fn jruns(r: &[(u64, u64)]) -> Value {
    Value::Array(r.iter().map(|(a, n)| json!([a, n])).collect())
}

fn run_seg(input: &Value) -> Case {
    let jops = input["ops"].as_array().cloned().unwrap_or_default();
    let traits = input["via"].as_str() == Some("traits");
    let mut q = new_queue(traits);
    let mut live = Live { runs: Default::default(), total: 0 };
    let mut wr = 0u64;
    let mut ops_coq: Vec<String> = vec![];
    let mut obs_coq: Vec<String> = vec![];
    let mut obs_json: Vec<Value> = vec![];
    let mut panicked = false;
    let mut max_chunk = 0u64;
    let mut stalled = false; // a call made no progress although data remained
    for o in &jops {
        let k = o[0].as_str().unwrap_or("");
        let num = |i: usize| o[i].as_u64().unwrap_or(0);
        let (op, coq) = match k {
            "w" => {
                let n = num(1);
                max_chunk = max_chunk.max(n);
                (Op::Write((wr..wr + n).map(pat).collect()), format!("SWr {}", n))
            }
            "f" => (Op::Flush, "SFl".to_string()),
            "r" => (Op::Read(num(1) as usize), format!("SRd {}", num(1))),
            "c" => (Op::Consume(num(1) as usize), format!("SCn {}", num(1))),
            "cw" => {
                let c = o[2].as_bool().unwrap_or(true);
                (Op::ConsumeWith(num(1) as usize, c), format!("SCW {} {}", num(1), cbool(c)))
            }
            "ce" => (Op::ConsumeWithErr, "SCE".to_string()),
            "d" => (Op::Drop, "SDr".to_string()),
            "re" => (Op::ReadToEnd, "SRE".to_string()),
            _ => continue,
        };
        ops_coq.push(coq);
        if let Op::Write(b) = &op {
            live.push(wr, b.len() as u64);
            wr += b.len() as u64;
        }
        let r = catch(AssertUnwindSafe(|| {
            let r = apply_via(&mut q, &op, traits);
            let slice = q.as_slice().to_vec();
            (r, q.len() as u64, q.chunks_count(), q.is_empty(), slice)
        }));
        match r {
            None => {
                obs_coq.push("SPn".into());
                obs_json.push(json!("panic"));
                panicked = true;
                break;
            }
            Some((r, len, count, empty, slice_bytes)) => {
                let (rc, rj) = match &r {
                    Ret::Unit => {
                        // raw consume / failing consumer / drop: what went is read off len()
                        let gone = live.total.saturating_sub(len);
                        if matches!(op, Op::Drop) {
                            live.drop_back(gone);
                        } else if !matches!(op, Op::Flush) {
                            live.drop_front(gone);
                        }
                        ("SU".to_string(), json!(null))
                    }
                    Ret::Bytes(b) => {
                        let runs = live.claim(b);
                        live.drop_front(b.len() as u64);
                        if b.is_empty() && len > 0 && !matches!(op, Op::Read(0)) {
                            stalled = true;
                        }
                        (format!("(SRuns {})", cruns(&runs)), jruns(&runs))
                    }
                    Ret::Num(n) => {
                        if !matches!(op, Op::Write(_)) {
                            // (a consumer may answer more than the slice held: what went is read off len())
                            live.drop_front(live.total.saturating_sub(len));
                        }
                        (format!("(SNum {})", *n as u64 & MASK63), json!(n))
                    }
                };
                let slice = live.claim(&slice_bytes);
                if slice_bytes.is_empty() && len > 0 {
                    stalled = true;
                }
                obs_coq.push(format!("SOb {} {} {} {} {}", rc, len, count, cbool(empty), cruns(&slice)));
                obs_json.push(json!({"ret": rj, "len": len, "count": count, "empty": empty, "slice": jruns(&slice)}));
            }
        }
    }
    let mut j = input.clone();
    j["impl"] = Value::Array(obs_json);
    let size_tag = match max_chunk {
        0..=4096 => "<=4K",
        4097..=65535 => "4K-64K",
        65536..=1048575 => "64K-1M",
        _ => ">=1M",
    };
    let mut tags = vec!["seg".to_string(), format!("seg.max_write={}", size_tag), format!("panic={}", panicked)];
    if traits {
        tags.push("via_std_traits".into());
    }
    if let Some(b) = input["boundary"].as_u64() {
        tags.push("seg.source_boundary".into());
        let _ = b;
    }
    if stalled {
        tags.push("seg.no_progress_while_data_remains".into());
    }
    Case { coq: format!("QS {} {}", clist(ops_coq), clist(obs_coq)), json: j, tags, nontrivial: jops.len() >= 5 && wr > 0 }
}

/// Histories aimed at the integer constants of the current source (util::source_literals, read at run time): a
/// single chunk of v-1, v, v+1, v + a few, 2v, 2v+1 bytes, consumed up to the offsets v-1, v, v+1 in one piece or in
/// several, by consume_with / consume / read, then small reads, a further write, a drop, and a drain.  A threshold
/// that a change introduces (a cap on slices, a compaction limit) is reached without anybody naming it.
pub fn gen_boundary_histories(rng: &mut Rng, per_literal: usize) -> Vec<Value> {
    let mut out = vec![];
    let lits: Vec<u64> = source_literals(&["src/common.rs", "src/unix.rs"]).into_iter().filter(|&v| (2..=(1u64 << 26)).contains(&v)).collect();
    for &v in &lits {
        for variant in 0..per_literal {
            let l = match (variant + rng.below(2) as usize * 3) % 6 {
                0 => v + 1 + rng.below(9),
                1 => 2 * v,
                2 => v + 1,
                3 => v,
                4 => 2 * v + 1,
                _ => v - 1,
            };
            let off = [v, v - 1, v + 1][(variant + rng.below(3) as usize) % 3].min(l);
            let mut ops: Vec<Value> = vec![json!(["w", l]), json!(["f"]), json!(["w", 7])];
            if rng.chance(1, 2) {
                ops.push(json!(["f"]));
            }
            // get to the offset
            let pieces: Vec<u64> = match rng.below(4) {
                0 => vec![off],
                1 => vec![off.saturating_sub(1), 1.min(off)],
                2 => vec![off / 2, off - off / 2],
                _ => vec![1.min(off), off.saturating_sub(1)],
            };
            for p in pieces {
                match rng.below(3) {
                    0 => ops.push(json!(["cw", p, true])),
                    1 => ops.push(json!(["c", p])),
                    _ => ops.push(json!(["r", p])),
                }
            }
            ops.push(json!(["r", 3]));
            ops.push(json!(["cw", 2, true]));
            ops.push(json!(["c", 1]));
            ops.push(json!(["w", 5]));
            if rng.chance(1, 3) {
                ops.push(json!(["d"]));
            }
            ops.push(json!(["r", 1 + rng.below(64)]));
            ops.push(json!(["re"]));
            out.push(json!({"seg": true, "boundary": v, "ops": ops}));
        }
    }
    out
}

/// random segment histories; sizes are drawn from the source boundaries as well as at random
pub fn gen_seg(rng: &mut Rng, bounds: &[u64]) -> Value {
    let size = |rng: &mut Rng| -> u64 {
        match rng.below(6) {
            0 | 1 if !bounds.is_empty() => *rng.pick(bounds),
            2 => rng.below(8),
            3 => 1 + rng.below(300),
            4 => 1000 + rng.below(70000),
            _ => 1 + rng.below(5000),
        }
    };
    let mut ops: Vec<Value> = vec![];
    for _ in 0..(4 + rng.below(24)) {
        match rng.below(20) {
            0..=5 => ops.push(json!(["w", size(rng)])),
            6..=8 => ops.push(json!(["f"])),
            9..=11 => ops.push(json!(["r", size(rng)])),
            12..=14 => ops.push(json!(["cw", size(rng), true])),
            15 => ops.push(json!(["cw", rng.below(4), false])),
            16 => ops.push(json!(["c", rng.below(3)])),
            17 => ops.push(json!(["ce"])),
            18 => ops.push(json!(["d"])),
            _ => ops.push(json!(["re"])),
        }
    }
    ops.push(json!(["re"]));
    json!({"seg": true, "ops": ops})
}

/// sizes on both sides of thresholds a maintainer might introduce
fn gen_big_len(rng: &mut Rng, cap: usize) -> usize {
    let base: [usize; 10] = [4096, 8192, 16384, 32768, 65536, 98304, 131072, 262144, 524288, 1048576];
    let b = *rng.pick(&base);
    let len = match rng.below(5) {
        0 => b,
        1 => b - 1,
        2 => b + 1,
        3 => b + 1 + rng.below(b as u64 / 2) as usize,
        _ => 65536 + rng.below(200000) as usize,
    };
    len.min(cap).max(1)
}

fn gen_take(rng: &mut Rng) -> usize {
    match rng.below(8) {
        0 => 4096,
        1 => 8192,
        2 => 4095 + rng.below(3) as usize,
        3 => 1 + rng.below(64) as usize,
        4 => 16384 + rng.below(20000) as usize,
        5 => 65536 + rng.below(3) as usize - 1,
        6 => 1000 + rng.below(9000) as usize,
        _ => 30000 + rng.below(70000) as usize,
    }
}

pub fn gen_big(rng: &mut Rng, cap: usize) -> Value {
    let mut ops: Vec<Value> = vec![];
    let frames = 1 + rng.below(3);
    let mut budget = cap;
    for _ in 0..frames {
        // a frame: one big write or several writes into the same chunk, then flush
        let len = gen_big_len(rng, budget.max(1));
        budget = budget.saturating_sub(len);
        if rng.chance(1, 3) {
            let a = len / 3;
            ops.push(json!(["wg", rng.next() % 1000000, a]));
            ops.push(json!(["wg", rng.next() % 1000000, len - a]));
        } else {
            ops.push(json!(["wg", rng.next() % 1000000, len]));
        }
        if rng.chance(4, 5) {
            ops.push(json!(["f"]));
        }
        // drain part of it (or all of it) in short takes
        let takes = 2 + rng.below(if len > 300000 { 14 } else { 30 });
        let style = rng.below(3);
        for _ in 0..takes {
            let n = gen_take(rng);
            match style {
                0 => ops.push(json!(["cw", n, true])),
                1 => ops.push(json!(["r", n])),
                _ => match rng.below(4) {
                    0 => ops.push(json!(["r", n])),
                    1 => ops.push(json!(["c", n.min(60000)])),
                    _ => ops.push(json!(["cw", n, true])),
                },
            }
            match rng.below(12) {
                0 => ops.push(json!(["f"])),
                1 => {
                    let l = 1 + rng.below(3000) as usize;
                    ops.push(json!(["wg", rng.next() % 1000000, l]));
                }
                2 => ops.push(json!(["cw", 0, true])),
                3 => ops.push(json!(["ce"])),
                _ => {}
            }
        }
        if rng.chance(1, 5) {
            ops.push(json!(["d"]));
        }
    }
    ops.push(json!(["re"]));
    json!({"big": true, "ops": ops})
}

fn gen_payload(rng: &mut Rng) -> Vec<u8> {
    let n = match rng.below(40) {
        0..=2 => 0,
        3..=27 => 1 + rng.below(5) as usize,
        28..=38 => 1 + rng.below(16) as usize,
        _ => 40 + rng.below(80) as usize,
    };
    // a small alphabet makes equal bytes in different frames likely (duplicates must not confuse anyone)
    if rng.chance(1, 3) {
        (0..n).map(|_| 97 + rng.below(3) as u8).collect()
    } else {
        rng.bytes(n)
    }
}

fn gen_amount(rng: &mut Rng) -> usize {
    match rng.below(20) {
        0 => 0,
        1..=12 => rng.below(8) as usize,
        13..=16 => rng.below(40) as usize,
        17 => 300 + rng.below(100) as usize,
        18 => usize::MAX - rng.below(3) as usize,
        _ => 1,
    }
}

/// many tiny frames: more chunks than the render loop's drop threshold (32) and than any small
/// power of two a container might grow by
fn gen_many_chunks(rng: &mut Rng) -> Vec<Op> {
    let frames = 30 + rng.below(45) as usize;
    let mut ops = vec![];
    for i in 0..frames {
        let len = 1 + rng.below(2) as usize;
        ops.push(Op::Write(rng.bytes(len)));
        ops.push(Op::Flush);
        if rng.chance(1, 9) {
            ops.push(Op::ConsumeWith(1 + rng.below(3) as usize, true));
        }
        if i > 33 && rng.chance(1, 25) {
            ops.push(Op::Drop);
        }
    }
    match rng.below(3) {
        0 => ops.push(Op::Drop),
        1 => {
            for _ in 0..rng.below(40) {
                ops.push(Op::Read(1 + rng.below(3) as usize));
            }
        }
        _ => {}
    }
    ops.push(Op::ReadToEnd);
    ops
}

pub fn gen_ops(rng: &mut Rng) -> Vec<Op> {
    if rng.chance(1, 40) {
        return gen_many_chunks(rng);
    }
    let n = match rng.below(20) {
        0..=1 => 1 + rng.below(4),
        2..=12 => 5 + rng.below(10),
        13..=18 => 12 + rng.below(18),
        _ => 30 + rng.below(30),
    } as usize;
    // style: writer-heavy (many chunks pile up), reader-heavy, balanced
    let style = rng.below(4);
    let mut ops = vec![];
    for _ in 0..n {
        let (w, f, r) = match style {
            0 => (45, 30, 15),
            1 => (30, 15, 45),
            _ => (35, 20, 30),
        };
        let x = rng.below(100);
        if x < w {
            ops.push(Op::Write(gen_payload(rng)));
        } else if x < w + f {
            ops.push(Op::Flush);
            if rng.chance(1, 5) {
                ops.push(Op::Flush);
            }
        } else if x < w + f + r {
            match rng.below(10) {
                0..=3 => ops.push(Op::Read(gen_amount(rng).min(1 << 20))),
                4..=5 => ops.push(Op::Consume(gen_amount(rng))),
                6..=8 => {
                    let k = gen_amount(rng);
                    ops.push(Op::ConsumeWith(k, !rng.chance(1, 6)))
                }
                _ => ops.push(Op::ConsumeWithErr),
            }
        } else if rng.chance(4, 5) {
            ops.push(Op::Drop);
        } else {
            ops.push(Op::ReadToEnd);
        }
    }
    // always drain at the end, so that what a late drop kept (and only that) is read back
    ops.push(Op::ReadToEnd);
    ops
}

pub fn generate(rng: &mut Rng, n: usize, _tier: &str) -> Vec<Value> {
    let mut v = vec![];
    // fixed part: the unit test's script, and the poll-loop pattern (write, flush, partial sends, empty tail chunk)
    v.push(json!({"ops": [["w",[111,110]],["w",[101]],["f"],["w",[44,116,119,111]],["f"],["re"]]}));
    v.push(json!({"ops": [["w",[1,2,3,4,5]],["f"],["cw",2,true],["f"],["cw",2,true],["cw",9,true],["cw",9,true],["cw",9,true]]}));
    // reach that the check requires, by construction: a drop that finds the front chunk partly consumed, more
    // than 32 chunks, a chunk over 64 KiB drained in more than ten pieces
    v.push(json!({"ops": [["w",[1,2,3,4,5,6]],["f"],["w",[7,8]],["f"],["w",[9]],["cw",2,true],["d"],["w",[10]],["re"]]}));
    {
        let mut many: Vec<Value> = vec![];
        for i in 0..40u64 {
            many.push(json!(["w", [i % 251, (i * 7) % 251]]));
            many.push(json!(["f"]));
        }
        many.push(json!(["cw", 1, true]));
        many.push(json!(["d"]));
        many.push(json!(["re"]));
        v.push(json!({ "ops": many }));
        let mut big: Vec<Value> = vec![json!(["wg", 4711, 200000]), json!(["f"]), json!(["wg", 4712, 70000])];
        for k in 0..14u64 {
            big.push(json!(["cw", 4096 + k, true]));
        }
        big.push(json!(["r", 65537]));
        big.push(json!(["re"]));
        v.push(json!({"big": true, "ops": big}));
    }
    // big histories: few, they cost a second each on the Coq side
    let (nbig, cap) = if _tier == "thorough" { (n / 150 + 40, 1_300_000) } else { (12, 400_000) };
    let mut bigs = vec![];
    for i in 0..nbig {
        // the first ones always hold a chunk over 64 KiB
        let mut b = gen_big(rng, cap);
        if i < 4 {
            b["ops"].as_array_mut().unwrap().insert(0, json!(["wg", 1000 + i as u64, 70000 + 30000 * i as u64]));
        }
        bigs.push(b);
    }
    // segment histories: aimed at every integer constant of the current source, and random ones
    let boundary = gen_boundary_histories(rng, if _tier == "thorough" { 6 } else { 3 });
    let bounds: Vec<u64> = source_boundaries(&["src/common.rs", "src/unix.rs"], 1 << 21).into_iter().filter(|&b| b > 0).collect();
    let nseg = if _tier == "thorough" { n / 20 } else { 60 };
    let extra: Vec<Value> = boundary.into_iter().chain((0..nseg).map(|_| gen_seg(rng, &bounds))).collect();
    while v.len() + extra.len() < n {
        let ops = gen_ops(rng);
        if rng.chance(1, 4) {
            v.push(json!({ "ops": ops_json(&ops), "via": "traits" }));
        } else {
            v.push(json!({ "ops": ops_json(&ops) }));
        }
    }
    for (i, mut e) in extra.into_iter().enumerate() {
        if i % 2 == 1 {
            e["via"] = json!("traits");
        }
        v.push(e);
    }
    // spread the big ones over the shards
    let step = (v.len() / nbig.max(1)).max(1);
    for (i, b) in bigs.into_iter().enumerate() {
        let at = (i * step + step / 2).min(v.len());
        v.insert(at, b);
    }
    v
}

pub fn batch(inputs: &[Value]) -> Batch {
    Batch {
        prop: "C16",
        coq_import: "Corr.C16Corr",
        case_type: "c16_case",
        report_fn: "c16_report",
        rule: "history with >=2 non-empty writes and >=1 flush that reaches >=2 chunks and either leaves the front chunk partly consumed or drops pending chunks; distinct by input",
        cases: inputs.iter().map(run).collect(),
        preamble: "From Coq Require Import Uint63.\nFrom SNT Require Import IO.SegQueue.\nLocal Open Scope N_scope.\n".to_string(),
    }
}
