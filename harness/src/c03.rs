//! C03: decoded events do not depend on read boundaries and follow leftmost-longest rules.
//!
//! gen   the private MatcherDecoder over random pattern sets (hook verif::Tokenizer); the compiled
//!       DFA is dumped and handed to the model as data
//! prod  TTYEventDecoder / TTYCommandDecoder under random and exhaustive cuts; the case carries a
//!       table span -> interned Debug rendering built from the crate's own payload decoders
//! utf8  Utf8Decoder under cuts (chunking independence of its observable output)
use crate::util::*;
use serde_json::{json, Value};
use std::collections::BTreeMap;
use std::io::Cursor;
use std::panic::AssertUnwindSafe;
use std::sync::OnceLock;
use surf_n_term::automata::NFA;
use surf_n_term::decoder::{verif, Decoder, TTYCommandDecoder, TTYEventDecoder, Utf8Decoder};
use surf_n_term::{TerminalCommand, TerminalEvent};

/// Before C02's `fix:` commits (crate branch ws-c03: 17cbbd3, 74bf110, 909a23c, 14616ff) the payload
/// decoders panicked / aborted on some inputs (that is C02's finding, not C03's) and the generators
/// had to stay away from them.  With the fixes in the tree the sanitiser leaves streams untouched.
const SAFE_MODE: bool = false;

// ------------------------------------------------------------------ tokens

#[derive(Clone, PartialEq, Eq, PartialOrd, Ord, Debug)]
pub enum ITok {
    It(u64, Vec<u8>),
    Rw(Vec<u8>),
}

pub type Out = Option<Vec<ITok>>;

fn ctok(t: &ITok) -> String {
    match t {
        ITok::It(i, b) => format!("IT {} {}", i, cbytes(b)),
        ITok::Rw(b) => format!("RW {}", cbytes(b)),
    }
}

fn cout(o: &Out) -> String {
    match o {
        None => "None".to_string(),
        Some(ts) => format!("(Some {})", clist(ts.iter().map(ctok))),
    }
}

fn jout(o: &Out) -> Value {
    match o {
        None => json!("panic"),
        Some(ts) => Value::Array(
            ts.iter()
                .map(|t| match t {
                    ITok::It(i, b) => json!({"it": i, "b": jbytes(b)}),
                    ITok::Rw(b) => json!({"rw": jbytes(b)}),
                })
                .collect(),
        ),
    }
}

/// `let o0 := .. in .. <ctor> .. [(cuts, o0); ..]`: distinct outputs are printed once
fn cruns(head: &str, parts: &[Vec<usize>], outs: &[Out]) -> String {
    let mut distinct: Vec<&Out> = vec![];
    let mut idx = vec![];
    for o in outs {
        match distinct.iter().position(|d| *d == o) {
            Some(i) => idx.push(i),
            None => {
                distinct.push(o);
                idx.push(distinct.len() - 1);
            }
        }
    }
    let mut s = String::from("(");
    for (i, d) in distinct.iter().enumerate() {
        s.push_str(&format!("let o{} : out := {} in ", i, cout(d)));
    }
    s.push_str(head);
    s.push(' ');
    s.push_str(&clist(parts.iter().zip(idx.iter()).map(|(p, i)| format!("({}, o{})", clist(p.iter().map(|n| cnat(*n))), i))));
    s.push(')');
    s
}

fn vparts(v: &Value) -> Vec<Vec<usize>> {
    v.as_array().map(|a| a.iter().map(vusizes).collect()).unwrap_or_default()
}

// ------------------------------------------------------------------ patterns (gen)

fn build(p: &Value) -> NFA<()> {
    let o = p.as_object().expect("pattern object");
    let (k, v) = o.iter().next().expect("pattern key");
    match k.as_str() {
        "l" => {
            let s: String = vbytes(v).iter().map(|b| (*b & 0x7f) as char).collect();
            NFA::from(s.as_str())
        }
        "p" => {
            let set = vbytes(v);
            NFA::predicate(move |b| set.contains(&b))
        }
        "s" => NFA::sequence(v.as_array().unwrap().iter().map(build)),
        "c" => NFA::choice(v.as_array().unwrap().iter().map(build)),
        "+" => build(v).some(),
        "?" => build(v).optional(),
        _ => build(v).many(),
    }
}

/// the pattern as a term of Automata/Regex.v
fn cregex(p: &Value) -> String {
    let o = p.as_object().expect("pattern object");
    let (k, v) = o.iter().next().expect("pattern key");
    match k.as_str() {
        "l" => format!("(Lit {})", cbytes(&vbytes(v).iter().map(|b| b & 0x7f).collect::<Vec<u8>>())),
        "p" => format!("(Pred {})", cbytes(&vbytes(v))),
        "s" => format!("(Seq {})", clist(v.as_array().unwrap().iter().map(cregex))),
        "c" => format!("(Choice {})", clist(v.as_array().unwrap().iter().map(cregex))),
        "+" => format!("(Plus {})", cregex(v)),
        "?" => format!("(Opt {})", cregex(v)),
        _ => format!("(Many {})", cregex(v)),
    }
}

const ALPHA: [u8; 4] = [97, 98, 99, 27];

fn gen_pat(rng: &mut Rng, depth: u32) -> Value {
    let k = if depth == 0 { rng.below(2) } else { rng.below(9) };
    match k {
        0 => {
            let n = 1 + rng.below(3) as usize;
            json!({"l": (0..n).map(|_| *rng.pick(&ALPHA)).collect::<Vec<u8>>()})
        }
        1 => {
            let mut set: Vec<u8> = ALPHA.iter().copied().filter(|_| rng.chance(1, 2)).collect();
            if set.is_empty() {
                set.push(*rng.pick(&ALPHA));
            }
            // the ends of the symbol range and the byte-sized constants written in the automata source
            if rng.chance(1, 3) {
                for _ in 0..1 + rng.below(2) {
                    let b = if rng.chance(1, 2) { *rng.pick(&[0u8, 1, 0x7f, 0x80, 0xfe, 0xff]) } else { src_num(rng, 255) as u8 };
                    if !set.contains(&b) {
                        set.push(b);
                    }
                }
            }
            json!({"p": set})
        }
        2 | 3 => {
            let n = 2 + rng.below(2) as usize;
            json!({"s": (0..n).map(|_| gen_pat(rng, depth - 1)).collect::<Vec<_>>()})
        }
        4 => {
            let n = 2 + rng.below(2) as usize;
            json!({"c": (0..n).map(|_| gen_pat(rng, depth - 1)).collect::<Vec<_>>()})
        }
        5 => json!({"+": gen_pat(rng, depth - 1)}),
        6 => json!({"?": gen_pat(rng, depth - 1)}),
        7 => json!({"*": gen_pat(rng, depth - 1)}),
        _ => {
            // ESC-introduced sequence, the shape the real grammar has
            json!({"s": [json!({"l":[27]}), gen_pat(rng, depth - 1)]})
        }
    }
}

/// a string the pattern matches (used to make inputs that exercise the accepting paths)
fn sample(rng: &mut Rng, p: &Value, out: &mut Vec<u8>) {
    let o = p.as_object().unwrap();
    let (k, v) = o.iter().next().unwrap();
    match k.as_str() {
        "l" => out.extend(vbytes(v)),
        "p" => {
            let s = vbytes(v);
            out.push(*rng.pick(&s));
        }
        "s" => {
            for q in v.as_array().unwrap() {
                sample(rng, q, out);
            }
        }
        "c" => {
            let a = v.as_array().unwrap();
            let q = &a[rng.below(a.len() as u64) as usize];
            sample(rng, q, out);
        }
        "+" => {
            for _ in 0..1 + rng.below(3) {
                sample(rng, v, out);
            }
        }
        "?" => {
            if rng.chance(1, 2) {
                sample(rng, v, out);
            }
        }
        _ => {
            for _ in 0..rng.below(3) {
                sample(rng, v, out);
            }
        }
    }
}

fn gen_tag(tag: &str) -> (bool, usize) {
    if let Some(rest) = tag.strip_prefix('M') {
        (false, rest.parse().unwrap_or(usize::MAX))
    } else {
        // "I(<index>, [])"
        let digits: String = tag.chars().skip(2).take_while(|c| c.is_ascii_digit()).collect();
        (true, digits.parse().unwrap_or(usize::MAX))
    }
}

fn cdfa(d: &verif::DfaDump, tag: &dyn Fn(&str) -> (bool, usize)) -> String {
    let rows = crate::registry::tool_dfa::rows_of(d);
    let rows_s = clist(rows.iter().map(|r| clist(r.iter().map(|[lo, hi, to]| format!("({}, {}, {})", lo, hi, to)))));
    let infos_s = clist(d.infos.iter().map(|(a, t, tags)| {
        format!(
            "({}, {}, {})",
            cbool(*a),
            cbool(*t),
            clist(tags.iter().map(|s| {
                let (i, k) = tag(s);
                format!("({}, {})", cbool(i), k)
            }))
        )
    }));
    format!("(mk_dfa_data {} {} {})", d.start, rows_s, infos_s)
}

fn tokenizer(pats: &[Value], items: &[bool], rejects: &[bool]) -> verif::Tokenizer {
    verif::Tokenizer::with_rejects(
        pats.iter().enumerate().map(|(k, p)| (build(p), items.get(k).copied().unwrap_or(false), rejects.get(k).copied().unwrap_or(false))),
    )
}

fn run_gen(input: &Value) -> Case {
    let pats: Vec<Value> = input["pats"].as_array().cloned().unwrap_or_default();
    let items: Vec<bool> = input["items"].as_array().map(|a| a.iter().map(|b| b.as_bool().unwrap_or(false)).collect()).unwrap_or_default();
    let rejects: Vec<bool> = input["rejects"].as_array().map(|a| a.iter().map(|b| b.as_bool().unwrap_or(false)).collect()).unwrap_or_default();
    let data = vbytes(&input["input"]);
    let parts = vparts(&input["parts"]);
    let dump = tokenizer(&pats, &items, &rejects).dump();
    let outs: Vec<Out> = parts
        .iter()
        .map(|cuts| {
            catch(AssertUnwindSafe(|| {
                let mut t = tokenizer(&pats, &items, &rejects);
                let mut out = vec![];
                let mut pos = 0;
                for n in cuts {
                    let end = (pos + n).min(data.len());
                    for tok in t.decode_all(&data[pos..end]) {
                        out.push(match tok {
                            Ok((i, b)) => ITok::It(i as u64, b),
                            Err(b) => ITok::Rw(b),
                        });
                    }
                    pos = end;
                }
                out
            }))
        })
        .collect();
    let mut j = input.clone();
    j["impl"] = Value::Array(outs.iter().map(jout).collect());
    let ntok = outs.first().and_then(|o| o.as_ref().map(|v| v.len())).unwrap_or(0);
    let has_item = outs.first().and_then(|o| o.as_ref().map(|v| v.iter().any(|t| matches!(t, ITok::It(..))))).unwrap_or(false);
    let has_raw = outs.first().and_then(|o| o.as_ref().map(|v| v.iter().any(|t| matches!(t, ITok::Rw(..))))).unwrap_or(false);
    let pats_s = clist(pats.iter().enumerate().map(|(k, p)| {
        format!("({}, {}, {})", cregex(p), cbool(items.get(k).copied().unwrap_or(false)), cbool(rejects.get(k).copied().unwrap_or(false)))
    }));
    let head = format!("Gen {} {} {}", pats_s, cdfa(&dump, &gen_tag), cbytes(&data));
    Case {
        coq: cruns(&head, &parts, &outs),
        json: j,
        tags: vec![
            "gen".into(),
            format!("gen.states={}", (dump.size / 4) * 4),
            format!("gen.tokens={}", ntok.min(8)),
            format!("gen.item={} raw={}", has_item, has_raw),
            format!("gen.parts={}", parts.len().min(20)),
            format!("gen.emptyreads={}", parts.iter().any(|p| p.contains(&0))),
            format!("gen.rejects={}", rejects.iter().any(|r| *r)),
        ],
        nontrivial: has_item && parts.iter().any(|p| p.len() >= 2) && data.len() >= 2,
    }
}

// ------------------------------------------------------------------ production decoders

struct Walk {
    start: usize,
    trans: Vec<[Option<usize>; 256]>,
    /// accepting, first tag
    infos: Vec<(bool, Option<String>)>,
}

fn walk_of(which: &str) -> Walk {
    let d = verif::dump_dfa(which).expect("dump");
    let mut trans = vec![[None; 256]; d.size];
    for (f, s, t) in d.transitions.iter() {
        trans[*f][*s as usize] = Some(*t);
    }
    let infos = d.infos.iter().map(|(a, _, tags)| (*a, tags.first().cloned())).collect();
    Walk { start: d.start, trans, infos }
}

fn walk(which: usize) -> &'static Walk {
    static EVENT: OnceLock<Walk> = OnceLock::new();
    static COMMAND: OnceLock<Walk> = OnceLock::new();
    if which == 0 {
        EVENT.get_or_init(|| walk_of("event"))
    } else {
        COMMAND.get_or_init(|| walk_of("command"))
    }
}

struct Interner {
    map: BTreeMap<String, u64>,
}

impl Interner {
    fn code(&mut self, s: &str) -> u64 {
        let n = self.map.len() as u64 + 1;
        *self.map.entry(s.to_string()).or_insert(n)
    }
}

fn which_name(which: usize) -> &'static str {
    if which == 0 {
        "event"
    } else {
        "command"
    }
}

/// rendering of every substring of `data` the automaton accepts from its start state
fn span_table(which: usize, data: &[u8], names: &mut Interner) -> Vec<(Vec<u8>, Option<u64>)> {
    let w = walk(which);
    let mut table: Vec<(Vec<u8>, Option<u64>)> = vec![];
    for i in 0..data.len() {
        let mut q = w.start;
        for j in i..data.len() {
            match w.trans[q][data[j] as usize] {
                None => break,
                Some(n) => q = n,
            }
            let (acc, tag) = &w.infos[q];
            if !*acc {
                continue;
            }
            let span = &data[i..=j];
            if table.iter().any(|(k, _)| k.as_slice() == span) {
                continue;
            }
            let Some(tag) = tag else { continue };
            if let Some(text) = tag.strip_prefix('I') {
                table.push((span.to_vec(), Some(names.code(text))));
            } else if let Ok(index) = tag[1..].parse::<usize>() {
                let r = catch(AssertUnwindSafe(|| verif::decode_with(which_name(which), index, span)));
                match r {
                    Some(Some(Some(text))) => table.push((span.to_vec(), Some(names.code(&text)))),
                    Some(Some(None)) => table.push((span.to_vec(), None)),
                    _ => {} // the payload decoder panicked: no entry (the model then yields a sentinel)
                }
            }
        }
    }
    table
}

fn prod_run(which: usize, data: &[u8], cuts: &[usize], names: &mut Interner) -> Out {
    let mut texts: Option<Vec<Result<String, Vec<u8>>>> = catch(AssertUnwindSafe(|| {
        let mut out = vec![];
        let mut pos = 0;
        if which == 0 {
            let mut dec = TTYEventDecoder::new();
            for n in cuts {
                let end = (pos + n).min(data.len());
                let mut evs = vec![];
                dec.decode_into(Cursor::new(&data[pos..end]), &mut evs).expect("decode_into");
                for e in evs {
                    out.push(match e {
                        TerminalEvent::Raw(b) => Err(b),
                        e => Ok(format!("{:?}", e)),
                    });
                }
                pos = end;
            }
        } else {
            let mut dec = TTYCommandDecoder::new();
            for n in cuts {
                let end = (pos + n).min(data.len());
                let mut evs = vec![];
                dec.decode_into(Cursor::new(&data[pos..end]), &mut evs).expect("decode_into");
                for e in evs {
                    out.push(match e {
                        TerminalCommand::Raw(b) => Err(b),
                        e => Ok(format!("{:?}", e)),
                    });
                }
                pos = end;
            }
        }
        out
    }));
    texts.take().map(|v| {
        v.into_iter()
            .map(|t| match t {
                Ok(s) => ITok::It(names.code(&s), vec![]),
                Err(b) => ITok::Rw(b),
            })
            .collect()
    })
}

/// multi-step histories over scripted readers (tool_oddreader.rs): the partition is the number of
/// bytes the decoder consumed in each call; a failed history is a crashed run
fn hist_out<I>(h: Option<crate::registry::tool_oddreader::Hist<I>>, n: usize, render: &mut dyn FnMut(I) -> ITok) -> (Vec<usize>, Out, Option<String>) {
    use crate::registry::tool_oddreader::Step;
    match h {
        None => (vec![n], None, Some("panic".into())),
        Some(h) => {
            let note = h.fail.clone().or(if h.exhausted { None } else { Some("an exhausted decoder returned an item".into()) });
            if note.is_some() {
                return (vec![n], None, note);
            }
            let toks = h.steps.into_iter().map(|s| match s {
                Step::Item(i) => render(i),
                Step::OwnErr => ITok::Rw(vec![]),
            });
            (h.cuts, Some(toks.collect()), None)
        }
    }
}

fn prod_hist(which: usize, data: &[u8], spec: &(bool, Vec<i64>, Vec<u8>), names: &mut Interner) -> (Vec<usize>, Out, Option<String>) {
    use crate::registry::tool_oddreader::drive;
    let (sticky, script, ops) = spec;
    if which == 0 {
        let h = catch(AssertUnwindSafe(|| drive::<TTYEventDecoder>(data, script, *sticky, ops, &|_| false)));
        hist_out(h, data.len(), &mut |e| match e {
            TerminalEvent::Raw(b) => ITok::Rw(b),
            e => ITok::It(names.code(&format!("{:?}", e)), vec![]),
        })
    } else {
        let h = catch(AssertUnwindSafe(|| drive::<TTYCommandDecoder>(data, script, *sticky, ops, &|_| false)));
        hist_out(h, data.len(), &mut |e| match e {
            TerminalCommand::Raw(b) => ITok::Rw(b),
            e => ITok::It(names.code(&format!("{:?}", e)), vec![]),
        })
    }
}

/// how far the reader ran ahead of the first event's bytes (bytes that had to be re-scheduled)
fn lookahead_tag(steps: &Option<Vec<usize>>, first: &[ITok]) -> &'static str {
    let Some(steps) = steps else { return "?" };
    let (Some(p), Some(t)) = (steps.first(), first.first()) else { return "none" };
    let len = match t {
        ITok::Rw(b) => b.len(),
        ITok::It(..) => return if steps.windows(2).any(|w| w[0] == w[1]) { "resched" } else { "item" },
    };
    match p.saturating_sub(len) {
        0 => "0",
        1 => "1",
        _ => ">1",
    }
}

fn run_prod(input: &Value) -> Case {
    let which = input["which"].as_u64().unwrap_or(0) as usize;
    let data = vbytes(&input["input"]);
    let parts = vparts(&input["parts"]);
    let mut names = Interner { map: BTreeMap::new() };
    let table = span_table(which, &data, &mut names);
    let mut parts = parts;
    let mut outs: Vec<Out> = parts.iter().map(|cuts| prod_run(which, &data, cuts, &mut names)).collect();
    let mut notes = vec![];
    for spec in crate::registry::tool_oddreader::hist_specs(&input["hist"]) {
        let (cuts, out, note) = prod_hist(which, &data, &spec, &mut names);
        parts.push(cuts);
        outs.push(out);
        notes.push(note);
    }
    let mut j = input.clone();
    j["impl"] = Value::Array(outs.iter().map(jout).collect());
    j["hist_notes"] = json!(notes);
    j["hist_parts"] = json!(parts[parts.len() - notes.len()..]);
    j["names"] = json!(names.map.iter().map(|(k, v)| (v.to_string(), k.clone())).collect::<BTreeMap<String, String>>());
    let table_s = clist(table.iter().map(|(k, v)| format!("({}, {})", cbytes(k), copt(v.map(|c| c.to_string())))));
    // reader position after each decode() that returned an event, whole stream in one reader
    let steps: Option<Vec<usize>> = catch(AssertUnwindSafe(|| {
        let mut cur = Cursor::new(&data[..]);
        let mut steps = vec![];
        if which == 0 {
            let mut dec = TTYEventDecoder::new();
            while dec.decode(&mut cur).expect("decode").is_some() {
                steps.push(cur.position() as usize);
            }
        } else {
            let mut dec = TTYCommandDecoder::new();
            while dec.decode(&mut cur).expect("decode").is_some() {
                steps.push(cur.position() as usize);
            }
        }
        steps
    }));
    j["steps"] = json!(steps);
    let head = format!("Prod {} {} {}", which, cbytes(&data), table_s);
    let first = outs.first().cloned().flatten().unwrap_or_default();
    let has_item = first.iter().any(|t| matches!(t, ITok::It(..)));
    let has_raw = first.iter().any(|t| matches!(t, ITok::Rw(..)));
    let esc = data.contains(&27);
    // a cut strictly inside an escape sequence / multi-byte char: some chunk boundary falls inside a token span
    let multi = table.iter().any(|(k, _)| k.len() >= 2);
    let steps_s = copt(steps.as_ref().map(|v| clist(v.iter().map(|n| cnat(*n)))));
    Case {
        coq: format!("({} {})", cruns(&head, &parts, &outs), steps_s),
        json: j,
        tags: vec![
            format!("prod.{}", which_name(which)),
            format!("prod.tokens={}", first.len().min(10)),
            format!("prod.item={} raw={}", has_item, has_raw),
            format!("prod.parts={}", match parts.len() { 0..=4 => "<=4", 5..=20 => "5-20", _ => ">20" }),
            format!("prod.len={}", (data.len() / 8) * 8),
            format!("prod.emptyreads={}", parts.iter().any(|p| p.contains(&0))),
            format!("prod.lookahead={}", lookahead_tag(&steps, &first)),
            format!("prod.hist={}", notes.len()),
        ],
        nontrivial: esc && multi && has_item && parts.iter().any(|p| p.len() >= 2),
    }
}

fn run_utf8(input: &Value) -> Case {
    let data = vbytes(&input["input"]);
    let parts = vparts(&input["parts"]);
    let outs: Vec<Out> = parts
        .iter()
        .map(|cuts| {
            catch(AssertUnwindSafe(|| {
                let mut dec = Utf8Decoder::new();
                let mut out = vec![];
                let mut pos = 0;
                for n in cuts {
                    let end = (pos + n).min(data.len());
                    let mut cur = Cursor::new(&data[pos..end]);
                    loop {
                        match dec.decode(&mut cur) {
                            Ok(Some(c)) => out.push(ITok::It(c as u64, vec![])),
                            Ok(None) => break,
                            Err(_) => out.push(ITok::Rw(vec![])),
                        }
                    }
                    pos = end;
                }
                out
            }))
        })
        .collect();
    let mut parts = parts;
    let mut outs = outs;
    let mut notes = vec![];
    for (sticky, script, ops) in crate::registry::tool_oddreader::hist_specs(&input["hist"]) {
        let h = catch(AssertUnwindSafe(|| {
            crate::registry::tool_oddreader::drive::<Utf8Decoder>(&data, &script, sticky, &ops, &|e: &std::io::Error| e.kind() == std::io::ErrorKind::InvalidInput)
        }));
        let (cuts, out, note) = hist_out(h, data.len(), &mut |c| ITok::It(c as u64, vec![]));
        parts.push(cuts);
        outs.push(out);
        notes.push(note);
    }
    let mut j = input.clone();
    j["impl"] = Value::Array(outs.iter().map(jout).collect());
    j["hist_notes"] = json!(notes);
    j["hist_parts"] = json!(parts[parts.len() - notes.len()..]);
    let head = format!("Utf8 {}", cbytes(&data));
    Case {
        coq: cruns(&head, &parts, &outs),
        json: j,
        tags: vec!["utf8".into(), format!("utf8.parts={}", parts.len().min(20))],
        nontrivial: data.iter().any(|b| *b >= 0x80) && parts.iter().any(|p| p.len() >= 2),
    }
}

pub fn run(input: &Value) -> Case {
    match input["kind"].as_str().unwrap_or("") {
        "gen" => run_gen(input),
        "utf8" => run_utf8(input),
        _ => run_prod(input),
    }
}

// ------------------------------------------------------------------ partitions

fn trivial(n: usize) -> Vec<usize> {
    vec![n]
}

fn bytewise(n: usize) -> Vec<usize> {
    vec![1; n]
}

fn random_partition(rng: &mut Rng, n: usize) -> Vec<usize> {
    let mut out = vec![];
    let mut left = n;
    let style = rng.below(4);
    while left > 0 {
        let k = match style {
            0 => rng.below(3) as usize,       // includes empty reads
            1 => 1 + rng.below(2) as usize,
            2 => 1 + rng.below(6) as usize,
            _ => rng.below(left as u64 + 1) as usize,
        }
        .min(left);
        out.push(k);
        left -= k;
    }
    if rng.chance(1, 3) {
        out.push(0);
    }
    if rng.chance(1, 4) {
        out.insert(0, 0);
    }
    out
}

/// trivial, bytewise, every single cut, every pair of cuts
fn all_cuts(n: usize, pairs: bool) -> Vec<Vec<usize>> {
    let mut out = vec![trivial(n), bytewise(n)];
    for i in 1..n {
        out.push(vec![i, n - i]);
    }
    if pairs {
        for i in 1..n {
            for j in i + 1..n {
                out.push(vec![i, j - i, n - j]);
            }
        }
    }
    out
}

/// every way of cutting n bytes into non-empty reads (2^(n-1)), plus partitions with empty reads
fn all_splits(n: usize) -> Vec<Vec<usize>> {
    if n == 0 {
        return vec![vec![0], vec![0, 0]];
    }
    let mut out = vec![];
    for mask in 0..(1u32 << (n - 1)) {
        let mut p = vec![];
        let mut run = 1;
        for i in 0..n - 1 {
            if mask & (1 << i) != 0 {
                p.push(run);
                run = 1;
            } else {
                run += 1;
            }
        }
        p.push(run);
        out.push(p);
    }
    out.extend(with_empty_reads(n));
    out
}

/// partitions that contain empty reads at the start, in the middle and at the end
fn with_empty_reads(n: usize) -> Vec<Vec<usize>> {
    let mut out = vec![vec![0, n], vec![n, 0], vec![0, 0, n, 0]];
    if n >= 2 {
        out.push(vec![1, 0, n - 1]);
        out.push(vec![n - 1, 0, 0, 1]);
        let mut p = vec![];
        for _ in 0..n {
            p.push(1);
            p.push(0);
        }
        out.push(p);
    }
    out
}

fn some_parts(rng: &mut Rng, n: usize) -> Vec<Vec<usize>> {
    let mut out = vec![trivial(n), bytewise(n)];
    for _ in 0..3 {
        out.push(random_partition(rng, n));
    }
    let e = with_empty_reads(n);
    out.push(e[rng.below(e.len() as u64) as usize].clone());
    out
}

// ------------------------------------------------------------------ streams for the production decoders

const KEYS: [&[u8]; 40] = [
    b"\x1b", b"\x7f", b"\x00", b"\x01", b"\x1a", b"\x1ba", b"\x1bZ", b"\x1b[", b"\x1b1", b"\x1bO", b"\x1bOP", b"\x1bOS", b"\x1b[A",
    b"\x1b[D", b"\x1b[H", b"\x1b[P", b"\x1b[R", b"\x1b[1;2A", b"\x1b[1;8R", b"\x1b[1;5F", b"\x1b[1~", b"\x1b[8~", b"\x1b[11~",
    b"\x1b[15~", b"\x1b[24~", b"\x1b[15;2~", b"\x1b[24;8~", b"\x1b[3;5~", b"\x1b[200~", b"\x1b[201~", b"\x1b\\", b"\x1b]", b"\x1b_",
    b"\x1bP", b"\x1b[<", b"\x1b[?", b"\x1b[1;", b"\x1b[2", b"\r", b"\t",
];

/// integer constants written in the decoder / automata sources and their neighbours (harvested at run
/// time): numeric parameters, digit counts, parameter counts and payload lengths are aimed at them
fn src_bounds() -> &'static Vec<u64> {
    static B: OnceLock<Vec<u64>> = OnceLock::new();
    B.get_or_init(|| {
        let mut v = source_boundaries(&["src/decoder.rs", "src/automata.rs"], 1 << 40);
        if v.is_empty() {
            v.push(32);
        }
        v
    })
}

fn src_num(rng: &mut Rng, cap: u64) -> u64 {
    let b = src_bounds();
    let small: Vec<u64> = b.iter().copied().filter(|x| *x <= cap).collect();
    if small.is_empty() {
        cap.min(1)
    } else {
        small[rng.below(small.len() as u64) as usize]
    }
}

/// a sequence one of whose sizes (payload bytes, parameter count, digit count, run of characters) is a source constant
fn src_sized(rng: &mut Rng, which: usize) -> Vec<u8> {
    let l = src_num(rng, 140) as usize;
    if which == 1 {
        return match rng.below(3) {
            0 => format!("\x1b[{}m", vec!["1"; l.min(60)].join(";")).into_bytes(),
            1 => format!("\x1b[38;5;{}m", "7".repeat(l.clamp(1, 60))).into_bytes(),
            _ => (0..l).map(|_| 0x20 + rng.below(0x5f) as u8).collect(),
        };
    }
    match rng.below(8) {
        0 => {
            let mut s = b"\x1b[200~".to_vec();
            s.extend((0..l).map(|_| 0x20 + rng.below(0x5f) as u8));
            s.extend(b"\x1b[201~");
            s
        }
        1 => format!("\x1b[{}m", vec!["1"; l.min(60)].join(";")).into_bytes(),
        2 => format!("\x1b[{};1R", "7".repeat(l.clamp(1, 60))).into_bytes(),
        3 => format!("\x1b[?{}c", vec!["6"; l.clamp(1, 60)].join(";")).into_bytes(),
        4 => format!("\x1b]{};{}\x07", rng.pick(&[10u32, 4, 52]), "a".repeat(l)).into_bytes(),
        5 => format!("\x1b_Gi=1;{}\x1b\\", "E".repeat(l)).into_bytes(),
        6 => format!("\x1bP1+r{}\x1b\\", "41".repeat(l.min(60))).into_bytes(),
        _ => {
            let mut s = vec![];
            for _ in 0..l.min(40) {
                s.extend(utf8_char(rng));
            }
            s
        }
    }
}

fn num(rng: &mut Rng) -> String {
    if rng.chance(1, 6) {
        return src_num(rng, 1 << 40).to_string();
    }
    match rng.below(8) {
        0 => "1".to_string(),
        1 => (1 + rng.below(9)).to_string(),
        2 => (1 + rng.below(300)).to_string(),
        3 => (1 + rng.below(70000)).to_string(),
        4 => format!("{}", 1 + rng.below(1_000_000_000_000)),
        5 => if SAFE_MODE { "7".to_string() } else { "0".to_string() },
        6 => if SAFE_MODE { "12".to_string() } else { "00".to_string() },
        _ => (1 + rng.below(99)).to_string(),
    }
}

fn utf8_char(rng: &mut Rng) -> Vec<u8> {
    let c = match rng.below(5) {
        0 => 0x20 + rng.below(0x5f) as u32,
        1 => 0x80 + rng.below(0x780) as u32,
        2 => 0x800 + rng.below(0xd000) as u32,
        3 => 0xe000 + rng.below(0x2000) as u32,
        _ => 0x10000 + rng.below(0x100000) as u32,
    };
    let c = char::from_u32(c).unwrap_or('?');
    let mut b = [0u8; 4];
    c.encode_utf8(&mut b).as_bytes().to_vec()
}

fn piece(rng: &mut Rng, which: usize) -> Vec<u8> {
    let mut s: Vec<u8> = vec![];
    let sgr = |rng: &mut Rng| -> Vec<u8> {
        let body = match rng.below(8) {
            0 => String::new(),
            1 => "1;31".to_string(),
            2 => format!("38;5;{}", rng.below(256)),
            3 => format!("38;2;{};{};{}", rng.below(256), rng.below(256), rng.below(256)),
            4 => format!("48:2:{}:{}:{}", rng.below(256), rng.below(256), rng.below(256)),
            5 => "4:3".to_string(),
            6 => format!("{};{};{}", rng.below(110), rng.below(110), rng.below(110)),
            _ => ";;".to_string(),
        };
        format!("\x1b[{}m", body).into_bytes()
    };
    if which == 1 {
        match rng.below(7) {
            6 => return src_sized(rng, which),
            0 | 1 => return sgr(rng),
            2 => return utf8_char(rng),
            3 => return vec![0x20 + rng.below(0x5f) as u8],
            4 => return vec![rng.below(0x80) as u8],
            _ => {
                let mut v = sgr(rng);
                let cut = 1 + rng.below(v.len() as u64 - 1) as usize;
                v.truncate(cut);
                return v;
            }
        }
    }
    match rng.below(25) {
        23 | 24 => s.extend(src_sized(rng, which)),
        0..=2 => s.extend_from_slice(KEYS[rng.below(KEYS.len() as u64) as usize]),
        3 => s.extend(format!("\x1b[{};{}R", num(rng), num(rng)).into_bytes()),
        4 => s.extend(format!("\x1b[<{};{};{}{}", if rng.chance(1, 3) { num(rng) } else { rng.below(100).to_string() }, num(rng), num(rng), if rng.chance(1, 2) { 'M' } else { 'm' }).into_bytes()),
        5 => s.extend(format!("\x1b[?{};{}$y", rng.pick(&[1u32, 25, 1000, 1049, 2004, 2026, 77]), 1 + rng.below(4)).into_bytes()),
        6 => s.extend(format!("\x1b[?{};{}c", num(rng), num(rng)).into_bytes()),
        7 => s.extend(sgr(rng)),
        8 => s.extend(format!("\x1b[{};{}u", rng.pick(&[97u32, 13, 27, 57376, 1234, 9]), 1 + rng.below(9)).into_bytes()),
        9 => s.extend(format!("\x1b[?{}u", 1 + rng.below(31)).into_bytes()),
        10 => s.extend(format!("\x1b_Gi={},p={};{}\x1b\\", num(rng), num(rng), if rng.chance(1, 2) { "OK" } else { "ENOENT:x" }).into_bytes()),
        11 => s.extend(
            format!("\x1b]{};rgb:{:02x}/{:02x}/{:02x}{}", rng.pick(&[10u32, 11, 4, 12]), rng.byte(), rng.byte(), rng.byte(), if rng.chance(1, 2) { "\x1b\\" } else { "\x07" })
                .into_bytes(),
        ),
        12 => s.extend(format!("\x1bP{}$r{}m\x1b\\", rng.below(2), "1;31").into_bytes()),
        13 => s.extend(format!("\x1bP{}+r{:02x}{:02x}={:02x}\x1b\\", rng.below(2), 0x41 + rng.below(26), 0x41 + rng.below(26), 0x20 + rng.below(90)).into_bytes()),
        14 => s.extend(format!("\x1b[8;{};{}t\x1b[4;{};{}t", num(rng), num(rng), num(rng), num(rng)).into_bytes()),
        15 => {
            // bracketed paste; sometimes longer than the decoder's inline buffer (SmallVec<[u8; 32]>)
            s.extend(b"\x1b[200~");
            let k = if rng.chance(1, 3) { 30 + rng.below(40) } else { rng.below(6) };
            for _ in 0..k {
                s.extend(utf8_char(rng));
            }
            s.extend(b"\x1b[201~");
        }
        16 | 17 => s.extend(utf8_char(rng)),
        18 => s.push(0x20 + rng.below(0x5f) as u8),
        19 => s.push(rng.below(0x80) as u8),
        20 => {
            // invalid utf-8 fragments: lone continuation, lead + ascii, truncated multi-byte
            match rng.below(3) {
                0 => s.push(0x80 + rng.below(0x40) as u8),
                1 => {
                    s.push(0xc2 + rng.below(0x30) as u8);
                    s.push(0x20 + rng.below(0x5f) as u8);
                }
                _ => {
                    let mut c = utf8_char(rng);
                    c.pop();
                    s.extend(c);
                }
            }
        }
        21 => {
            // nested rescheduling: live prefixes inside the bytes pushed back by a failed longer candidate
            for _ in 0..2 + rng.below(3) {
                s.extend_from_slice([&b"\x1b[1;"[..], &b"\x1b["[..], &b"\x1b"[..], &b"\x1b[<1;"[..], &b"\x1b[?1"[..], &b"\x1bO"[..], &b"\xe2\x82"[..], &b"\x1b[8;1;1t\x1b[4"[..]][rng.below(8) as usize]);
            }
            s.push(*rng.pick(&[b'x', 0x1b, b'~', 0x80]));
        }
        _ => s.push(if rng.chance(1, 2) { rng.byte() } else { 0x80 + rng.below(0x80) as u8 }),
    }
    // truncate an escape sequence: the longer candidate fails to complete
    if s.len() > 2 && rng.chance(1, 5) {
        let cut = 1 + rng.below(s.len() as u64 - 1) as usize;
        s.truncate(cut);
    }
    s
}

/// keep generated streams away from the inputs on which the unfixed payload decoders panic / abort
pub fn sanitize(data: &mut [u8]) {
    if !SAFE_MODE {
        return;
    }
    for i in 0..data.len() {
        let prev = if i > 0 { data[i - 1] } else { 0 };
        let b = data[i];
        if b == b'0' && !prev.is_ascii_digit() {
            data[i] = b'1'; // no zero-valued parameters (CPR / mouse subtract one)
        }
        if b == b'u' && prev == b'[' {
            data[i] = b'v'; // CSI u without parameters indexes an empty slice
        }
        if b == 0xed {
            data[i] = 0xec; // surrogates
        }
        if b >= 0xf4 {
            data[i] = 0xf3; // above U+10FFFF
        }
    }
    // no run of more than 18 digits
    let mut run = 0;
    for b in data.iter_mut() {
        if b.is_ascii_digit() {
            run += 1;
            if run > 18 {
                *b = b';';
                run = 0;
            }
        } else {
            run = 0;
        }
    }
}

fn stream(rng: &mut Rng, which: usize, max: usize) -> Vec<u8> {
    let mut s = vec![];
    let pieces = 1 + rng.below(5);
    for _ in 0..pieces {
        let p = piece(rng, which);
        if s.len() + p.len() > max {
            if s.is_empty() {
                s.extend_from_slice(&p[..max.min(p.len())]);
            }
            break;
        }
        s.extend(p);
    }
    sanitize(&mut s);
    s
}

// ------------------------------------------------------------------ generation

fn gen_case(rng: &mut Rng) -> Value {
    let np = 2 + rng.below(5) as usize;
    let pats: Vec<Value> = (0..np).map(|_| gen_pat(rng, 3)).collect();
    let items: Vec<bool> = (0..np).map(|_| rng.chance(1, 3)).collect();
    let rejects: Vec<bool> = items.iter().map(|it| !*it && rng.chance(1, 4)).collect();
    let mut data = vec![];
    let pieces = 1 + rng.below(7);
    for _ in 0..pieces {
        match rng.below(8) {
            0 => data.push(*rng.pick(&ALPHA)),
            1 => data.push(*rng.pick(&[100u8, 0, 255, 65, 254, 128])), // outside the alphabet / ends of the symbol range
            _ => {
                let p = &pats[rng.below(np as u64) as usize];
                let mut w = vec![];
                sample(rng, p, &mut w);
                if !w.is_empty() && rng.chance(1, 4) {
                    let cut = rng.below(w.len() as u64) as usize;
                    w.truncate(cut);
                }
                data.extend(w);
            }
        }
    }
    data.truncate(40);
    let n = data.len();
    let parts = if n <= 8 && rng.chance(1, 2) { all_splits(n) } else if n <= 14 && rng.chance(1, 3) { all_cuts(n, true) } else { some_parts(rng, n) };
    json!({"kind":"gen","pats":pats,"items":items,"rejects":rejects,"input":jbytes(&data),"parts":parts})
}

/// reader scripts / caller programs of a case (tool_oddreader.rs): all of them for short streams, two otherwise
fn hist(rng: &mut Rng, full: bool) -> Value {
    let all = crate::registry::tool_oddreader::hist_gen(|n| rng.below(n), 2);
    let mut all = all.as_array().cloned().unwrap_or_default();
    if !full {
        while all.len() > 2 {
            let i = rng.below(all.len() as u64) as usize;
            all.remove(i);
        }
    }
    Value::Array(all)
}

pub fn generate(rng: &mut Rng, n: usize, tier: &str) -> Vec<Value> {
    let mut v = vec![];
    // fixed: the crate's own two chunking tests and the shapes the property names
    let fixed: [(&[u8], usize); 8] = [
        (b"\x1bOR\x1b[15~AB\x1bM", 0),
        (b"\x1bOT", 0),
        (b"\x1b[1;5R\x1b[12;5R", 0),
        (b"\x1b[8;24;80t\x1b[4;6", 0),
        (b"\x1b[200~a\xd1\x8f\x1b[201~", 0),
        (b"\xf0\x9f\x90\xb1\xd1", 0),
        (b"\x1b[1;31mA\x1b[38;5;", 1),
        (b"\xe2\x82\xac\x1b[m", 1),
    ];
    for (s, which) in fixed.iter() {
        v.push(json!({"kind":"prod","which":which,"input":jbytes(s),"parts":all_cuts(s.len(), s.len() <= 14),"hist":hist(rng, true)}));
    }
    let _ = tier;
    while v.len() < n {
        match rng.below(20) {
            0..=7 => v.push(gen_case(rng)),
            8..=10 => {
                // exhaustive cuts of a short stream
                let which = if rng.chance(1, 4) { 1 } else { 0 };
                let s = stream(rng, which, 14);
                let parts = if s.len() <= 9 { all_splits(s.len()) } else { all_cuts(s.len(), true) };
                v.push(json!({"kind":"prod","which":which,"input":jbytes(&s),"parts":parts,"hist":hist(rng, true)}));
            }
            11..=17 => {
                let which = if rng.chance(1, 4) { 1 } else { 0 };
                let s = stream(rng, which, 160);
                let parts = some_parts(rng, s.len());
                v.push(json!({"kind":"prod","which":which,"input":jbytes(&s),"parts":parts,"hist":hist(rng, false)}));
            }
            _ => {
                let mut s = vec![];
                for _ in 0..rng.below(8) {
                    match rng.below(5) {
                        0 => s.push(0x80 + rng.below(0x40) as u8),
                        1 => s.push(*rng.pick(&[0xc0u8, 0xc1, 0xc2, 0xdf, 0xe0, 0xe1, 0xec, 0xed, 0xee, 0xef, 0xf0, 0xf1, 0xf3, 0xf4, 0xf5, 0xf7, 0xf8, 0xfb, 0xfc, 0xfe, 0xff])),
                        _ => s.extend(utf8_char(rng)),
                    }
                }
                sanitize(&mut s);
                let parts = if s.len() <= 10 { all_cuts(s.len(), true) } else { some_parts(rng, s.len()) };
                v.push(json!({"kind":"utf8","input":jbytes(&s),"parts":parts,"hist":hist(rng, s.len() <= 10)}));
            }
        }
    }
    v
}

pub fn batch(inputs: &[Value]) -> Batch {
    Batch {
        prop: "C03",
        coq_import: "Corr.C03Corr",
        case_type: "c03_case",
        report_fn: "c03_report",
        rule: "gen: >=1 item token, stream of >=2 bytes, >=1 partition with >=2 reads; prod: stream contains ESC, a recognised sequence of >=2 bytes, >=1 decoded item and >=1 partition with >=2 reads; utf8: a non-ASCII byte and a partition with >=2 reads; distinct by input",
        cases: inputs.iter().map(run).collect(),
        preamble: String::new(),
    }
}
