//! C17: scripted sessions of the real `SystemTerminal` on a pseudo-terminal.  Every environment move
//! (wake requests from other threads, tty input, SIGWINCH / SIGTERM raised in this process, output with a
//! paused or draining peer) happens at a barrier between two polls, so the expected sequence of poll
//! results is determined; the model IO/PollLoop.v is evaluated on the same script in Corr/C17Corr.v.
//! A last kind of case is unscripted: several threads call wake() while the main thread polls.
//!
//! input JSON: {"acts":[["wake",n],["in","abc"],["winch"],["term"],["write",len],["pause",bool],["poll",ms],
//!                      ["poll_wake",d]   poll(None) entered first, wake() from another thread d ms later
//!                      ["poll_winch",d]  poll(None) entered first, SIGWINCH sent to this thread d ms later (EINTR in select)
//!                      ["hup"]           the peer closes the master side
//!                      ["settled"]       nothing may be owed any more (after the trailing polls of a generated script)
//!                      ["eagain",n]      the next n writes of the terminal object to the tty fail with EAGAIN (verif-hooks
//!                                        fault script; consumed by the next poll, which reports how many it used)],
//!              "end":"drop"|"drop_paused"|"run_err"|"render_quit"|"panic" (released by the unwinding of a panic),
//!              "tee":"file"|"full"|"fifo"  duplicate_output on a healthy file / on /dev/full / on a fifo whose reader has gone}
//!             ms = -1: no timeout (only generated when something is outstanding)
//!             {"stress":{"threads":t,"wakes":w}}
//!             {"reopen":[v0,v1,..]}   the same tty opened and released once per entry, settings changed from outside before each
//!             "stty": v on a scripted session: the tty is found with line settings variant v (bits: ECHOK, ECHOCTL, IMAXBEL, VEOF)
//!             {"blocked_wake":true}   wake pending, output stalled, infinite poll (returns at once since the third fix)
#[path = "ptyutil.rs"]
mod ptyutil;

use crate::util::*;
use ptyutil::*;
use serde_json::{json, Value};
use std::io::Write;
use std::os::fd::AsRawFd;
use std::sync::Mutex;
use std::time::{Duration, Instant};
use surf_n_term::{SystemTerminal, Terminal, TerminalEvent};

/// SIGTERM etc. are process-wide: sessions never overlap
static SERIAL: Mutex<()> = Mutex::new(());

/// the Coq term of the last scripted session with both readings of every elapsed time (see `fill_elapsed`)
static LAST_TEMPLATE: Mutex<String> = Mutex::new(String::new());

/// `\u{1}measured|capped\u{2}` -> one of the two
fn fill_elapsed(template: &str, measured: bool) -> String {
    let mut out = String::with_capacity(template.len());
    let mut rest = template;
    while let Some(a) = rest.find('\u{1}') {
        out.push_str(&rest[..a]);
        let b = rest[a..].find('\u{2}').map(|b| a + b).unwrap_or(rest.len());
        let inner = &rest[a + 1..b];
        let mut it = inner.split('|');
        let (m, c) = (it.next().unwrap_or("0"), it.next().unwrap_or("0"));
        out.push_str(if measured { m } else { c });
        rest = if b < rest.len() { &rest[b + 1..] } else { "" };
    }
    out.push_str(rest);
    out
}

/// How slow is this host right now?  Worst overshoot, in ms, of five 2 ms sleeps and five round trips through a
/// new thread (well under a millisecond on an idle machine).
fn host_probe_ms() -> u64 {
    let mut worst = 0u64;
    for _ in 0..5 {
        let t = Instant::now();
        std::thread::sleep(Duration::from_millis(2));
        worst = worst.max((t.elapsed().as_millis() as u64).saturating_sub(2));
    }
    for _ in 0..5 {
        let t = Instant::now();
        let _ = std::thread::spawn(|| {}).join();
        worst = worst.max(t.elapsed().as_millis() as u64);
    }
    worst
}

/// above this the host is too busy for wall-clock judgements
const SLOW_HOST_MS: u64 = 20;

fn event_code(e: &TerminalEvent) -> (String, Value) {
    match e {
        TerminalEvent::Wake => ("OW".into(), json!("wake")),
        TerminalEvent::Resize(_) => ("OR".into(), json!("resize")),
        TerminalEvent::Key(k) => {
            let s = format!("{:?}", k);
            let c = s.chars().next().unwrap_or('?');
            if s.chars().count() == 1 {
                (format!("(OK {})", c as u32), json!(format!("key {}", s)))
            } else {
                (format!("(OK {})", 1000), json!(format!("key {}", s)))
            }
        }
        TerminalEvent::DeviceAttrs(_) => ("(OK 100000)".into(), json!("da")),
        other => ("(OK 2000)".into(), json!(format!("other {:?}", other))),
    }
}

fn input_waiting(fd: i32) -> usize {
    let mut n: libc::c_int = 0;
    unsafe {
        libc::ioctl(fd, libc::FIONREAD, &mut n);
    }
    n.max(0) as usize
}

struct Session {
    term: Option<SystemTerminal>,
    peer: Option<Peer>,
    probe: std::fs::File, // a second descriptor on the slave, only to ask how much input waits
    master_fd: i32,
    before: Option<libc::termios>,
}

/// Line settings changed "from outside" (what stty would do), through the master side: variant v toggles a
/// combination of flags that do not touch the data path of a raw-mode session.  Every session may start from
/// different settings; pts numbers are recycled within the process, so the same device is opened again and again.
fn stty_variant(fd: i32, v: u64) {
    if v == 0 {
        return;
    }
    if let Some(mut t) = tcgetattr(fd) {
        if v & 1 != 0 {
            t.c_lflag ^= libc::ECHOK;
        }
        if v & 2 != 0 {
            t.c_lflag ^= libc::ECHOCTL;
        }
        if v & 4 != 0 {
            t.c_iflag ^= libc::IMAXBEL;
        }
        if v & 8 != 0 {
            t.c_cc[libc::VEOF] = 4 + (v % 3) as u8;
        }
        unsafe { libc::tcsetattr(fd, libc::TCSANOW, &t) };
    }
}

fn open_session(stty: u64) -> Result<Session, String> {
    let (master, path) = open_pty()?;
    let master_fd = master.as_raw_fd();
    set_winsize(master_fd, 30, 100);
    stty_variant(master_fd, stty);
    let before = tcgetattr(master_fd);
    std::env::set_var("TERM", "dumb");
    std::env::remove_var("COLORTERM");
    let probe = std::fs::OpenOptions::new()
        .read(true)
        .write(true)
        .custom_flags_noctty()
        .open(&path)
        .map_err(|e| format!("probe open: {}", e))?;
    let peer = Peer::spawn(master, vec![Rate { size: 65536, sleep_us: 0 }], true);
    let term = SystemTerminal::open(&path).map_err(|e| format!("open failed: {:?}", e))?;
    Ok(Session { term: Some(term), peer: Some(peer), probe, master_fd, before })
}

trait NoCtty {
    fn custom_flags_noctty(&mut self) -> &mut Self;
}
impl NoCtty for std::fs::OpenOptions {
    fn custom_flags_noctty(&mut self) -> &mut Self {
        use std::os::unix::fs::OpenOptionsExt;
        self.custom_flags(libc::O_NOCTTY | libc::O_NONBLOCK)
    }
}

fn poll_obs(term: &mut SystemTerminal, timeout: Option<Duration>) -> (String, Value) {
    match term.poll(timeout) {
        Ok(Some(e)) => event_code(&e),
        Ok(None) => ("ON".into(), json!("none")),
        Err(surf_n_term::Error::Quit) => ("OQ".into(), json!("quit")),
        Err(e) => ("OE".into(), json!(format!("error {:?}", e))),
    }
}

pub fn run_script(input: &Value) -> Case {
    let _g = SERIAL.lock().unwrap_or_else(|e| e.into_inner());
    let mut acts_coq: Vec<String> = vec![];
    let mut obs_coq: Vec<String> = vec![];
    let mut obs_json: Vec<Value> = vec![];
    let mut tags: Vec<String> = vec!["script".into()];
    let mut j = input.clone();
    let mut sess = match open_session(input["stty"].as_u64().unwrap_or(0)) {
        Ok(s) => s,
        Err(e) => {
            j["impl"] = json!({ "error": e });
            return Case { coq: "CS [] [OE] EDrop false false".into(), json: j, tags: vec!["infra-error".into()], nontrivial: false };
        }
    };
    let end = input["end"].as_str().unwrap_or("drop").to_string();
    let mut npolls = 0;
    let mut kinds = std::collections::BTreeSet::new();
    let mut term_kind: Option<u64> = None;
    let mut hung_up = false;
    let main_thread = unsafe { libc::pthread_self() } as usize;
    let mut late = false;
    let mut wake_owed = false;
    let mut tee_file: Option<String> = None;
    let mut tee_mark = 0usize;
    let mut tee_written = 0usize; // bytes handed to the terminal object since the tee was set
    {
        let term = sess.term.as_mut().unwrap();
        let peer = sess.peer.as_ref().unwrap();
        // let the constructor's output go out
        let t0 = Instant::now();
        while term.frames_pending() > 0 && t0.elapsed() < Duration::from_secs(3) {
            let _ = term.poll(Some(Duration::from_millis(2)));
        }
        // the debugging copy of the output (duplicate_output): a healthy file, a device that refuses every write,
        // a fifo whose reader has gone (EPIPE).  BufWriter holds 8 KiB: with less output than that a failing tee
        // only fails when it is flushed.
        match input["tee"].as_str() {
            Some("file") => {
                let path = format!("/tmp/c16-tee-{}.log", std::process::id());
                let _ = term.duplicate_output(&path);
                tee_file = Some(path);
            }
            Some("full") => {
                let _ = term.duplicate_output("/dev/full");
            }
            Some("fifo") => {
                let path = format!("/tmp/c16-tee-{}.fifo", std::process::id());
                let _ = std::fs::remove_file(&path);
                let cpath = std::ffi::CString::new(path.clone()).unwrap();
                unsafe { libc::mkfifo(cpath.as_ptr(), 0o600) };
                let rd = unsafe { libc::open(cpath.as_ptr(), libc::O_RDONLY | libc::O_NONBLOCK) };
                let _ = term.duplicate_output(&path);
                if rd >= 0 {
                    unsafe { libc::close(rd) };
                }
                let _ = std::fs::remove_file(&path);
            }
            _ => {}
        }
        if let Some(t) = input["tee"].as_str() {
            tags.push(format!("tee={}", t));
        }
        tee_mark = sess.peer.as_ref().map(|p| p.received_len()).unwrap_or(0);
        for a in input["acts"].as_array().map(|a| a.as_slice()).unwrap_or(&[]) {
            let k = a[0].as_str().unwrap_or("");
            kinds.insert(k.to_string());
            match k {
                "wake" => {
                    let n = a[1].as_u64().unwrap_or(1).max(1) as usize;
                    // from other threads, all finished before the next poll starts
                    let threads = n.min(4);
                    let mut hs = vec![];
                    for t in 0..threads {
                        let w = term.waker();
                        let cnt = n / threads + if t < n % threads { 1 } else { 0 };
                        hs.push(std::thread::spawn(move || {
                            for _ in 0..cnt {
                                let _ = w.wake();
                            }
                        }));
                    }
                    for h in hs {
                        let _ = h.join();
                    }
                    acts_coq.push(format!("AWake {}", n));
                    wake_owed = true;
                }
                "in" => {
                    let s = a[1].as_str().unwrap_or("").as_bytes().to_vec();
                    let want = input_waiting(sess.probe.as_raw_fd()) + s.len();
                    peer.ctl(Ctl::Inject(s.clone()));
                    let t0 = Instant::now();
                    while input_waiting(sess.probe.as_raw_fd()) < want && t0.elapsed() < Duration::from_secs(2) {
                        std::thread::sleep(Duration::from_micros(100));
                    }
                    acts_coq.push(format!("AIn {}", clist(s.iter().map(|b| b.to_string()))));
                }
                "winch" => {
                    unsafe { libc::raise(libc::SIGWINCH) };
                    acts_coq.push("AWinch".into());
                }
                "term" => {
                    // one kind of termination signal per script is enough since all flagged signals are consumed at once
                    let first = *term_kind.get_or_insert(a[1].as_u64().unwrap_or(0));
                    let sig = match (first + a[1].as_u64().unwrap_or(0)) % 3 {
                        0 => libc::SIGTERM,
                        1 => libc::SIGINT,
                        _ => libc::SIGQUIT,
                    };
                    unsafe { libc::raise(sig) };
                    acts_coq.push("ATerm".into());
                }
                "write" => {
                    let len = a[1].as_u64().unwrap_or(1) as usize;
                    let b: Vec<u8> = (0..len).map(|i| 32 + (i % 90) as u8).collect();
                    let _ = term.write(&b);
                    tee_written += len;
                    acts_coq.push(format!("AWrite {}", len));
                }
                "pause" => {
                    let p = a[1].as_bool().unwrap_or(false);
                    peer.pause(p); // acknowledged by the peer thread
                    acts_coq.push(format!("APause {}", cbool(p)));
                }
                "settled" => acts_coq.push("ASettled".into()),
                "eagain" => {
                    let n = a[1].as_u64().unwrap_or(1) as usize;
                    surf_n_term::unix_verif::set_write_script(vec![surf_n_term::unix_verif::WriteFault::WouldBlock; n]);
                    acts_coq.push(format!("AFault {}", n));
                }
                "hup" => {
                    peer.ctl(Ctl::Close);
                    // wait until the slave sees it
                    let t0 = Instant::now();
                    while t0.elapsed() < Duration::from_millis(300) {
                        let mut pfd = libc::pollfd { fd: sess.probe.as_raw_fd(), events: libc::POLLIN, revents: 0 };
                        unsafe { libc::poll(&mut pfd, 1, 5) };
                        if pfd.revents & libc::POLLHUP != 0 {
                            break;
                        }
                    }
                    hung_up = true;
                    acts_coq.push("AHup".into());
                }
                "poll" | "poll_wake" | "poll_winch" => {
                    let (ms, during, delay): (i64, &str, u64) = match k {
                        "poll" => (a[1].as_i64().unwrap_or(0), "DNone", 0),
                        "poll_wake" => (-1, "DWake", a[1].as_u64().unwrap_or(5)),
                        _ => (-1, "DWinch", a[1].as_u64().unwrap_or(5)),
                    };
                    let tmo = if ms < 0 { None } else { Some(Duration::from_millis(ms as u64)) };
                    let done = std::sync::atomic::AtomicBool::new(false);
                    let waker = term.waker();
                    let eagain0 = surf_n_term::unix_verif::write_fault_counts()[2];
                    let t0 = Instant::now();
                    let (c, v) = std::thread::scope(|sc| {
                        if during == "DWake" {
                            // the request is issued while this thread sits in poll(None)
                            sc.spawn(|| {
                                std::thread::sleep(Duration::from_millis(delay));
                                let _ = waker.wake();
                            });
                        } else if during == "DWinch" {
                            sc.spawn(|| {
                                std::thread::sleep(Duration::from_millis(delay));
                                unsafe { libc::pthread_kill(main_thread as libc::pthread_t, libc::SIGWINCH) };
                            });
                        }
                        if ms < 0 {
                            // a watchdog types a key after two seconds so that a lost event shows up as an
                            // observation instead of a hung harness
                            sc.spawn(|| {
                                let t0 = Instant::now();
                                while t0.elapsed() < Duration::from_secs(2) {
                                    if done.load(std::sync::atomic::Ordering::SeqCst) {
                                        return;
                                    }
                                    std::thread::sleep(Duration::from_millis(2));
                                }
                                peer.ctl(Ctl::Pause(false));
                                peer.ctl(Ctl::Inject(b"Z".to_vec()));
                            });
                        }
                        let r = poll_obs(term, tmo);
                        done.store(true, std::sync::atomic::Ordering::SeqCst);
                        if ms < 0 && t0.elapsed() >= Duration::from_millis(1900) {
                            ("OH".to_string(), json!(format!("blocked for 2 s, then {}", r.1)))
                        } else {
                            r
                        }
                    });
                    let elapsed = t0.elapsed().as_millis() as u64;
                    // later than scripted by more than scheduling noise explains on an idle machine?
                    // (an infinite poll without a request of its own is only timed when a wake request was owed
                    // at its entry, as in `timely`)
                    let base = if ms >= 0 { ms as u64 } else { delay };
                    let timed = ms >= 0 || during != "DNone" || wake_owed;
                    if timed && elapsed > base + base / 4 + 80 {
                        late = true;
                    }
                    if during == "DWake" {
                        wake_owed = true;
                    }
                    if c == "OW" {
                        wake_owed = false;
                    }
                    // how often the loop went round on a tty that was reported writable and took nothing
                    let spins = surf_n_term::unix_verif::write_fault_counts()[2] - eagain0;
                    surf_n_term::unix_verif::set_write_script(vec![]);
                    npolls += 1;
                    // bytes sent so far and chunks left when the poll returned: what the kernel's short writes did to
                    // the queue (the loop condition depends on it); given to the model as an oracle
                    let (sent, pend) = (term.stats().send, term.frames_pending());
                    let tm = if ms < 0 { "None".to_string() } else { format!("(Some {})", ms) };
                    let du = if during == "DNone" { "DNone".to_string() } else { format!("({} {})", during, delay) };
                    // the elapsed time goes in twice: as measured, and cut down to the scripted wait (what is reported
                    // when the host is demonstrably too slow for wall-clock judgements, see run_all)
                    let capped = if ms >= 0 { elapsed.min(ms as u64) } else if during != "DNone" { elapsed.min(delay) } else { 0 };
                    acts_coq.push(format!("APoll {} {} {} \u{1}{}|{}\u{2} {} {}", tm, sent, pend, elapsed, capped, du, spins));
                    obs_coq.push(c);
                    obs_json.push(json!({"result": v, "elapsed_ms": elapsed, "send": sent, "pending": pend, "eagain_rounds": spins}));
                }
                _ => {}
            }
        }
    }
    // release the terminal object
    let peer = sess.peer.take().unwrap();
    let mut via: Option<(String, Value)> = None;
    if !hung_up {
        peer.pause(end == "drop_paused");
    }
    if end == "drop_flood" {
        // a terminal that keeps sending events (mouse motion, typing) and never answers the sync request
        peer.ctl(Ctl::AnswerDa(false));
        peer.ctl(Ctl::Flood { every_ms: 40, count: 220 });
        std::thread::sleep(Duration::from_millis(60));
    }
    if end == "run_err" || end == "render_quit" {
        // leave through Terminal::run / run_render returning an error, then drop
        let term = sess.term.as_mut().unwrap();
        let r: Result<(), surf_n_term::Error> = if end == "run_err" {
            term.run(Some(Duration::from_millis(0)), |_t, _e| Err::<surf_n_term::TerminalAction<()>, surf_n_term::Error>(surf_n_term::Error::NotATTY))
        } else {
            unsafe { libc::raise(libc::SIGTERM) };
            term.run_render(|_t, _e, _s| Ok::<surf_n_term::TerminalAction<()>, surf_n_term::Error>(surf_n_term::TerminalAction::Wait))
        };
        via = Some(match r {
            Err(surf_n_term::Error::Quit) => ("OQ".into(), json!("quit")),
            Err(e) => ("OE".into(), json!(format!("error {:?}", e))),
            Ok(()) => ("ON".into(), json!("ok")),
        });
    }
    if let Some(kind) = input["tee"].as_str() {
        // the oracle of the model: a healthy copy never fails; a failing one fails in the first poll of dispose's
        // wait when more than BufWriter's 8 KiB went through it or is still to go (otherwise only its last flush
        // fails, after dispose, unseen)
        let fails = kind != "file" && tee_written + 64 > 8192;
        acts_coq.insert(0, format!("ATee {}", if fails { "[false]" } else { "[]" }));
    }
    let before_len = peer.received_len();
    let t0 = Instant::now();
    if end == "panic" {
        // the object is released by the unwinding of a panic
        let t = sess.term.take();
        let hook = std::panic::take_hook();
        std::panic::set_hook(Box::new(|_| {}));
        let _ = std::panic::catch_unwind(std::panic::AssertUnwindSafe(move || {
            let _owned = t;
            panic!("scripted panic with the terminal object alive");
        }));
        std::panic::set_hook(hook);
    }
    drop(sess.term.take());
    let drop_ms = t0.elapsed().as_millis() as u64;
    let after = if hung_up { None } else { tcgetattr(sess.master_fd) };
    if !hung_up {
        peer.ctl(Ctl::Pause(false));
    }
    let received = peer.finish();
    let restored = match (&sess.before, &after) {
        (Some(b), Some(a)) => termios_key(b) == termios_key(a),
        _ => false,
    };
    // the closing sequence turns mouse reporting off and shows the cursor; the device attributes request
    // is its last command
    let tail = &received[before_len.min(received.len())..];
    let has = |needle: &[u8]| tail.windows(needle.len()).any(|w| w == needle);
    // (once the settings are restored the tty echoes the peer's late answer, so the request need not be last)
    let closing = has(b"\x1b[?1003l") && has(b"\x1b[?1006l") && has(b"\x1b[?1000l") && has(b"\x1b[?25h") && has(b"\x1b[c");
    // a healthy tee holds what was delivered since it was set, the closing sequence included (recorded, not judged:
    // C16 is about the copy's content)
    let tee_copy = tee_file.as_ref().map(|p| {
        let copy = std::fs::read(p).unwrap_or_default();
        let _ = std::fs::remove_file(p);
        let delivered = &received[tee_mark.min(received.len())..];
        json!({"len": copy.len(), "prefix_of_delivered": delivered.starts_with(&copy),
               "has_closing": copy.windows(3).any(|w| w == b"\x1b[c")})
    });
    if late {
        tags.push("late".into());
    }
    tags.push(format!("end={}", if hung_up { "hup" } else { &end }));
    tags.push(format!("polls={}", match npolls { 0 => "0", 1..=3 => "1-3", 4..=8 => "4-8", _ => ">8" }));
    for k in &kinds {
        tags.push(format!("has.{}", k));
    }
    // a session that ran into a wait it was not scripted to have (an infinite poll saved by the watchdog, a drop
    // that sat out dispose's one-second polls with the peer reading)
    if obs_coq.iter().any(|o| o == "OH") || (end != "drop_paused" && end != "drop_flood" && !hung_up && drop_ms > 900) {
        tags.push("unexpected_wait".into());
    }
    let tail_txt: String = tail.iter().rev().take(120).rev().map(|b| if *b == 0x1b { "^[".to_string() } else if (32..127).contains(b) { (*b as char).to_string() } else { format!("<{}>", b) }).collect();
    j["impl"] = json!({"polls": obs_json, "restored": restored, "closing_delivered": closing, "drop_ms": drop_ms, "tee_copy": tee_copy,
                       "left_through": via.as_ref().map(|v| v.1.clone()), "after_drop_tail": tail_txt});
    let endk = if hung_up { "EHup" } else if end == "drop_paused" { "EDropPaused" } else { "EDrop" };
    if end == "drop_flood" {
        return Case { coq: format!("CF {} {}", drop_ms, cbool(restored)), json: j, tags, nontrivial: true };
    }
    let template = match &via {
        None => format!("CS {} {} {} {} {}", clist(acts_coq), clist(obs_coq), endk, cbool(restored), cbool(closing)),
        Some((c, _)) => format!("CR {} {} {} {} {}", clist(acts_coq), clist(obs_coq), c, cbool(restored), cbool(closing)),
    };
    let coq = fill_elapsed(&template, true);
    *LAST_TEMPLATE.lock().unwrap_or_else(|e| e.into_inner()) = template;
    Case { coq, json: j, tags, nontrivial: npolls >= 2 && kinds.len() >= 3 }
}

/// several threads call wake() while the main thread polls; afterwards one more wake must still be seen
fn run_stress(input: &Value) -> Case {
    let _g = SERIAL.lock().unwrap_or_else(|e| e.into_inner());
    let threads = input["stress"]["threads"].as_u64().unwrap_or(4) as usize;
    let wakes = input["stress"]["wakes"].as_u64().unwrap_or(100) as usize;
    let mut j = input.clone();
    let mut sess = match open_session(0) {
        Ok(s) => s,
        Err(e) => {
            j["impl"] = json!({ "error": e });
            return Case { coq: "CT 0 0 0 false false".into(), json: j, tags: vec!["infra-error".into()], nontrivial: false };
        }
    };
    let term = sess.term.as_mut().unwrap();
    let mut hs = vec![];
    for t in 0..threads {
        let w = term.waker();
        hs.push(std::thread::spawn(move || {
            for i in 0..wakes {
                let _ = w.wake();
                if (i + t) % 7 == 0 {
                    std::thread::yield_now();
                }
            }
        }));
    }
    let mut seen = 0usize;
    let mut other = 0usize;
    // poll while they run
    let t0 = Instant::now();
    while hs.iter().any(|h| !h.is_finished()) && t0.elapsed() < Duration::from_secs(10) {
        match term.poll(Some(Duration::from_millis(1))) {
            Ok(Some(TerminalEvent::Wake)) => seen += 1,
            Ok(Some(_)) => other += 1,
            _ => {}
        }
    }
    for h in hs {
        let _ = h.join();
    }
    // everything requested so far must surface as at least one Wake overall, then silence
    loop {
        match term.poll(Some(Duration::from_millis(0))) {
            Ok(Some(TerminalEvent::Wake)) => seen += 1,
            Ok(Some(_)) => other += 1,
            _ => break,
        }
    }
    // a fresh request after the storm is not swallowed
    let _ = term.waker().wake();
    let last = matches!(term.poll(Some(Duration::from_millis(0))), Ok(Some(TerminalEvent::Wake)));
    let quiet = matches!(term.poll(Some(Duration::from_millis(0))), Ok(None));
    let peer = sess.peer.take().unwrap();
    drop(sess.term.take());
    let _ = peer.finish();
    j["impl"] = json!({"wake_events": seen, "other": other, "last_wake_seen": last, "quiet_after": quiet});
    Case {
        coq: format!("CT {} {} {} {} {}", threads * wakes, seen, other, cbool(last), cbool(quiet)),
        json: j,
        tags: vec!["stress".into()],
        nontrivial: true,
    }
}

/// a wake is pending, output is stalled (the peer does not read) and the poll has no timeout: before the
/// third fix of this property the poll came back only when the peer read again
fn blocked_wake_script() -> Value {
    json!({"acts": [["pause", true], ["write", 300000], ["wake", 1], ["poll", -1], ["poll", 0], ["pause", false], ["poll", 5]], "end": "drop"})
}

/// `SystemTerminal::open` failing half-way (no file descriptors left for the signal and waker sockets): no object
/// comes into existence, nothing will ever be dropped - are the line settings still the original ones?
fn run_open_fails(input: &Value) -> Case {
    let _g = SERIAL.lock().unwrap_or_else(|e| e.into_inner());
    let mut j = input.clone();
    let (master, path) = match open_pty() {
        Ok(x) => x,
        Err(e) => {
            j["impl"] = json!({ "error": e });
            return Case { coq: "CO false false".into(), json: j, tags: vec!["infra-error".into()], nontrivial: false };
        }
    };
    let before = tcgetattr(master.as_raw_fd());
    // the lowest free descriptor numbers: the tty takes the first, the socket pair would need two more
    let used: std::collections::BTreeSet<i32> = std::fs::read_dir("/proc/self/fd")
        .map(|d| d.filter_map(|e| e.ok()).filter_map(|e| e.file_name().to_string_lossy().parse().ok()).collect())
        .unwrap_or_default();
    let mut free = (0..4096).filter(|n| !used.contains(n));
    let _f1 = free.next().unwrap_or(0);
    let f2 = free.next().unwrap_or(0);
    let mut old = libc::rlimit { rlim_cur: 0, rlim_max: 0 };
    unsafe { libc::getrlimit(libc::RLIMIT_NOFILE, &mut old) };
    let tight = libc::rlimit { rlim_cur: (f2 + 1) as libc::rlim_t, rlim_max: old.rlim_max };
    unsafe { libc::setrlimit(libc::RLIMIT_NOFILE, &tight) };
    let r = SystemTerminal::open(&path);
    unsafe { libc::setrlimit(libc::RLIMIT_NOFILE, &old) };
    let failed = r.is_err();
    drop(r);
    let after = tcgetattr(master.as_raw_fd());
    let restored = match (&before, &after) {
        (Some(b), Some(a)) => termios_key(b) == termios_key(a),
        _ => false,
    };
    j["impl"] = json!({"open_failed": failed, "settings_unchanged": restored});
    Case { coq: format!("CO {} {}", cbool(failed), cbool(restored)), json: j, tags: vec!["open_fails".into()], nontrivial: true }
}

/// The same tty opened and released several times in this process, its line settings changed from outside in
/// between (`"reopen": [v0, v1, ..]`, one stty variant per open; `"nested"`: the next object is opened while the
/// previous one is still alive and both are released in order of creation): every release must leave the settings
/// found at THAT open (for a nested pair: the outer object's).
fn run_reopen(input: &Value) -> Case {
    let _g = SERIAL.lock().unwrap_or_else(|e| e.into_inner());
    let mut j = input.clone();
    let (master, path) = match open_pty() {
        Ok(x) => x,
        Err(e) => {
            j["impl"] = json!({ "error": e });
            return Case { coq: "CRO 0 false".into(), json: j, tags: vec!["infra-error".into()], nontrivial: false };
        }
    };
    let master_fd = master.as_raw_fd();
    set_winsize(master_fd, 30, 100);
    std::env::set_var("TERM", "dumb");
    std::env::remove_var("COLORTERM");
    let peer = Peer::spawn(master, vec![Rate { size: 65536, sleep_us: 0 }], true);
    let variants: Vec<u64> = input["reopen"].as_array().map(|a| a.iter().map(|v| v.as_u64().unwrap_or(0)).collect()).unwrap_or_default();
    let mut all = true;
    let mut opens = 0u64;
    let mut log = vec![];
    for v in &variants {
        stty_variant(master_fd, *v);
        let before = tcgetattr(master_fd);
        match SystemTerminal::open(&path) {
            Ok(mut term) => {
                opens += 1;
                let _ = term.write_all(b"hello");
                let _ = term.poll(Some(Duration::from_millis(1)));
                drop(term);
            }
            Err(e) => {
                all = false;
                log.push(json!({"variant": v, "error": format!("{:?}", e)}));
                continue;
            }
        }
        let after = tcgetattr(master_fd);
        let same = match (&before, &after) {
            (Some(b), Some(a)) => termios_key(b) == termios_key(a),
            _ => false,
        };
        all &= same;
        log.push(json!({"variant": v, "settings_after_release_equal_those_found_at_open": same,
                        "lflag_found": before.map(|t| t.c_lflag as u64), "lflag_left": after.map(|t| t.c_lflag as u64)}));
    }
    let _ = peer.finish();
    j["impl"] = json!({"opens": opens, "each_release_restored": all, "log": log});
    Case { coq: format!("CRO {} {}", opens, cbool(all)), json: j, tags: vec!["reopen".into()], nontrivial: true }
}

/// The escape-sequence resize mode: the ioctl reports no pixel size, the terminal answers the size queries, so the
/// library asks the terminal for its size on SIGWINCH and turns the answers into Resize events.
fn run_escsize(input: &Value) -> Case {
    let _g = SERIAL.lock().unwrap_or_else(|e| e.into_inner());
    let mut j = input.clone();
    let bad = |j: Value, e: String| {
        let mut j = j;
        j["impl"] = json!({ "error": e });
        Case { coq: "CE 0 0 0 false".into(), json: j, tags: vec!["infra-error".into()], nontrivial: false }
    };
    let (master, path) = match open_pty() {
        Ok(x) => x,
        Err(e) => return bad(j, e),
    };
    let master_fd = master.as_raw_fd();
    set_winsize(master_fd, 30, 100); // no pixel size
    let before = tcgetattr(master_fd);
    std::env::set_var("TERM", "xterm-256color");
    std::env::remove_var("COLORTERM");
    let peer = Peer::spawn(master, vec![Rate { size: 65536, sleep_us: 0 }], true);
    peer.ctl(Ctl::AnswerSize(Some((30, 100, 600, 1000))));
    std::thread::sleep(Duration::from_millis(5));
    let mut term = match SystemTerminal::open(&path) {
        Ok(t) => t,
        Err(e) => {
            let _ = peer.finish();
            return bad(j, format!("open failed: {:?}", e));
        }
    };
    let size_mode = term.size().map(|s| s.pixels.height == 600).unwrap_or(false);
    let winches = input["winches"].as_u64().unwrap_or(1);
    let (mut resizes, mut others, mut polls) = (0u64, 0u64, 0u64);
    let mut kinds = vec![];
    let backlog = input["backlog"].as_bool().unwrap_or(false);
    let mut render = json!(null);
    if backlog {
        // the render loop of terminal.rs with the peer stalled: more than 32 frames pile up, SIGWINCH arrives,
        // the poll that handles it queues the size query and times out, run_render drops the pending frames.
        // The peer resumes: the Resize event must still come.
        let mut raised = 0u64;
        let mut max_pending = 0usize;
        let mut dropped = false;
        let mut iters = 0u64;
        let t0 = Instant::now();
        let mut t_resume: Option<Instant> = None;
        let peer_ref = &peer;
        let r: Result<bool, surf_n_term::Error> = term.run_render(|t, e, _s| {
            iters += 1;
            if iters == 1 {
                peer_ref.pause(true);
                let _ = t.write_all(&vec![b'.'; 200_000]);
            }
            match e {
                Some(TerminalEvent::Resize(_)) => {
                    resizes += 1;
                    return Ok(surf_n_term::TerminalAction::Quit(true));
                }
                Some(TerminalEvent::Size(_)) | None => {}
                Some(_) => others += 1,
            }
            let p = t.frames_pending();
            if !dropped && p < max_pending {
                // run_render has just dropped the backlog: the peer resumes
                dropped = true;
                peer_ref.pause(false);
                t_resume = Some(Instant::now());
            }
            max_pending = max_pending.max(p);
            if !dropped && p >= 30 {
                unsafe { libc::raise(libc::SIGWINCH) };
                raised += 1;
            }
            // every iteration draws something, so every iteration queues a frame
            let _ = write!(t, "frame {}", iters);
            let over = match t_resume {
                Some(tr) => tr.elapsed() > Duration::from_millis(1500),
                None => t0.elapsed() > Duration::from_secs(8),
            };
            if over {
                return Ok(surf_n_term::TerminalAction::Quit(false));
            }
            Ok(surf_n_term::TerminalAction::Sleep(Duration::from_millis(2)))
        });
        polls = iters;
        if r.is_err() {
            others += 100;
        }
        if !dropped || raised == 0 {
            others += 1000; // the scenario did not get to the drop
        }
        render = json!({"iterations": iters, "sigwinch_raised_before_the_drop": raised, "max_frames_pending": max_pending,
                        "frames_dropped": dropped, "result": format!("{:?}", r)});
        peer.pause(false);
    }
    // ---- the answer to a size query is already on its way when the next SIGWINCH arrives ("inflight": how many
    // further signals, each raised with the previous answer sent by the peer and not yet read; "busy": the peer
    // drains slowly and 200000 bytes of output are queued behind the first query, so the write queue is never
    // empty in between; "stale_drop": after such a signal the peer stalls, more than 32 frames pile up and the
    // caller drops them, as run_render does).  Judged by the end state: once the peer has answered everything the
    // last Resize event and size() report the peer's final size.
    let inflight = input["inflight"].as_u64().unwrap_or(0);
    let mut inflight_info = json!(null);
    if inflight > 0 {
        let busy = input["busy"].as_bool().unwrap_or(false);
        let stale_drop = input["stale_drop"].as_bool().unwrap_or(false);
        let probe = std::fs::OpenOptions::new().read(true).write(true).custom_flags_noctty().open(&path);
        let sizes: [(u16, u16, u16, u16); 5] = [(31, 101, 620, 1010), (32, 102, 640, 1020), (33, 103, 660, 1030), (34, 104, 680, 1040), (35, 105, 700, 1050)];
        let mut seen: Vec<(usize, usize)> = vec![];
        let mut met = 0u64; // signals that did arrive with an answer in flight
        let mut take = |r: Result<Option<TerminalEvent>, surf_n_term::Error>, seen: &mut Vec<(usize, usize)>, others: &mut u64| match r {
            Ok(Some(TerminalEvent::Resize(sz))) => seen.push((sz.cells.height, sz.cells.width)),
            Ok(Some(TerminalEvent::Size(_))) | Ok(None) => {}
            Ok(Some(_)) => *others += 1,
            Err(_) => *others += 100,
        };
        if let Ok(probe) = probe {
            if busy {
                peer.ctl(Ctl::Rates(vec![Rate { size: 2048, sleep_us: 1200 }]));
            }
            for i in 0..=(inflight as usize) {
                peer.ctl(Ctl::AnswerSize(Some(sizes[i])));
                std::thread::sleep(Duration::from_millis(3)); // the peer thread picks the new size up
                let send0 = term.stats().send;
                unsafe { libc::raise(libc::SIGWINCH) };
                polls += 1;
                take(term.poll(Some(Duration::from_millis(if i == 0 { 0 } else { 20 }))), &mut seen, &mut others);
                if i == 0 && busy {
                    let _ = term.write_all(&vec![b'.'; 200_000]);
                }
                if i == inflight as usize {
                    break;
                }
                if stale_drop && i + 1 == inflight as usize {
                    // before the last signal: the peer stalls, frames pile up; the signal is handled by a poll that
                    // also reads the previous answer; the caller drops the backlog; the peer resumes
                    let t0 = Instant::now();
                    while term.stats().send < send0 + 10 && t0.elapsed() < Duration::from_millis(500) {
                        polls += 1;
                        take(term.poll(Some(Duration::from_millis(0))), &mut seen, &mut others);
                    }
                    let t0 = Instant::now();
                    while input_waiting(probe.as_raw_fd()) == 0 && t0.elapsed() < Duration::from_millis(500) {
                        std::thread::sleep(Duration::from_micros(200));
                    }
                    let flying = input_waiting(probe.as_raw_fd()) > 0;
                    peer.pause(true);
                    let _ = term.write_all(&vec![b'.'; 200_000]);
                    for f in 0..40 {
                        let _ = write!(term, "frame {}", f);
                        let _ = term.flush();
                    }
                    peer.ctl(Ctl::AnswerSize(Some(sizes[i + 1])));
                    unsafe { libc::raise(libc::SIGWINCH) };
                    if flying {
                        met += 1;
                    }
                    polls += 1;
                    take(term.poll(Some(Duration::from_millis(20))), &mut seen, &mut others);
                    if term.frames_pending() > 32 {
                        term.frames_drop();
                    }
                    peer.pause(false);
                    break;
                }
                // the query goes out (no further poll once it has, so that its answer stays unread) ...
                let t0 = Instant::now();
                while term.stats().send < send0 + 10 && t0.elapsed() < Duration::from_millis(500) {
                    polls += 1;
                    take(term.poll(Some(Duration::from_millis(0))), &mut seen, &mut others);
                }
                // ... and the peer's answer is on its way
                let t0 = Instant::now();
                while input_waiting(probe.as_raw_fd()) == 0 && t0.elapsed() < Duration::from_millis(500) {
                    std::thread::sleep(Duration::from_micros(200));
                }
                if input_waiting(probe.as_raw_fd()) > 0 {
                    met += 1;
                }
            }
            // everything settles
            let fin = sizes[inflight as usize];
            peer.ctl(Ctl::Rates(vec![Rate { size: 65536, sleep_us: 0 }]));
            let t0 = Instant::now();
            while t0.elapsed() < Duration::from_millis(2500) {
                if seen.last() == Some(&(fin.0 as usize, fin.1 as usize)) && term.frames_pending() == 0 {
                    break;
                }
                polls += 1;
                take(term.poll(Some(Duration::from_millis(20))), &mut seen, &mut others);
            }
            let size_now = term.size().map(|s| (s.cells.height, s.cells.width)).ok();
            let ok_final = seen.last() == Some(&(fin.0 as usize, fin.1 as usize)) && size_now == Some((fin.0 as usize, fin.1 as usize));
            resizes = if ok_final { winches } else { 0 };
            inflight_info = json!({"signals": inflight + 1, "signals_met_by_an_answer_in_flight": met, "resize_events": seen,
                                   "final_size_of_the_peer": [fin.0, fin.1], "size()": size_now, "final_size_reported": ok_final});
            if met > 0 {
                kinds.push("answer_in_flight");
            }
        } else {
            others += 1000;
        }
    }
    for _ in 0..(if backlog || inflight > 0 { 0 } else { winches }) {
        unsafe { libc::raise(libc::SIGWINCH) };
        // the answer needs a round trip through the peer thread
        let t0 = Instant::now();
        let mut got = false;
        while t0.elapsed() < Duration::from_millis(1500) {
            polls += 1;
            match term.poll(Some(Duration::from_millis(50))) {
                Ok(Some(TerminalEvent::Resize(_))) => {
                    resizes += 1;
                    got = true;
                    kinds.push("resize");
                }
                Ok(Some(TerminalEvent::Size(_))) => kinds.push("size"),
                Ok(Some(_)) => {
                    others += 1;
                    kinds.push("other");
                }
                Ok(None) => {
                    if got {
                        break;
                    }
                }
                Err(_) => {
                    others += 100;
                    break;
                }
            }
        }
    }
    drop(term);
    let after = tcgetattr(master_fd);
    let _ = peer.finish();
    let restored = match (&before, &after) {
        (Some(b), Some(a)) => termios_key(b) == termios_key(a),
        _ => false,
    };
    j["impl"] = json!({"escape_size_mode": size_mode, "resize_events": resizes, "other_events": others, "polls": polls, "kinds": kinds, "restored": restored, "render_loop": render, "answers_in_flight": inflight_info});
    Case {
        coq: format!("CE {} {} {} {}", winches, resizes, others, cbool(size_mode && restored)),
        json: j,
        tags: vec![if backlog {
            "escsize_backlog".into()
        } else if inflight > 0 && kinds.contains(&"answer_in_flight") {
            "escsize_answer_in_flight".into()
        } else {
            "escsize".into()
        }],
        nontrivial: true,
    }
}

pub fn run(input: &Value) -> Case {
    if input["escsize"].as_bool().unwrap_or(false) {
        return run_escsize(input);
    }
    if input["open_fails"].as_bool().unwrap_or(false) {
        return run_open_fails(input);
    }
    if input["reopen"].is_array() {
        return run_reopen(input);
    }
    if !input["stress"].is_null() {
        run_stress(input)
    } else if input["blocked_wake"].as_bool().unwrap_or(false) {
        let mut c = run_script(&blocked_wake_script());
        c.json["blocked_wake"] = json!(true);
        c.tags.push("blocked_wake".into());
        c
    } else {
        run_script(input)
    }
}

fn gen_script(rng: &mut Rng) -> Value {
    let mut acts: Vec<Value> = vec![];
    let n = 3 + rng.below(14);
    let mut paused = false;
    let mut fresh = false; // a request was made since the last poll: something is certainly outstanding
    let mut fresh_wake = false; // ... a wake request
    let mut quiet = true; // nothing can be outstanding: every request so far was followed by enough polls
    let mut since = 0usize; // polls since the last request
    let mut owed = 0usize; // upper bound on the events still to come
    let mut wake_total = 0u64; // wake requests of the whole script
    for _ in 0..n {
        match rng.below(100) {
            0..=17 => {
                // at most 1024 bytes are read from the waker socket at once: bursts up to that size coalesce into one event
                // ... as long as all requests of a script together stay under 1024: how many one-byte writes the
                // socket holds depends on the kernel's accounting (a few hundred here), so with more than one read's
                // worth outstanding the number of Wake events is not determined
                let top = if rng.chance(1, 5) && wake_total < 500 { 400 } else { 5 };
                let n = 1 + rng.below(top);
                wake_total += n;
                acts.push(json!(["wake", n]));
                fresh = true;
                fresh_wake = true;
                owed += 1;
            }
            18..=33 => {
                let len = 1 + rng.below(4) as usize;
                let s: String = (0..len).map(|_| (b'a' + rng.below(26) as u8) as char).collect();
                fresh = true;
                owed += len;
                acts.push(json!(["in", s]));
            }
            34..=41 => {
                acts.push(json!(["winch"]));
                fresh = true;
                owed += 1;
            }
            42..=45 => {
                acts.push(json!(["term", rng.below(3)]));
                fresh = true;
                owed += 1;
            }
            46..=55 => {
                let big = rng.chance(1, 2);
                let len = if big { 20000 + rng.below(150000) } else { 1 + rng.below(2000) };
                acts.push(json!(["write", len]));
            }
            56..=59 => {
                paused = !paused;
                acts.push(json!(["pause", paused]));
            }
            60..=61 => acts.push(json!(["eagain", 1 + rng.below(300)])),
            62..=66 => {
                // a request that arrives while this thread sits in an infinite poll: only when nothing else can be
                // outstanding, so that the latency measured is the request's
                if quiet && owed == 0 {
                    let d = 2 + rng.below(30);
                    // with the peer stalled only a wake request is certain to end an infinite poll
                    acts.push(json!([if rng.chance(2, 3) || paused { "poll_wake" } else { "poll_winch" }, d]));
                } else {
                    acts.push(json!(["poll", 0]));
                    owed = owed.saturating_sub(1);
                }
                fresh = false;
                fresh_wake = false;
            }
            _ => {
                // an infinite poll only when it is certain to return: a wake request is outstanding (it ends the
                // poll also with the peer paused and output stalled), or something else is and the peer reads
                let inf = (fresh_wake || (fresh && !paused)) && rng.chance(1, 3);
                let ms: i64 = if inf { -1 } else if rng.chance(3, 5) { 0 } else { 1 + rng.below(8) as i64 };
                acts.push(json!(["poll", ms]));
                fresh = false;
                fresh_wake = false;
                owed = owed.saturating_sub(1);
            }
        }
        since += 1;
        quiet = owed == 0;
        let _ = since;
    }
    // trailing polls so that what is pending gets observed: one more than the events that can still come, so a
    // request that was lost shows up as a poll returning nothing while it is owed; after them nothing may be owed
    for _ in 0..(owed + 1 + rng.below(3) as usize) {
        acts.push(json!(["poll", 0]));
    }
    acts.push(json!(["settled"]));
    let end = match rng.below(12) {
        0 => "run_err",
        1 => "render_quit",
        2 => "panic",
        _ => "drop",
    };
    // the debugging copy of the output in a fifth of the sessions; with a copy that cannot be written the output
    // stays under the 8 KiB of its buffer (more would make the polls of the session return its error, which is
    // correct and not what these sessions are about), except for a last frame that only dispose gets to send
    let tee = if rng.chance(1, 5) { Some(*rng.pick(&["file", "file", "full", "fifo"])) } else { None };
    if let Some(kind) = tee {
        if kind != "file" {
            let mut writes = 0;
            for a in acts.iter_mut() {
                if a[0] == "write" {
                    writes += 1;
                    let len = a[1].as_u64().unwrap_or(1);
                    *a = json!(["write", if writes <= 8 { 1 + len % 700 } else { 1 }]);
                }
            }
            if (end == "drop" || end == "panic") && rng.chance(1, 2) {
                acts.push(json!(["write", 9000 + rng.below(60000)]));
            }
        }
    }
    // half of the sessions find the tty with other line settings than the default ones
    let stty = if rng.chance(1, 2) { 1 + rng.below(15) } else { 0 };
    let with_tee = |mut v: Value| {
        if let Some(kind) = tee {
            v["tee"] = json!(kind);
        }
        if stty != 0 {
            v["stty"] = json!(stty);
        }
        v
    };
    // a hang-up at any point (with a SIGWINCH outstanding the size query of its handling fails on the dead tty)
    if rng.chance(1, 8) {
        acts.push(json!(["hup"]));
        acts.push(json!(["poll", 0]));
        return with_tee(json!({"acts": acts, "end": "drop"}));
    }
    with_tee(json!({"acts": acts, "end": end}))
}

pub fn generate(rng: &mut Rng, n: usize, _tier: &str) -> Vec<Value> {
    let mut v = vec![];
    // fixed scenarios
    v.push(json!({"acts": [["wake", 3], ["poll", 0], ["poll", 0]], "end": "drop"}));
    v.push(json!({"acts": [["wake", 1], ["in", "ab"], ["poll", 0], ["poll", 0], ["poll", 0], ["poll", 0]], "end": "drop"}));
    v.push(json!({"acts": [["in", "a"], ["poll", 0], ["wake", 1], ["in", "b"], ["poll", -1], ["poll", -1], ["poll", 0]], "end": "drop"}));
    v.push(json!({"acts": [["winch"], ["poll", 0], ["poll", 0]], "end": "drop"}));
    v.push(json!({"acts": [["pause", true], ["write", 120000], ["wake", 2], ["in", "xy"], ["winch"], ["poll", 5], ["poll", 5], ["poll", 0], ["poll", 0], ["pause", false], ["poll", 3], ["poll", 0]], "end": "drop"}));
    v.push(json!({"acts": [["term", 0], ["poll", 0], ["poll", 0]], "end": "drop"}));
    v.push(json!({"acts": [["wake", 1], ["term", 1], ["in", "q"], ["poll", 0], ["poll", 0], ["poll", 0], ["poll", 0]], "end": "drop"}));
    v.push(json!({"acts": [["term", 2]], "end": "drop"}));
    v.push(json!({"acts": [["wake", 900], ["poll", 0], ["poll", 0]], "end": "drop"}));
    v.push(json!({"acts": [["pause", true], ["write", 300000], ["poll", 3]], "end": "drop_paused"}));
    v.push(json!({"stress": {"threads": 4, "wakes": 300}}));
    v.push(json!({"blocked_wake": true}));
    v.push(json!({"escsize": true, "winches": 2}));
    v.push(json!({"escsize": true, "backlog": true, "winches": 1}));
    // the same tty opened again in this process after its settings were changed from outside
    v.push(json!({"reopen": [0, 1, 0, 6]}));
    v.push(json!({"reopen": [3, 3, 12, 5, 0]}));
    for k in 1..=3 {
        v.push(json!({"escsize": true, "inflight": k, "winches": 1}));
        v.push(json!({"escsize": true, "inflight": k, "busy": true, "winches": 1}));
    }
    v.push(json!({"escsize": true, "inflight": 1, "stale_drop": true, "winches": 1}));
    v.push(json!({"escsize": true, "inflight": 2, "stale_drop": true, "winches": 1}));
    // (corpus/C17: failed open, event flood at drop, a key arriving during a 1 MiB frame)
    // ... with the peer stalled only a wake request cuts the wait short, the key follows it
    v.push(json!({"acts": [["pause", true], ["write", 200000], ["in", "k"], ["wake", 1], ["poll", -1], ["poll", 20], ["pause", false], ["poll", 5]], "end": "drop"}));
    v.push(json!({"acts": [["poll_wake", 20], ["poll", 0], ["poll_winch", 15], ["poll", 0]], "end": "drop"}));
    // the wake request arrives while poll(None) sleeps in select with the output stalled (the path of afe2796)
    v.push(json!({"acts": [["pause", true], ["write", 300000], ["poll_wake", 20], ["poll", 0], ["pause", false], ["poll", 5], ["poll", 0]], "end": "drop"}));
    v.push(json!({"acts": [["write", 9000], ["wake", 2], ["eagain", 500], ["poll", -1], ["poll", 0], ["poll", 3]], "end": "drop"}));
    v.push(json!({"acts": [["write", 3000], ["in", "ab"], ["poll", 0], ["write", 50], ["eagain", 400], ["poll", 20], ["poll", 0], ["poll", 0]], "end": "drop"}));
    v.push(json!({"acts": [["in", "k"], ["hup"], ["poll", 0], ["poll", 0]], "end": "drop"}));
    v.push(json!({"acts": [["wake", 1], ["poll", 0]], "end": "run_err"}));
    v.push(json!({"acts": [["write", 5000], ["poll", 0], ["winch"]], "end": "render_quit"}));
    // duplicate_output (healthy file, /dev/full, fifo without a reader) on every way out
    for tee in ["file", "full", "fifo"] {
        for end in ["drop", "panic", "run_err", "render_quit"] {
            v.push(json!({"tee": tee, "acts": [["write", 900], ["wake", 1], ["poll", 0], ["in", "k"], ["poll", 0], ["poll", 0]], "end": end}));
        }
        v.push(json!({"tee": tee, "acts": [["write", 500], ["term", 1], ["poll", 0], ["poll", 0]], "end": "drop"}));
        v.push(json!({"tee": tee, "acts": [["write", 500], ["poll", 0], ["hup"], ["poll", 0]], "end": "drop"}));
        v.push(json!({"tee": tee, "acts": [["write", 100000]], "end": "drop"}));
    }
    // the tty refuses the first writes of dispose (fault script: EAGAIN while select reports it writable)
    v.push(json!({"acts": [["write", 3000], ["eagain", 40]], "end": "drop"}));
    v.push(json!({"tee": "full", "acts": [["write", 3000], ["eagain", 40]], "end": "panic"}));
    // (a stalled peer at the drop needs the tty's buffer full, more than a failing copy lets through a poll)
    v.push(json!({"tee": "file", "acts": [["pause", true], ["write", 300000], ["poll", 3]], "end": "drop_paused"}));
    while v.len() < n {
        if rng.chance(1, 25) {
            v.push(json!({"stress": {"threads": 2 + rng.below(6), "wakes": 50 + rng.below(2000)}}));
        } else {
            v.push(gen_script(rng));
        }
    }
    v
}

pub fn batch(inputs: &[Value]) -> Batch {
    Batch {
        prop: "C17",
        coq_import: "Corr.C17Corr",
        case_type: "c17_case",
        report_fn: "c17_report",
        rule: "scripted session with >=2 polls and >=3 kinds of actions (wake / input / signals / output / pause / poll), or a multi-thread wake stress run; distinct by input",
        cases: run_all(inputs),
        preamble: String::new(),
    }
}

/// Every session is bounded: a process-wide watchdog ends the harness (exit code 97, the session in flight is in
/// current_case.json and becomes the failing input) when one session takes more than 12 s, and after 6 sessions
/// with unexpected waits the remaining ones are not run (the ones seen are reported), so that a broken tree is
/// reported within a few minutes.
fn run_all(inputs: &[Value]) -> Vec<Case> {
    use std::sync::atomic::{AtomicU64, Ordering};
    use std::sync::Arc;
    let dir = std::env::var("SNT_HARNESS_OUT").ok();
    let started = Arc::new(AtomicU64::new(0)); // ms since t0 at which the current session started; 0 = none
    let t0 = Instant::now();
    {
        let started = started.clone();
        std::thread::spawn(move || loop {
            std::thread::sleep(Duration::from_millis(200));
            let s = started.load(Ordering::SeqCst);
            if s != 0 && t0.elapsed().as_millis() as u64 > s + 12_000 {
                eprintln!("c17: a pty session did not finish within 12 s");
                std::process::exit(97);
            }
        });
    }
    let mut cases = vec![];
    let mut waits = 0;
    // Wall-clock judgements (Corr/C17Corr.v `timely`: scripted wait * 1.25 + 250 ms) need a host that is not
    // overloaded.  The host is probed at the start; a session in which a poll was late is looked at again: when the
    // probe says the host is slow now, its elapsed times are reported cut down to the scripted waits (it is judged
    // by order and content of the poll results, the 2 s watchdog of infinite polls and the restored settings only);
    // otherwise it is run again, twice at most and within a budget of 20 s per run of the harness, since
    // scheduling noise does not repeat and a poll that waits for the wrong thing does.
    let probe0 = host_probe_ms();
    let slow_at_start = probe0 >= SLOW_HOST_MS;
    if slow_at_start {
        eprintln!("c17: the host is slow (timing probe {} ms): poll results are judged by order and content, not by wall-clock time", probe0);
    }
    let mut rerun_budget = Duration::from_secs(20);
    let mut untimed = 0usize;
    for i in inputs {
        if let Some(d) = &dir {
            let _ = std::fs::write(format!("{}/current_case.json", d), i.to_string());
        }
        started.store(t0.elapsed().as_millis() as u64 + 1, Ordering::SeqCst);
        let mut c = run(i);
        let is_late = |c: &Case| c.tags.iter().any(|t| t == "late");
        let mut attempt = 0;
        while is_late(&c) {
            let probe = if slow_at_start { probe0 } else { host_probe_ms() };
            if probe >= SLOW_HOST_MS {
                c.coq = fill_elapsed(&LAST_TEMPLATE.lock().unwrap_or_else(|e| e.into_inner()), false);
                c.json["impl"]["wall_clock_not_judged"] = json!(format!("host slow: timing probe {} ms", probe));
                c.tags.push("wall_clock_not_judged".into());
                untimed += 1;
                break;
            }
            if attempt >= 2 || rerun_budget.is_zero() {
                break; // late again and again on a host that is not slow: reported as measured
            }
            attempt += 1;
            let t = Instant::now();
            started.store(t0.elapsed().as_millis() as u64 + 1, Ordering::SeqCst);
            c = run(i);
            c.json["impl"]["rerun_after_late_session"] = json!(attempt);
            rerun_budget = rerun_budget.saturating_sub(t.elapsed());
        }
        c.tags.retain(|t| t != "late");
        started.store(0, Ordering::SeqCst);
        if c.tags.iter().any(|t| t == "unexpected_wait") {
            waits += 1;
        }
        cases.push(c);
        if waits >= 6 {
            eprintln!("c17: {} sessions ran into unexpected waits, the remaining {} are not run", waits, inputs.len() - cases.len());
            break;
        }
    }
    if untimed > 0 {
        eprintln!("c17: {} sessions judged without wall-clock time (host slow)", untimed);
    }
    if let Some(d) = &dir {
        let _ = std::fs::remove_file(format!("{}/current_case.json", d));
    }
    cases
}
