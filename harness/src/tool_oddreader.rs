//! Scripted `BufRead` implementations and operation programs for multi-step histories of the
//! decoders (used by the C02 and C03 harnesses; `snt_harness tool oddreader BYTES..` is a self test).
//!
//! A history drives ONE decoder over ONE reader holding the whole stream until the reader is empty:
//!   * the reader follows a script, one step per `fill_buf` call (cycled):
//!       k > 0  expose at most k of the remaining bytes,
//!       0      an empty read although bytes remain,
//!       -1     `Err(Interrupted)`, -2 `Err(TimedOut)`;
//!     `sticky`: bytes once exposed are returned again until they are consumed (no new script step);
//!   * the caller follows a program, one step per call (cycled):
//!       0 `decode`, 1 `decode_into`, 2 feed an unrelated stream to a second decoder, then `decode`;
//!   * after an `Err` the same decoder and the same reader are simply used again.
//! Observation: the items in order, the number of bytes the decoder consumed in every call (the
//! partition into reads the decoder actually saw), whether a decoder that has returned `None` on the
//! drained reader returns `None` again.  Failures of the history itself: `consume` beyond the exposed
//! bytes, `decode_into` returning a count different from the items it appended (the output vector is kept
//! across consecutive `decode_into` calls) or removing items, no progress.
use std::io::{self, BufRead, Cursor, ErrorKind, Read};
use surf_n_term::decoder::{Decoder, Utf8Decoder};

pub struct ScriptReader<'a> {
    data: &'a [u8],
    pos: usize,
    window: usize,
    script: &'a [i64],
    next: usize,
    sticky: bool,
    pub overconsumed: bool,
}

impl<'a> ScriptReader<'a> {
    pub fn new(data: &'a [u8], script: &'a [i64], sticky: bool) -> Self {
        Self { data, pos: 0, window: 0, script, next: 0, sticky, overconsumed: false }
    }

    pub fn position(&self) -> usize {
        self.pos
    }
}

impl Read for ScriptReader<'_> {
    fn read(&mut self, out: &mut [u8]) -> io::Result<usize> {
        let n = {
            let b = self.fill_buf()?;
            let n = b.len().min(out.len());
            out[..n].copy_from_slice(&b[..n]);
            n
        };
        self.consume(n);
        Ok(n)
    }
}

impl BufRead for ScriptReader<'_> {
    fn fill_buf(&mut self) -> io::Result<&[u8]> {
        if self.pos >= self.data.len() {
            self.window = self.pos;
            return Ok(&[]);
        }
        if self.sticky && self.pos < self.window {
            return Ok(&self.data[self.pos..self.window]);
        }
        let step = if self.script.is_empty() { 1 } else { self.script[self.next % self.script.len()] };
        self.next += 1;
        match step {
            -1 => {
                self.window = self.pos;
                Err(io::Error::new(ErrorKind::Interrupted, "scripted"))
            }
            k if k < 0 => {
                self.window = self.pos;
                Err(io::Error::new(ErrorKind::TimedOut, "scripted"))
            }
            k => {
                self.window = (self.pos + k as usize).min(self.data.len());
                Ok(&self.data[self.pos..self.window])
            }
        }
    }

    fn consume(&mut self, n: usize) {
        if self.pos + n > self.window {
            self.overconsumed = true;
        }
        self.pos = (self.pos + n).min(self.data.len());
    }
}

pub enum Step<I> {
    Item(I),
    /// an error of the decoder itself (Utf8Decoder on an invalid sequence), not of the reader
    OwnErr,
}

pub struct Hist<I> {
    pub steps: Vec<Step<I>>,
    pub cuts: Vec<usize>,
    pub exhausted: bool,
    pub fail: Option<String>,
}

pub fn drive<D: Decoder + Default>(data: &[u8], script: &[i64], sticky: bool, ops: &[u8], own_err: &dyn Fn(&D::Error) -> bool) -> Hist<D::Item> {
    let mut dec = D::default();
    let mut other = D::default();
    let mut rd = ScriptReader::new(data, script, sticky);
    let mut h = Hist { steps: vec![], cuts: vec![], exhausted: false, fail: None };
    let cap = (data.len() + 2) * (script.len() + 2) * 2 + 64;
    let mut carry: Vec<D::Item> = vec![];
    let mut calls = 0usize;
    let mut idle = 0usize; // calls since the reader was drained that returned nothing
    while idle < 2 {
        if calls >= cap {
            h.fail = Some("no progress".into());
            break;
        }
        let op = if ops.is_empty() { 0 } else { ops[calls % ops.len()] };
        calls += 1;
        let before = rd.position();
        let mut produced = false;
        if op == 2 {
            // another decoder of the same type, mid sequence: must not disturb this one
            let mut sink = vec![];
            let _ = other.decode_into(Cursor::new(&b"\x1b[1;\xe2"[..]), &mut sink);
            let _ = other.decode_into(Cursor::new(&data[..data.len().min(5)]), &mut sink);
        }
        if op == 1 {
            // the output vector is NOT emptied between consecutive decode_into calls: items are appended
            let had = carry.len();
            let r = dec.decode_into(&mut rd, &mut carry);
            if carry.len() < had {
                h.fail = Some("decode_into removed items from the output vector".into());
                break;
            }
            let pushed = carry.len() - had;
            produced = pushed > 0;
            match r {
                Ok(count) if count != pushed => h.fail = Some(format!("decode_into returned {} for {} items", count, pushed)),
                Ok(_) => {}
                Err(e) if own_err(&e) => {
                    h.steps.extend(carry.drain(..).map(Step::Item));
                    h.steps.push(Step::OwnErr);
                    produced = true;
                }
                Err(_) => {}
            }
        } else {
            h.steps.extend(carry.drain(..).map(Step::Item));
            match dec.decode(&mut rd) {
                Ok(Some(item)) => {
                    h.steps.push(Step::Item(item));
                    produced = true;
                }
                Ok(None) => {}
                Err(e) if own_err(&e) => {
                    h.steps.push(Step::OwnErr);
                    produced = true;
                }
                Err(_) => {}
            }
        }
        h.cuts.push(rd.position() - before);
        if rd.overconsumed {
            h.fail = Some("consume beyond the bytes fill_buf returned".into());
        }
        if h.fail.is_some() {
            break;
        }
        if rd.position() >= data.len() && !produced {
            idle += 1;
        } else {
            idle = 0;
        }
    }
    h.steps.extend(carry.drain(..).map(Step::Item));
    h.exhausted = h.fail.is_none() && matches!(dec.decode(Cursor::new(&[][..])), Ok(None));
    h
}

/// scripts and programs of a case: `hist` = [[sticky, [script..], [ops..]], ..]
pub fn hist_specs(v: &serde_json::Value) -> Vec<(bool, Vec<i64>, Vec<u8>)> {
    v.as_array()
        .map(|a| {
            a.iter()
                .map(|h| {
                    let script = h[1].as_array().map(|s| s.iter().filter_map(|x| x.as_i64()).collect()).unwrap_or_default();
                    let ops = h[2].as_array().map(|s| s.iter().filter_map(|x| x.as_u64()).map(|x| x as u8).collect()).unwrap_or_default();
                    (h[0].as_bool().unwrap_or(false), script, ops)
                })
                .collect()
        })
        .unwrap_or_default()
}

/// the fixed histories every case gets (k = a draw of the generator) and `extra` random ones
pub fn hist_gen(mut draw: impl FnMut(u64) -> u64, extra: usize) -> serde_json::Value {
    let mut v = vec![
        // one byte at a time, single decode calls
        serde_json::json!([false, [1], [0]]),
        // Interrupted between bytes, empty reads, decoder reused after every Err
        serde_json::json!([false, [1, -1, 2, 0, -2, 3], [1, 0, 2]]),
        // the same bytes again until consumed, windows of 4
        serde_json::json!([true, [4, -1], [0, 0, 1]]),
    ];
    for _ in 0..extra {
        let n = 1 + draw(6) as usize;
        let mut script: Vec<i64> = (0..n)
            .map(|_| match draw(8) {
                0 => 0,
                1 => -1,
                2 => -2,
                3 | 4 => 1,
                _ => 1 + draw(40) as i64,
            })
            .collect();
        script.push(1 + draw(9) as i64);
        let ops: Vec<u64> = (0..1 + draw(4)).map(|_| draw(3)).collect();
        v.push(serde_json::json!([draw(2) == 0, script, ops]));
    }
    serde_json::Value::Array(v)
}

pub fn main(args: &[String]) -> i32 {
    let data: Vec<u8> = args.iter().filter_map(|a| a.parse::<u8>().ok()).collect();
    let mut seed = 7u64;
    let specs = hist_gen(
        |n| {
            seed = seed.wrapping_mul(6364136223846793005).wrapping_add(1442695040888963407);
            (seed >> 33) % n.max(1)
        },
        2,
    );
    for (sticky, script, ops) in hist_specs(&specs) {
        let h = drive::<Utf8Decoder>(&data, &script, sticky, &ops, &|e: &io::Error| e.kind() == ErrorKind::InvalidInput);
        let text: Vec<String> = h
            .steps
            .iter()
            .map(|s| match s {
                Step::Item(c) => format!("{:?}", c),
                Step::OwnErr => "err".into(),
            })
            .collect();
        println!("sticky={} script={:?} ops={:?}: {:?} cuts={:?} exhausted={} fail={:?}", sticky, script, ops, text, h.cuts, h.exhausted, h.fail);
    }
    0
}
