//! `snt_harness tool c02sweep`: exhaustive crash / well-formedness sweep of short inputs through the
//! public decoders (all 2-byte strings, all `ESC [` + 2 bytes), each block of 256 strings in the
//! crash-isolating child of the C02 harness.  Prints a JSON summary; used as an `extra` hook of C02.
pub fn main(_args: &[String]) -> i32 {
    crate::registry::c02::sweep_main()
}
