//! `snt_harness tool pty16 --out DIR --seed N --tier quick|thorough [--replay FILE]`
//!
//! C16, terminal object: runs scripted sessions on the real `surf_n_term::SystemTerminal` opened on the
//! slave side of a pseudo-terminal while a peer thread drains the master side at scripted rates
//! (including stalls that fill the kernel buffer, so the library sees short writes and EAGAIN).
//! Writes `sessions.v` (Coq cases for Corr/C16Pty.v) and `sessions.json` into DIR.
//!
//! session JSON: {"mode":"dumb"|"xterm","rates":[[size,sleep_us],..],
//!                "ops":[["w",len,seed],["x",k,arg],["f"],["p",ms],["pn"],["d"],["z",bool],["r",[[size,sleep_us],..]]]}
#[path = "ptyutil.rs"]
mod ptyutil;

use crate::util::*;
use ptyutil::*;
use serde_json::{json, Value};
use std::fmt::Write as _;
use std::io::Write;
use std::time::{Duration, Instant};
use surf_n_term::encoder::{Encoder, TTYEncoder};
use surf_n_term::{Position, SystemTerminal, Terminal, TerminalCommand};

fn payload(len: usize, seed: u64) -> Vec<u8> {
    let mut r = Rng::new(seed);
    // no ESC inside payloads: the peer recognises the device attributes request by its ESC [ c
    (0..len).map(|_| { let b = r.byte(); if b == 0x1b { 0x1a } else { b } }).collect()
}

fn command(k: u64, arg: u64) -> TerminalCommand {
    match k % 7 {
        0 => TerminalCommand::Char(char::from_u32(0x41 + (arg % 26) as u32).unwrap_or('x')),
        1 => TerminalCommand::CursorTo(Position { row: (arg % 200) as usize, col: ((arg / 200) % 300) as usize }),
        2 => TerminalCommand::EraseChars((arg % 500) as usize),
        3 => TerminalCommand::Title(format!("title-{}", arg)),
        4 => TerminalCommand::Raw(payload((arg % 300) as usize, arg)),
        5 => TerminalCommand::CursorMove { row: (arg % 50) as i32 - 25, col: ((arg / 50) % 50) as i32 - 25 },
        _ => TerminalCommand::Scroll((arg % 40) as i32 - 20),
    }
}

fn pack(bytes: &[u8]) -> String {
    let mut s = String::new();
    write!(s, "(Pk {} [", bytes.len()).unwrap();
    let mut first_chunk = true;
    for chunk in bytes.chunks(7 * 1000) {
        if !first_chunk {
            s.push_str(";\n");
        }
        first_chunk = false;
        s.push('[');
        let mut first = true;
        for g in chunk.chunks(7) {
            let mut v: u64 = 0;
            for i in 0..7 {
                v = v * 256 + *g.get(i).unwrap_or(&0) as u64;
            }
            if !first {
                s.push(';');
            }
            first = false;
            write!(s, "{}", v).unwrap();
        }
        s.push(']');
    }
    s.push_str("])");
    s
}

fn rates_of(v: &Value) -> Vec<Rate> {
    v.as_array()
        .map(|a| {
            a.iter()
                .map(|r| Rate { size: r[0].as_u64().unwrap_or(4096) as usize, sleep_us: r[1].as_u64().unwrap_or(0) })
                .collect()
        })
        .unwrap_or_default()
}

pub struct Outcome {
    pub coq: String,
    pub json: Value,
    pub error: Option<String>,
    pub bytes: usize,
    pub short_polls: usize,
    pub drops_discarding: usize,
}

/// run one session; `epilogue`: what dispose emits (from the calibration session), None for the calibration itself
pub fn run_session(sess: &Value, epilogue: Option<&[u8]>) -> Outcome {
    // (epilogue None: take whatever followed the constructor's output)
    let mut out = Outcome { coq: String::new(), json: sess.clone(), error: None, bytes: 0, short_polls: 0, drops_discarding: 0 };
    let mode = sess["mode"].as_str().unwrap_or("dumb").to_string();
    let (master, path) = match open_pty() {
        Ok(x) => x,
        Err(e) => {
            out.error = Some(e);
            return out;
        }
    };
    set_winsize(std::os::fd::AsRawFd::as_raw_fd(&master), 40, 120);
    std::env::set_var("TERM", if mode == "dumb" { "dumb" } else { "xterm-256color" });
    std::env::remove_var("COLORTERM");
    let peer = Peer::spawn(master, vec![Rate { size: 65536, sleep_us: 0 }], true);
    let mut term = match SystemTerminal::open(&path) {
        Ok(t) => t,
        Err(e) => {
            out.error = Some(format!("open failed: {:?}", e));
            let _ = peer.finish();
            return out;
        }
    };
    let caps = term.capabilities().clone();
    let mut enc = TTYEncoder::new(caps);
    // let whatever the constructor queued go out, so the script starts on an empty queue
    let t0 = Instant::now();
    while term.frames_pending() > 0 && t0.elapsed() < Duration::from_secs(5) {
        let _ = term.poll(Some(Duration::from_millis(2)));
    }
    let send0 = term.stats().send;
    if !peer.wait_received(send0, Duration::from_secs(5)) {
        out.error = Some("peer did not receive the constructor's output".into());
    }
    peer.ctl(Ctl::Rates(rates_of(&sess["rates"])));

    let mut sops: Vec<String> = vec![];
    let mut jobs: Vec<Value> = vec![];
    let obs = |term: &SystemTerminal| (term.stats().send, term.frames_pending());
    let do_poll = |term: &mut SystemTerminal, timeout: Option<Duration>, sops: &mut Vec<String>, jobs: &mut Vec<Value>, out: &mut Outcome| {
        let before = term.stats().send;
        let r = term.poll(timeout);
        let (s, p) = (term.stats().send, term.frames_pending());
        if p > 0 && s > before {
            out.short_polls += 1;
        }
        sops.push(format!("SP (Ob {} {})", s, p));
        jobs.push(json!({"op":"p","send":s,"pending":p,"err":r.is_err()}));
    };
    for o in sess["ops"].as_array().map(|a| a.as_slice()).unwrap_or(&[]) {
        let k = o[0].as_str().unwrap_or("");
        match k {
            "w" => {
                let b = payload(o[1].as_u64().unwrap_or(0) as usize, o[2].as_u64().unwrap_or(0));
                // Write::write on the terminal object appends to the queue and reports the whole length
                let _ = term.write(&b);
                out.bytes += b.len();
                let (s, p) = obs(&term);
                sops.push(format!("SW {} (Ob {} {})", pack(&b), s, p));
                jobs.push(json!({"op":"w","len":b.len(),"send":s,"pending":p}));
            }
            "x" => {
                let (ck, arg) = (o[1].as_u64().unwrap_or(0), o[2].as_u64().unwrap_or(0));
                let mut b = vec![];
                let _ = enc.encode(&mut b, command(ck, arg));
                let _ = term.execute(command(ck, arg));
                out.bytes += b.len();
                let (s, p) = obs(&term);
                sops.push(format!("SW {} (Ob {} {})", pack(&b), s, p));
                jobs.push(json!({"op":"x","len":b.len(),"send":s,"pending":p}));
            }
            "f" => {
                let _ = term.flush();
                let (s, p) = obs(&term);
                sops.push(format!("SF (Ob {} {})", s, p));
                jobs.push(json!({"op":"f","send":s,"pending":p}));
            }
            "p" => {
                let ms = o[1].as_u64().unwrap_or(0);
                do_poll(&mut term, Some(Duration::from_millis(ms)), &mut sops, &mut jobs, &mut out);
            }
            "pn" => {
                // infinite timeout: returns once an event is there AND the queue is empty; the peer types a key
                peer.ctl(Ctl::Pause(false));
                peer.ctl(Ctl::Inject(b"k".to_vec()));
                do_poll(&mut term, None, &mut sops, &mut jobs, &mut out);
            }
            "d" => {
                let before = term.frames_pending();
                term.frames_drop();
                let (s, p) = obs(&term);
                if p < before {
                    out.drops_discarding += 1;
                }
                sops.push(format!("SD (Ob {} {})", s, p));
                jobs.push(json!({"op":"d","send":s,"pending":p,"pending_before":before}));
            }
            "z" => peer.ctl(Ctl::Pause(o[1].as_bool().unwrap_or(false))),
            "r" => peer.ctl(Ctl::Rates(rates_of(&o[1]))),
            _ => {}
        }
    }
    // drain before the terminal object is released
    peer.ctl(Ctl::Pause(false));
    let t1 = Instant::now();
    loop {
        do_poll(&mut term, Some(Duration::from_millis(2)), &mut sops, &mut jobs, &mut out);
        if term.frames_pending() == 0 {
            break;
        }
        if t1.elapsed() > Duration::from_secs(20) {
            out.error = Some("queue did not drain in 20 s".into());
            break;
        }
    }
    peer.ctl(Ctl::Rates(vec![Rate { size: 65536, sleep_us: 0 }]));
    drop(term);
    let received = peer.finish();
    let p0 = received[..send0.min(received.len())].to_vec();
    let epi: Vec<u8> = match epilogue {
        Some(e) => e.to_vec(),
        None => received[send0.min(received.len())..].to_vec(), // calibration: nothing else was written
    };
    out.coq = format!("Sess {}\n {}\n {}\n {}", pack(&p0), pack(&epi), clist(sops), pack(&received));
    out.json["impl"] = json!({"send0": send0, "received_len": received.len(), "obs": jobs,
                               "received_head": jbytes(&received[..received.len().min(64)])});
    out
}

fn gen_rates(rng: &mut Rng) -> Vec<Rate> {
    match rng.below(6) {
        0 => vec![Rate { size: 65536, sleep_us: 0 }],
        1 => vec![Rate { size: 4096, sleep_us: 100 }],
        2 => vec![Rate { size: 256 + rng.below(512) as usize, sleep_us: 50 + rng.below(200) }],
        3 => (0..8).map(|_| Rate { size: 1 + rng.below(3000) as usize, sleep_us: rng.below(400) }).collect(),
        4 => vec![Rate { size: 8192, sleep_us: 0 }, Rate { size: 100, sleep_us: 3000 }],
        _ => vec![Rate { size: 1024, sleep_us: 20 }, Rate { size: 7, sleep_us: 0 }, Rate { size: 2048, sleep_us: 500 }],
    }
}

fn rates_json(r: &[Rate]) -> Value {
    Value::Array(r.iter().map(|x| json!([x.size, x.sleep_us])).collect())
}

pub fn gen_session(rng: &mut Rng, budget: usize, idx: usize) -> Value {
    let mode = if idx % 4 == 3 { "xterm" } else { "dumb" };
    let rates = gen_rates(rng);
    let mut ops: Vec<Value> = vec![];
    let mut left = budget;
    let n = 12 + rng.below(30);
    let mut paused = false;
    for _ in 0..n {
        match rng.below(100) {
            0..=34 => {
                let len = match rng.below(10) {
                    0..=3 => 1 + rng.below(300) as usize,
                    4..=6 => 1000 + rng.below(9000) as usize,
                    _ => 20000 + rng.below(120000) as usize,
                }
                ;
                let len = if len > left { 1 + rng.below(200) as usize } else { len };
                left = left.saturating_sub(len);
                ops.push(json!(["w", len, rng.next() % 1000000]));
                if rng.chance(2, 3) {
                    ops.push(json!(["f"]));
                }
            }
            35..=44 => ops.push(json!(["x", rng.below(7), rng.below(100000)])),
            45..=54 => ops.push(json!(["f"])),
            55..=79 => ops.push(json!(["p", if rng.chance(2, 3) { 0 } else { 1 + rng.below(6) }])),
            80..=83 => {
                if !paused {
                    ops.push(json!(["pn"]))
                }
            }
            84..=91 => ops.push(json!(["d"])),
            92..=95 => {
                paused = !paused;
                ops.push(json!(["z", paused]));
            }
            _ => ops.push(json!(["r", rates_json(&gen_rates(rng))])),
        }
    }
    // a burst of frames the tty cannot keep up with, then a drop: the policy of the render loop
    if rng.chance(2, 3) {
        ops.push(json!(["z", true]));
        for _ in 0..(3 + rng.below(5)) {
            let len = 500 + rng.below(6000) as usize;
            left = left.saturating_sub(len);
            ops.push(json!(["w", len, rng.next() % 1000000]));
            ops.push(json!(["p", 0]));
        }
        ops.push(json!(["d"]));
        ops.push(json!(["w", 100, 7]));
        ops.push(json!(["z", false]));
    }
    json!({"mode": mode, "rates": rates_json(&rates), "ops": ops})
}

pub fn main(args: &[String]) -> i32 {
    let mut out = String::new();
    let mut seed = 1u64;
    let mut tier = String::from("quick");
    let mut replay: Option<String> = None;
    let mut i = 0;
    while i + 1 < args.len() + 1 && i < args.len() {
        let v = args.get(i + 1).cloned().unwrap_or_default();
        match args[i].as_str() {
            "--out" => out = v,
            "--seed" => seed = v.parse().unwrap_or(1),
            "--tier" => tier = v,
            "--replay" => replay = Some(v),
            _ => {}
        }
        i += 2;
    }
    if out.is_empty() {
        eprintln!("usage: snt_harness tool pty16 --out DIR [--seed N] [--tier T] [--replay FILE]");
        return 2;
    }
    let _ = std::fs::create_dir_all(&out);
    std::panic::set_hook(Box::new(|_| {}));
    let (count, budget) = if tier == "thorough" { (14, 600_000) } else { (5, 170_000) };
    let sessions: Vec<Value> = match &replay {
        Some(f) => {
            let v: Value = std::fs::read_to_string(f).ok().and_then(|s| serde_json::from_str(&s).ok()).unwrap_or(Value::Null);
            v["sessions"].as_array().cloned().unwrap_or_else(|| vec![v])
        }
        None => {
            let mut rng = Rng::new(seed ^ 0x16161616);
            (0..count).map(|i| gen_session(&mut rng, budget, i)).collect()
        }
    };
    // calibration: what does an idle session emit (constructor output, then dispose's closing sequence)?
    let mut epilogues: std::collections::HashMap<String, Vec<u8>> = Default::default();
    let mut errors: Vec<String> = vec![];
    for mode in ["dumb", "xterm"] {
        if !sessions.iter().any(|s| s["mode"].as_str().unwrap_or("dumb") == mode) {
            continue;
        }
        let _ = std::fs::write(format!("{}/current_session.json", out), json!({"mode": mode, "rates": [[65536, 0]], "ops": [], "calibration": true}).to_string());
        epilogues.insert(mode.to_string(), cal_epilogue(mode));
    }
    let mut coq = String::new();
    writeln!(coq, "From Coq Require Import List NArith Uint63.").unwrap();
    writeln!(coq, "From SNT Require Import Corr.C16Pty.").unwrap();
    writeln!(coq, "Import ListNotations.\nLocal Open Scope uint63_scope.").unwrap();
    writeln!(coq, "Definition sessions : list session := [").unwrap();
    let mut js: Vec<Value> = vec![];
    let mut total = 0usize;
    let mut short_polls = 0usize;
    let mut drops = 0usize;
    for (i, s) in sessions.iter().enumerate() {
        let mode = s["mode"].as_str().unwrap_or("dumb").to_string();
        let _ = std::fs::write(format!("{}/current_session.json", out), s.to_string());
        let r = match std::panic::catch_unwind(std::panic::AssertUnwindSafe(|| run_session(s, epilogues.get(&mode).map(|v| v.as_slice())))) {
            Ok(r) => r,
            Err(_) => Outcome {
                coq: "Sess (Pk 0 []) (Pk 0 []) [] (Pk 0 [])".into(),
                json: s.clone(),
                error: Some("the terminal object panicked".into()),
                bytes: 0,
                short_polls: 0,
                drops_discarding: 0,
            },
        };
        if let Some(e) = &r.error {
            errors.push(format!("session {}: {}", i, e));
        }
        if i != 0 {
            coq.push_str(";\n");
        }
        coq.push_str(&r.coq);
        total += r.bytes;
        short_polls += r.short_polls;
        drops += r.drops_discarding;
        js.push(r.json);
    }
    writeln!(coq, "\n].\nEval vm_compute in (pty_report 0%N sessions).").unwrap();
    let _ = std::fs::write(format!("{}/sessions.v", out), coq);
    let meta = json!({"sessions": js, "errors": errors, "bytes_written": total,
                      "polls_returning_with_output_pending": short_polls, "drops_discarding_frames": drops});
    let _ = std::fs::write(format!("{}/sessions.json", out), serde_json::to_string(&meta).unwrap());
    let _ = std::fs::remove_file(format!("{}/current_session.json", out));
    println!("pty16: {} sessions, {} bytes, {} partial polls, {} discarding drops, {} errors", js.len(), total, short_polls, drops, errors.len());
    if errors.is_empty() {
        0
    } else {
        for e in &errors {
            eprintln!("pty16 error: {}", e);
        }
        3
    }
}

/// dispose's closing sequence, measured on an idle session of the given mode
fn cal_epilogue(mode: &str) -> Vec<u8> {
    let (master, path) = match open_pty() {
        Ok(x) => x,
        Err(_) => return vec![],
    };
    std::env::set_var("TERM", if mode == "dumb" { "dumb" } else { "xterm-256color" });
    std::env::remove_var("COLORTERM");
    let peer = Peer::spawn(master, vec![Rate { size: 65536, sleep_us: 0 }], true);
    let mut term = match SystemTerminal::open(&path) {
        Ok(t) => t,
        Err(_) => {
            let _ = peer.finish();
            return vec![];
        }
    };
    let t0 = Instant::now();
    while term.frames_pending() > 0 && t0.elapsed() < Duration::from_secs(5) {
        let _ = term.poll(Some(Duration::from_millis(2)));
    }
    let send0 = term.stats().send;
    peer.wait_received(send0, Duration::from_secs(5));
    drop(term);
    let received = peer.finish();
    received[send0.min(received.len())..].to_vec()
}
