//! `snt_harness tool pty16 --out DIR --seed N --tier quick|thorough [--replay FILE]`
//!
//! C16, terminal object: runs scripted sessions on the real `surf_n_term::SystemTerminal` opened on the
//! slave side of a pseudo-terminal while a peer thread drains the master side at scripted rates
//! (including stalls that fill the kernel buffer, so the library sees short writes and EAGAIN).
//! Writes `sessions.v` (Coq cases for Corr/C16Pty.v) and `sessions.json` into DIR.
//!
//! session JSON: {"mode":"dumb"|"xterm","rates":[[size,sleep_us],..],
//!                "ops":[["w",len,seed],["x",k,arg],["f"],["p",ms],["pn"],["d"],["z",bool],["r",[[size,sleep_us],..]],
//!                       ["pf",ms,["a","i","z","s100","p"]]   poll under a fault script for the tty writes (verif-hooks):
//!                                                            EAGAIN, EINTR, Ok(0), short write of 100 bytes, pass
//!                       ["drain"]                            poll until the queue is empty
//!                       ["dp",n]                             frames_drop() if frames_pending() > n (the render loop's policy)
//!                       ["img",seed,w,h,row,col],["imge"]    execute(Image / ImageErase) through the image handler],
//!                "end":"drain"|"nodrain", "tee":"/dev/full"}
#[path = "ptyutil.rs"]
mod ptyutil;

use crate::util::*;
use ptyutil::*;
use serde_json::{json, Value};
use std::fmt::Write as _;
use std::io::Write;
use std::time::{Duration, Instant};
use surf_n_term::encoder::{Encoder, TTYEncoder};
use surf_n_term::unix_verif::{self, WriteFault};
use surf_n_term::{Image, ImageHandler, KittyImageHandler, Position, SixelImageHandler, Size, SurfaceOwned, SystemTerminal, Terminal, TerminalCommand, RGBA};

fn payload(len: usize, seed: u64) -> Vec<u8> {
    let mut r = Rng::new(seed);
    // no ESC inside payloads: the peer recognises the device attributes request by its ESC [ c
    (0..len).map(|_| { let b = r.byte(); if b == 0x1b { 0x1a } else { b } }).collect()
}

fn command(k: u64, arg: u64) -> TerminalCommand {
    match k % 7 {
        0 => TerminalCommand::Char(char::from_u32(0x41 + (arg % 26) as u32).unwrap_or('x')),
        1 => TerminalCommand::CursorTo(Position { row: (arg % 200) as usize, col: ((arg / 200) % 300) as usize }),
        2 => TerminalCommand::EraseChars((arg % 500) as usize),
        3 => TerminalCommand::Title(format!("title-{}", arg)),
        4 => TerminalCommand::Raw(payload((arg % 300) as usize, arg)),
        5 => TerminalCommand::CursorMove { row: (arg % 50) as i32 - 25, col: ((arg / 50) % 50) as i32 - 25 },
        _ => TerminalCommand::Scroll((arg % 40) as i32 - 20),
    }
}

fn pack(bytes: &[u8]) -> String {
    let mut s = String::new();
    write!(s, "(Pk {} [", bytes.len()).unwrap();
    let mut first_chunk = true;
    for chunk in bytes.chunks(7 * 1000) {
        if !first_chunk {
            s.push_str(";\n");
        }
        first_chunk = false;
        s.push('[');
        let mut first = true;
        for g in chunk.chunks(7) {
            let mut v: u64 = 0;
            for i in 0..7 {
                v = v * 256 + *g.get(i).unwrap_or(&0) as u64;
            }
            if !first {
                s.push(';');
            }
            first = false;
            write!(s, "{}", v).unwrap();
        }
        s.push(']');
    }
    s.push_str("])");
    s
}

fn rates_of(v: &Value) -> Vec<Rate> {
    v.as_array()
        .map(|a| {
            a.iter()
                .map(|r| Rate { size: r[0].as_u64().unwrap_or(4096) as usize, sleep_us: r[1].as_u64().unwrap_or(0) })
                .collect()
        })
        .unwrap_or_default()
}

pub struct Outcome {
    pub coq: String,
    pub json: Value,
    pub error: Option<String>,
    pub bytes: usize,
    pub short_polls: usize,
    pub drops_discarding: usize,
    pub drops_partial_front: usize,
    pub image_bytes: usize,
    pub disposed_pending: usize,
}

/// what the queue looks like, kept only to count how often a drop found the front chunk partly sent
#[derive(Default)]
struct Shadow {
    chunks: std::collections::VecDeque<usize>,
    front_sent: usize,
}

impl Shadow {
    fn write(&mut self, n: usize) {
        if self.chunks.is_empty() {
            self.chunks.push_back(0);
        }
        *self.chunks.back_mut().unwrap() += n;
    }
    fn flush(&mut self) {
        if self.chunks.back().is_some_and(|c| *c > 0) {
            self.chunks.push_back(0);
        }
    }
    fn polled(&mut self, mut sent: usize, pending: usize) {
        while sent > 0 {
            let Some(front) = self.chunks.front().copied() else { break };
            let rem = front - self.front_sent.min(front);
            if sent >= rem {
                sent -= rem;
                self.chunks.pop_front();
                self.front_sent = 0;
            } else {
                self.front_sent += sent;
                sent = 0;
            }
        }
        while self.chunks.len() > pending && self.chunks.front() == Some(&0) {
            self.chunks.pop_front();
        }
    }
    fn drop_frames(&mut self) -> bool {
        let partial = self.front_sent > 0 && self.chunks.len() > 1;
        self.chunks.truncate(1);
        partial
    }
}

fn parse_faults(v: &Value) -> Vec<WriteFault> {
    v.as_array()
        .map(|a| {
            a.iter()
                .filter_map(|x| x.as_str())
                .map(|x| match x.as_bytes().first() {
                    Some(b'a') => WriteFault::WouldBlock,
                    Some(b'i') => WriteFault::Interrupted,
                    Some(b'z') => WriteFault::Zero,
                    Some(b's') => WriteFault::Short(x[1..].parse().unwrap_or(1)),
                    _ => WriteFault::Pass,
                })
                .collect()
        })
        .unwrap_or_default()
}

fn image(seed: u64, w: usize, h: usize) -> Image {
    let mut r = Rng::new(seed);
    Image::from(SurfaceOwned::new_with(Size::new(h.max(1), w.max(1)), |_| {
        let v = r.next();
        RGBA::new(v as u8, (v >> 8) as u8, (v >> 16) as u8, 255)
    }))
}

/// run one session; `epilogue`: what dispose emits (from the calibration session), None for the calibration itself
pub fn run_session(sess: &Value, epilogue: Option<&[u8]>) -> Outcome {
    // (epilogue None: take whatever followed the constructor's output)
    let mut out = Outcome { coq: String::new(), json: sess.clone(), error: None, bytes: 0, short_polls: 0, drops_discarding: 0, drops_partial_front: 0, image_bytes: 0, disposed_pending: 0 };
    let mode = sess["mode"].as_str().unwrap_or("dumb").to_string();
    let (master, path) = match open_pty() {
        Ok(x) => x,
        Err(e) => {
            out.error = Some(e);
            return out;
        }
    };
    set_winsize(std::os::fd::AsRawFd::as_raw_fd(&master), 40, 120);
    std::env::set_var("TERM", if mode == "dumb" { "dumb" } else { "xterm-256color" });
    std::env::remove_var("COLORTERM");
    let peer = Peer::spawn(master, vec![Rate { size: 65536, sleep_us: 0 }], true);
    let mut term = match SystemTerminal::open(&path) {
        Ok(t) => t,
        Err(e) => {
            out.error = Some(format!("open failed: {:?}", e));
            let _ = peer.finish();
            return out;
        }
    };
    let caps = term.capabilities().clone();
    let mut enc = TTYEncoder::new(caps);
    if let Some(t) = sess["tee"].as_str() {
        let _ = term.duplicate_output(t);
    }
    // a twin of the terminal object's image handler: it sees the same draw / erase calls and says what bytes
    // they put into the queue
    let sixel = format!("{:?}", term.image_handler().kind()) == "Sixel";
    let mut twin: Box<dyn ImageHandler> = match format!("{:?}", term.image_handler().kind()).as_str() {
        "Kitty" => Box::new(KittyImageHandler::new()),
        "Sixel" => Box::new(SixelImageHandler::new(None)),
        _ => Box::new(surf_n_term::image::DummyImageHandler),
    };
    let mut last_img: Option<(Image, Position)> = None;
    let mut shadow = Shadow::default();
    // let whatever the constructor queued go out, so the script starts on an empty queue
    let t0 = Instant::now();
    while term.frames_pending() > 0 && t0.elapsed() < Duration::from_secs(5) {
        let _ = term.poll(Some(Duration::from_millis(2)));
    }
    let send0 = term.stats().send;
    if !peer.wait_received(send0, Duration::from_secs(5)) {
        out.error = Some("peer did not receive the constructor's output".into());
    }
    peer.ctl(Ctl::Rates(rates_of(&sess["rates"])));

    let mut sops: Vec<String> = vec![];
    let mut jobs: Vec<Value> = vec![];
    let obs = |term: &SystemTerminal| (term.stats().send, term.frames_pending());
    let do_poll = |term: &mut SystemTerminal, timeout: Option<Duration>, sops: &mut Vec<String>, jobs: &mut Vec<Value>, out: &mut Outcome, shadow: &mut Shadow| {
        let before = term.stats().send;
        shadow.flush();
        let r = term.poll(timeout);
        let (s, p) = (term.stats().send, term.frames_pending());
        shadow.polled(s - before, p);
        if p > 0 && s > before {
            out.short_polls += 1;
        }
        sops.push(format!("SP (Ob {} {})", s, p));
        jobs.push(json!({"op":"p","send":s,"pending":p,"err":r.is_err()}));
    };
    for o in sess["ops"].as_array().map(|a| a.as_slice()).unwrap_or(&[]) {
        let k = o[0].as_str().unwrap_or("");
        match k {
            "w" => {
                let b = payload(o[1].as_u64().unwrap_or(0) as usize, o[2].as_u64().unwrap_or(0));
                // Write::write on the terminal object appends to the queue and reports the whole length
                let _ = term.write(&b);
                shadow.write(b.len());
                out.bytes += b.len();
                let (s, p) = obs(&term);
                sops.push(format!("SW {} (Ob {} {})", pack(&b), s, p));
                jobs.push(json!({"op":"w","len":b.len(),"send":s,"pending":p}));
            }
            "x" => {
                let (ck, arg) = (o[1].as_u64().unwrap_or(0), o[2].as_u64().unwrap_or(0));
                let mut b = vec![];
                let _ = enc.encode(&mut b, command(ck, arg));
                let _ = term.execute(command(ck, arg));
                shadow.write(b.len());
                out.bytes += b.len();
                let (s, p) = obs(&term);
                sops.push(format!("SW {} (Ob {} {})", pack(&b), s, p));
                jobs.push(json!({"op":"x","len":b.len(),"send":s,"pending":p}));
            }
            "f" => {
                let _ = term.flush();
                shadow.flush();
                let (s, p) = obs(&term);
                sops.push(format!("SF (Ob {} {})", s, p));
                jobs.push(json!({"op":"f","send":s,"pending":p}));
            }
            "p" => {
                let ms = o[1].as_u64().unwrap_or(0);
                do_poll(&mut term, Some(Duration::from_millis(ms)), &mut sops, &mut jobs, &mut out, &mut shadow);
            }
            "pn" => {
                // infinite timeout: returns once an event is there AND the queue is empty; the peer types a key
                peer.ctl(Ctl::Pause(false));
                peer.ctl(Ctl::Inject(b"k".to_vec()));
                do_poll(&mut term, None, &mut sops, &mut jobs, &mut out, &mut shadow);
            }
            "drain" => {
                // poll until nothing is queued (the peer is reading)
                let t0 = Instant::now();
                while term.frames_pending() > 0 && t0.elapsed() < Duration::from_secs(5) {
                    do_poll(&mut term, Some(Duration::from_millis(2)), &mut sops, &mut jobs, &mut out, &mut shadow);
                }
            }
            "pf" => {
                let ms = o[1].as_u64().unwrap_or(0);
                unix_verif::set_write_script(parse_faults(&o[2]));
                do_poll(&mut term, Some(Duration::from_millis(ms)), &mut sops, &mut jobs, &mut out, &mut shadow);
                unix_verif::set_write_script(vec![]);
            }
            "img" | "imge" => {
                let mut b = vec![];
                if k == "img" {
                    let img = image(o[1].as_u64().unwrap_or(0), o[2].as_u64().unwrap_or(4) as usize, o[3].as_u64().unwrap_or(4) as usize);
                    let pos = Position { row: o[4].as_u64().unwrap_or(0) as usize, col: o[5].as_u64().unwrap_or(0) as usize };
                    if sixel {
                        // the sixel encoder walks a HashMap (one RandomState per handler object): two handlers
                        // encode the same picture with the colour layers in different order, so a twin cannot
                        // predict the bytes.  The terminal's own handler encodes once and caches by image hash:
                        // its first encoding is the reference, `execute` then queues the cached copy.
                        let _ = term.image_handler().draw(&mut b, &img, pos);
                    } else {
                        let _ = twin.draw(&mut b, &img, pos);
                    }
                    let _ = term.execute(TerminalCommand::Image(img.clone(), pos));
                    last_img = Some((img, pos));
                } else if let Some((img, pos)) = last_img.take() {
                    let _ = twin.erase(&mut b, &img, Some(pos));
                    let _ = term.execute(TerminalCommand::ImageErase(img, Some(pos)));
                }
                shadow.write(b.len());
                out.bytes += b.len();
                out.image_bytes += b.len();
                let (s, p) = obs(&term);
                sops.push(format!("SW {} (Ob {} {})", pack(&b), s, p));
                jobs.push(json!({"op":k,"len":b.len(),"send":s,"pending":p}));
            }
            "d" | "dp" => {
                let before = term.frames_pending();
                if k == "dp" && before <= o[1].as_u64().unwrap_or(32) as usize {
                    continue;
                }
                term.frames_drop();
                if shadow.drop_frames() {
                    out.drops_partial_front += 1;
                }
                let (s, p) = obs(&term);
                if p < before {
                    out.drops_discarding += 1;
                }
                sops.push(format!("SD (Ob {} {})", s, p));
                jobs.push(json!({"op":"d","send":s,"pending":p,"pending_before":before}));
            }
            "z" => peer.pause(o[1].as_bool().unwrap_or(false)),
            "r" => peer.ctl(Ctl::Rates(rates_of(&o[1]))),
            _ => {}
        }
    }
    // drain before the terminal object is released (unless the session ends with output pending: then
    // dispose has to get the chunk in flight and the closing sequence out by itself)
    peer.ctl(Ctl::Pause(false));
    let t1 = Instant::now();
    let nodrain = sess["end"].as_str() == Some("nodrain");
    if nodrain {
        peer.ctl(Ctl::Rates(vec![Rate { size: 65536, sleep_us: 0 }]));
        std::thread::sleep(Duration::from_millis(5));
    }
    while !nodrain {
        do_poll(&mut term, Some(Duration::from_millis(2)), &mut sops, &mut jobs, &mut out, &mut shadow);
        if term.frames_pending() == 0 {
            break;
        }
        if t1.elapsed() > Duration::from_secs(6) {
            out.error = Some("queue did not drain in 6 s".into());
            break;
        }
    }
    peer.ctl(Ctl::Rates(vec![Rate { size: 65536, sleep_us: 0 }]));
    if term.frames_pending() > 0 {
        out.disposed_pending += 1;
    }
    drop(term);
    let mut received = peer.finish();
    if received.len() > 4 * out.bytes + (1 << 16) {
        // runaway duplication: keep the case file small, the session is a failing input anyway
        out.error = Some(format!("the tty received {} bytes although only {} were written", received.len(), out.bytes));
        received.truncate(4096);
    }
    let p0 = received[..send0.min(received.len())].to_vec();
    let epi: Vec<u8> = match epilogue {
        Some(e) => e.to_vec(),
        None => received[send0.min(received.len())..].to_vec(), // calibration: nothing else was written
    };
    out.coq = format!("Sess {}\n {}\n {}\n {}", pack(&p0), pack(&epi), clist(sops), pack(&received));
    out.json["impl"] = json!({"send0": send0, "received_len": received.len(), "obs": jobs,
                               "received_head": jbytes(&received[..received.len().min(64)])});
    out
}

fn gen_rates(rng: &mut Rng) -> Vec<Rate> {
    match rng.below(6) {
        0 => vec![Rate { size: 65536, sleep_us: 0 }],
        1 => vec![Rate { size: 4096, sleep_us: 100 }],
        2 => vec![Rate { size: 256 + rng.below(512) as usize, sleep_us: 50 + rng.below(200) }],
        3 => (0..8).map(|_| Rate { size: 1 + rng.below(3000) as usize, sleep_us: rng.below(400) }).collect(),
        4 => vec![Rate { size: 8192, sleep_us: 0 }, Rate { size: 100, sleep_us: 3000 }],
        _ => vec![Rate { size: 1024, sleep_us: 20 }, Rate { size: 7, sleep_us: 0 }, Rate { size: 2048, sleep_us: 500 }],
    }
}

fn rates_json(r: &[Rate]) -> Value {
    Value::Array(r.iter().map(|x| json!([x.size, x.sleep_us])).collect())
}

fn gen_faults(rng: &mut Rng) -> Value {
    let n = 1 + rng.below(6);
    Value::Array(
        (0..n)
            .map(|_| match rng.below(6) {
                0 => json!("a"),
                1 => json!("i"),
                2 => json!("z"),
                3 => json!(format!("s{}", 1 + rng.below(300))),
                4 => json!(format!("s{}", 1000 + rng.below(5000))),
                _ => json!("p"),
            })
            .collect(),
    )
}

/// the render loop of terminal.rs: poll; if more than 32 frames are pending drop them; write the next frame
fn gen_render_session(rng: &mut Rng) -> Value {
    let mut ops: Vec<Value> = vec![];
    ops.push(json!(["w", 3000 + rng.below(6000), rng.next() % 1000000]));
    ops.push(json!(["pf", 0, ["s700"]])); // the first frame is in flight, partly sent
    ops.push(json!(["z", true]));
    let frames = 36 + rng.below(8);
    for i in 0..frames {
        ops.push(json!(["p", 0]));
        ops.push(json!(["dp", 32]));
        ops.push(json!(["w", 20 + rng.below(400), rng.next() % 1000000]));
        if i == frames / 2 {
            ops.push(json!(["pf", 0, ["a", "i"]]));
        }
    }
    ops.push(json!(["z", false]));
    ops.push(json!(["p", 3]));
    json!({"mode": "dumb", "rates": [[4096, 50]], "ops": ops, "end": if rng.chance(1, 2) { "nodrain" } else { "drain" }})
}

pub fn gen_session(rng: &mut Rng, budget: usize, idx: usize) -> Value {
    if idx % 5 == 2 {
        return gen_render_session(rng);
    }
    let mode = if idx % 5 == 3 { "xterm" } else { "dumb" };
    let rates = gen_rates(rng);
    let mut ops: Vec<Value> = vec![];
    let mut left = budget;
    // every session starts with a frame that goes out under a fault script: EAGAIN, EINTR, Ok(0) and a short
    // write hit a non-empty front slice, then a drop finds the front chunk partly sent
    ops.push(json!(["w", 2000 + rng.below(3000), rng.next() % 1000000]));
    ops.push(json!(["f"]));
    ops.push(json!(["w", 100 + rng.below(300), rng.next() % 1000000]));
    ops.push(json!(["pf", 0, ["a"]]));
    ops.push(json!(["pf", 0, ["i"]]));
    ops.push(json!(["pf", 0, ["z"]]));
    ops.push(json!(["pf", 2, ["s150", "a", "s1", "z", "i", "s40"]]));
    // by construction (no draw of the generator involved): a poll that returns with output pending, and a drop
    // that finds the chunk in flight partly sent - one round, a short write of 150 bytes of a fresh 3000 byte frame
    ops.push(json!(["drain"]));
    ops.push(json!(["w", 3000, 12]));
    ops.push(json!(["f"]));
    ops.push(json!(["pf", 0, ["s150"]]));
    ops.push(json!(["w", 50, 11]));
    ops.push(json!(["f"]));
    ops.push(json!(["d"]));
    if mode == "xterm" {
        // the image handler's draw and erase paths, in every run
        ops.push(json!(["img", 4242, 24, 12, 3, 5]));
        ops.push(json!(["imge"]));
    }
    let n = 12 + rng.below(30);
    let mut paused = false;
    for _ in 0..n {
        match rng.below(100) {
            0..=34 => {
                let len = match rng.below(10) {
                    0..=3 => 1 + rng.below(300) as usize,
                    4..=6 => 1000 + rng.below(9000) as usize,
                    _ => 20000 + rng.below(120000) as usize,
                }
                ;
                let len = if len > left { 1 + rng.below(200) as usize } else { len };
                left = left.saturating_sub(len);
                ops.push(json!(["w", len, rng.next() % 1000000]));
                if rng.chance(2, 3) {
                    ops.push(json!(["f"]));
                }
            }
            35..=41 => ops.push(json!(["x", rng.below(7), rng.below(100000)])),
            42..=44 => {
                if mode == "xterm" {
                    ops.push(json!(["img", rng.next() % 100000, 2 + rng.below(60), 2 + rng.below(40), rng.below(30), rng.below(80)]));
                    if rng.chance(1, 3) {
                        ops.push(json!(["imge"]));
                    }
                } else {
                    ops.push(json!(["x", rng.below(7), rng.below(100000)]));
                }
            }
            45..=54 => ops.push(json!(["f"])),
            55..=72 => ops.push(json!(["p", if rng.chance(2, 3) { 0 } else { 1 + rng.below(6) }])),
            73..=79 => ops.push(json!(["pf", rng.below(4), gen_faults(rng)])),
            80..=83 => {
                if !paused {
                    ops.push(json!(["pn"]))
                }
            }
            84..=91 => ops.push(json!(["d"])),
            92..=95 => {
                paused = !paused;
                ops.push(json!(["z", paused]));
            }
            _ => ops.push(json!(["r", rates_json(&gen_rates(rng))])),
        }
    }
    // a burst of frames the tty cannot keep up with, then a drop: the policy of the render loop
    if rng.chance(2, 3) {
        ops.push(json!(["z", true]));
        for _ in 0..(3 + rng.below(5)) {
            let len = 500 + rng.below(6000) as usize;
            left = left.saturating_sub(len);
            ops.push(json!(["w", len, rng.next() % 1000000]));
            ops.push(json!(["p", 0]));
        }
        ops.push(json!(["d"]));
        ops.push(json!(["w", 100, 7]));
        ops.push(json!(["z", false]));
    }
    let draw = rng.chance(1, 3);
    let end = if draw || idx % 5 == 0 { "nodrain" } else { "drain" };
    if idx % 5 == 0 {
        // in every run: the terminal object is released with two chunks queued that no poll has seen
        ops.push(json!(["w", 40000, 9]));
        ops.push(json!(["f"]));
        ops.push(json!(["w", 100, 10]));
    }
    json!({"mode": mode, "rates": rates_json(&rates), "ops": ops, "end": end})
}

pub fn main(args: &[String]) -> i32 {
    let mut out = String::new();
    let mut seed = 1u64;
    let mut tier = String::from("quick");
    let mut replay: Option<String> = None;
    let mut i = 0;
    while i + 1 < args.len() + 1 && i < args.len() {
        let v = args.get(i + 1).cloned().unwrap_or_default();
        match args[i].as_str() {
            "--out" => out = v,
            "--seed" => seed = v.parse().unwrap_or(1),
            "--tier" => tier = v,
            "--replay" => replay = Some(v),
            _ => {}
        }
        i += 2;
    }
    if out.is_empty() {
        eprintln!("usage: snt_harness tool pty16 --out DIR [--seed N] [--tier T] [--replay FILE]");
        return 2;
    }
    let _ = std::fs::create_dir_all(&out);
    std::panic::set_hook(Box::new(|_| {}));
    let (count, budget) = if tier == "thorough" { (14, 600_000) } else { (5, 120_000) };
    let sessions: Vec<Value> = match &replay {
        Some(f) => {
            let v: Value = std::fs::read_to_string(f).ok().and_then(|s| serde_json::from_str(&s).ok()).unwrap_or(Value::Null);
            v["sessions"].as_array().cloned().unwrap_or_else(|| vec![v])
        }
        None => {
            let mut rng = Rng::new(seed ^ 0x16161616);
            let mut v: Vec<Value> = (0..count).map(|i| gen_session(&mut rng, budget, i)).collect();
            // the debugging tee on a device that fails every write: the output must still arrive exactly once
            v.push(json!({"mode": "dumb", "rates": [[4096, 100]], "tee": "/dev/full", "end": "drain",
                          "ops": [["w", 30000, 5], ["f"], ["p", 0], ["p", 1], ["w", 20000, 6], ["p", 2], ["p", 0]]}));
            v
        }
    };
    // the image handler of sessions with an xterm-like TERM (read once per process by the crate): kitty at odd
    // seeds, sixel at even ones; recorded in the session so that a replay runs with the same handler
    let mut sessions = sessions;
    let recorded = sessions.iter().find_map(|s| s["image"].as_str().map(String::from));
    let kind = recorded.unwrap_or_else(|| String::from(if seed % 2 == 1 { "kitty" } else { "sixel" }));
    for s in sessions.iter_mut() {
        if s["mode"].as_str() == Some("xterm") {
            s["image"] = json!(kind);
        }
    }
    std::env::set_var("SURFNTERM", format!("image={}", kind));
    // calibration: what does an idle session emit (constructor output, then dispose's closing sequence)?
    let mut epilogues: std::collections::HashMap<String, Vec<u8>> = Default::default();
    let mut errors: Vec<String> = vec![];
    for mode in ["dumb", "xterm"] {
        if !sessions.iter().any(|s| s["mode"].as_str().unwrap_or("dumb") == mode) {
            continue;
        }
        let _ = std::fs::write(format!("{}/current_session.json", out), json!({"mode": mode, "rates": [[65536, 0]], "ops": [], "calibration": true}).to_string());
        epilogues.insert(mode.to_string(), cal_epilogue(mode));
    }
    let mut coq = String::new();
    writeln!(coq, "From Coq Require Import List NArith Uint63.").unwrap();
    writeln!(coq, "From SNT Require Import Corr.C16Pty.").unwrap();
    writeln!(coq, "Import ListNotations.\nLocal Open Scope uint63_scope.").unwrap();
    writeln!(coq, "Definition sessions : list session := [").unwrap();
    let mut js: Vec<Value> = vec![];
    let mut total = 0usize;
    let mut short_polls = 0usize;
    let mut drops = 0usize;
    let mut partial_drops = 0usize;
    let mut image_bytes = 0usize;
    let mut disposed_pending = 0usize;
    let faults0 = unix_verif::write_fault_counts();
    for (i, s) in sessions.iter().enumerate() {
        let mode = s["mode"].as_str().unwrap_or("dumb").to_string();
        let _ = std::fs::write(format!("{}/current_session.json", out), s.to_string());
        let r = match std::panic::catch_unwind(std::panic::AssertUnwindSafe(|| run_session(s, epilogues.get(&mode).map(|v| v.as_slice())))) {
            Ok(r) => r,
            Err(_) => Outcome {
                coq: "Sess (Pk 0 []) (Pk 0 []) [] (Pk 0 [])".into(),
                json: s.clone(),
                error: Some("the terminal object panicked".into()),
                bytes: 0,
                short_polls: 0,
                drops_discarding: 0,
                drops_partial_front: 0,
                image_bytes: 0,
                disposed_pending: 0,
            },
        };
        if let Some(e) = &r.error {
            errors.push(format!("session {}: {}", i, e));
        }
        if i != 0 {
            coq.push_str(";\n");
        }
        coq.push_str(&r.coq);
        total += r.bytes;
        short_polls += r.short_polls;
        drops += r.drops_discarding;
        partial_drops += r.drops_partial_front;
        image_bytes += r.image_bytes;
        disposed_pending += r.disposed_pending;
        js.push(r.json);
    }
    writeln!(coq, "\n].\nEval vm_compute in (pty_report 0%N sessions).").unwrap();
    let _ = std::fs::write(format!("{}/sessions.v", out), coq);
    let f1 = unix_verif::write_fault_counts();
    let meta = json!({"sessions": js, "errors": errors, "bytes_written": total,
                      "polls_returning_with_output_pending": short_polls, "drops_discarding_frames": drops,
                      "drops_with_front_chunk_partly_sent": partial_drops, "image_bytes": image_bytes, "sessions_released_with_output_pending": disposed_pending,
                      "forced_short_writes": f1[0] - faults0[0], "forced_zero_byte_writes": f1[1] - faults0[1],
                      "forced_eagain": f1[2] - faults0[2], "forced_eintr": f1[3] - faults0[3]});
    let _ = std::fs::write(format!("{}/sessions.json", out), serde_json::to_string(&meta).unwrap());
    let _ = std::fs::remove_file(format!("{}/current_session.json", out));
    println!(
        "pty16: {} sessions, {} bytes ({} through the image handler), {} partial polls, {} discarding drops ({} with the front chunk partly sent), forced short/zero/EAGAIN/EINTR writes {}/{}/{}/{}, {} errors",
        js.len(), total, image_bytes, short_polls, drops, partial_drops, f1[0] - faults0[0], f1[1] - faults0[1], f1[2] - faults0[2], f1[3] - faults0[3], errors.len()
    );
    if errors.is_empty() {
        0
    } else {
        for e in &errors {
            eprintln!("pty16 error: {}", e);
        }
        3
    }
}

/// dispose's closing sequence, measured on an idle session of the given mode
fn cal_epilogue(mode: &str) -> Vec<u8> {
    let (master, path) = match open_pty() {
        Ok(x) => x,
        Err(_) => return vec![],
    };
    std::env::set_var("TERM", if mode == "dumb" { "dumb" } else { "xterm-256color" });
    std::env::remove_var("COLORTERM");
    let peer = Peer::spawn(master, vec![Rate { size: 65536, sleep_us: 0 }], true);
    let mut term = match SystemTerminal::open(&path) {
        Ok(t) => t,
        Err(_) => {
            let _ = peer.finish();
            return vec![];
        }
    };
    let t0 = Instant::now();
    while term.frames_pending() > 0 && t0.elapsed() < Duration::from_secs(5) {
        let _ = term.poll(Some(Duration::from_millis(2)));
    }
    let send0 = term.stats().send;
    peer.wait_received(send0, Duration::from_secs(5));
    drop(term);
    let received = peer.finish();
    received[send0.min(received.len())..].to_vec()
}
