//! C07: chains of view/transpose over owned and borrowed surfaces, then a battery of
//! reads and mutations through the resulting view.
use crate::util::*;
use serde_json::{json, Value};
use surf_n_term::surface::ViewBounds;
use surf_n_term::surface::{SurfaceMutView, SurfaceView};
use surf_n_term::{Position, Size, Surface, SurfaceMut, SurfaceOwned};

#[derive(Clone, Debug)]
pub enum Sel {
    Idx(i64),
    Rng(i64, i64),
    From(i64),
    To(i64),
    RngI(i64, i64),
    ToI(i64),
    Full,
}

impl ViewBounds for Sel {
    fn view_bounds(self, size: usize) -> Option<(usize, usize)> {
        match self {
            Sel::Idx(i) => i.view_bounds(size),
            Sel::Rng(a, b) => (a..b).view_bounds(size),
            Sel::From(a) => (a..).view_bounds(size),
            Sel::To(b) => (..b).view_bounds(size),
            Sel::RngI(a, b) => (a..=b).view_bounds(size),
            Sel::ToI(b) => (..=b).view_bounds(size),
            Sel::Full => (..).view_bounds(size),
        }
    }
}

impl Sel {
    pub fn coq(&self) -> String {
        match self {
            Sel::Idx(i) => format!("(Idx {})", cz(*i as i128)),
            Sel::Rng(a, b) => format!("(Rng {} {})", cz(*a as i128), cz(*b as i128)),
            Sel::From(a) => format!("(From {})", cz(*a as i128)),
            Sel::To(b) => format!("(To {})", cz(*b as i128)),
            Sel::RngI(a, b) => format!("(RngI {} {})", cz(*a as i128), cz(*b as i128)),
            Sel::ToI(b) => format!("(ToI {})", cz(*b as i128)),
            Sel::Full => "Full".to_string(),
        }
    }
    pub fn json(&self) -> Value {
        match self {
            Sel::Idx(i) => json!({"f":"idx","a":i}),
            Sel::Rng(a, b) => json!({"f":"rng","a":a,"b":b}),
            Sel::From(a) => json!({"f":"from","a":a}),
            Sel::To(b) => json!({"f":"to","b":b}),
            Sel::RngI(a, b) => json!({"f":"rngi","a":a,"b":b}),
            Sel::ToI(b) => json!({"f":"toi","b":b}),
            Sel::Full => json!({"f":"full"}),
        }
    }
    pub fn from_json(v: &Value) -> Sel {
        let a = v["a"].as_i64().unwrap_or(0);
        let b = v["b"].as_i64().unwrap_or(0);
        match v["f"].as_str().unwrap_or("full") {
            "idx" => Sel::Idx(a),
            "rng" => Sel::Rng(a, b),
            "from" => Sel::From(a),
            "to" => Sel::To(b),
            "rngi" => Sel::RngI(a, b),
            "toi" => Sel::ToI(b),
            _ => Sel::Full,
        }
    }
    pub fn random(rng: &mut Rng, dim: usize) -> Sel {
        let d = dim as i64;
        if d >= 1 && rng.chance(17, 20) {
            // a selector that keeps a non-empty part, bounds written positively or negatively
            let a = rng.range(0, d - 1);
            let b = rng.range(a + 1, d);
            let wa = if rng.chance(1, 3) { a - d } else { a };
            let wb = if rng.chance(1, 3) && b < d { b - d } else { b };
            return match rng.below(7) {
                0 => Sel::Idx(wa),
                1 | 2 => Sel::Rng(wa, wb),
                3 => Sel::From(wa),
                4 => Sel::To(wb),
                5 => Sel::RngI(wa, if rng.chance(1, 2) { b - 1 } else { b - 1 - d }),
                _ => Sel::ToI(if rng.chance(1, 2) { b - 1 } else { b - 1 - d }),
            };
        }
        let mut v = |rng: &mut Rng| -> i64 {
            match rng.below(8) {
                0 => rng.range(-d - 2, d + 2),
                1 => 0,
                2 => -1,
                3 => d,
                4 => i64::MAX - rng.below(2) as i64,
                5 => i64::MIN + rng.below(2) as i64,
                _ => rng.range(-d, d),
            }
        };
        match rng.below(10) {
            0 => Sel::Idx(v(rng)),
            1 | 2 | 3 => Sel::Rng(v(rng), v(rng)),
            4 => Sel::From(v(rng)),
            5 => Sel::To(v(rng)),
            6 => Sel::RngI(v(rng), v(rng)),
            7 => Sel::ToI(v(rng)),
            _ => Sel::Full,
        }
    }
}

#[derive(Clone, Debug)]
pub enum Op {
    View(Sel, Sel),
    T,
}

type Dyn<'a> = Box<dyn SurfaceMut<Item = u64> + 'a>;

fn build<'a>(base: Dyn<'a>, ops: &[Op]) -> Dyn<'a> {
    let mut cur = base;
    for op in ops {
        cur = match op {
            Op::View(r, c) => Box::new(cur.view_owned(r.clone(), c.clone())),
            Op::T => Box::new(cur.transpose()),
        };
    }
    cur
}

fn fresh(h: usize, w: usize) -> SurfaceOwned<u64> {
    let mut k = 0u64;
    SurfaceOwned::new_with(Size::new(h, w), |_| {
        k += 1;
        k
    })
}

fn fw(pos: Position, v: u64) -> u64 {
    v + 1000 * (pos.row as u64 + 1) + 100000 * (pos.col as u64 + 1)
}

struct Obs {
    shape: Vec<u64>,
    empty: bool,
    it: Vec<u64>,
    gets: Vec<u64>,
    muts: Vec<u64>,
    fil: Vec<u64>,
    filw: Vec<u64>,
    ins: Vec<u64>,
    mp: Vec<u64>,
    clr: Vec<u64>,
    getm: Vec<u64>,
    setv: Vec<u64>,
    nthv: Vec<u64>,
    wpos: Vec<u64>,
    progr: Vec<u64>,
    progm: Vec<u64>,
}

fn flat(r: Option<Vec<u64>>) -> Vec<u64> {
    match r {
        Some(mut v) => {
            v.insert(0, 1);
            v
        }
        None => vec![0],
    }
}

type DynRo<'a> = Box<dyn Surface<Item = u64> + 'a>;

fn build_ro<'a>(base: DynRo<'a>, ops: &[Op]) -> DynRo<'a> {
    let mut cur = base;
    for op in ops {
        cur = match op {
            Op::View(r, c) => Box::new(cur.view_owned(r.clone(), c.clone())),
            Op::T => Box::new(cur.transpose()),
        };
    }
    cur
}

/// one call on an iterator that is kept between the calls (iterator programs)
#[derive(Clone, Copy, Debug)]
enum IStep {
    Nth(usize),  // it.nth(j)
    Skip(usize), // it.by_ref().skip(j).next(): std maps it to nth(j)
    Next,
    Take(usize), // it.by_ref().take(j), collected
    Pos,         // it.position()
    Idx,         // it.index()
    With,        // it = it.with_position(): at most once; afterwards only Next / Rest are asked
    Rest,        // everything that is left
}

fn prog_of(v: &Value) -> Vec<IStep> {
    v.as_array()
        .map(|a| {
            a.iter()
                .filter_map(|s| {
                    let j = s[1].as_u64().unwrap_or(0) as usize;
                    Some(match s[0].as_str()? {
                        "nth" => IStep::Nth(j),
                        "skip" => IStep::Skip(j),
                        "next" => IStep::Next,
                        "take" => IStep::Take(j),
                        "pos" => IStep::Pos,
                        "idx" => IStep::Idx,
                        "with" => IStep::With,
                        "rest" => IStep::Rest,
                        _ => return None,
                    })
                })
                .collect()
        })
        .unwrap_or_default()
}

fn prog_coq(prog: &[IStep]) -> String {
    clist(prog.iter().map(|s| match s {
        IStep::Nth(j) | IStep::Skip(j) => format!("(INth {})", cnat(*j)),
        IStep::Next => "INext".to_string(),
        IStep::Take(j) => format!("(ITake {})", cnat(*j)),
        IStep::Pos => "IPos".to_string(),
        IStep::Idx => "IIdx".to_string(),
        IStep::With => "IWith".to_string(),
        IStep::Rest => "IRest".to_string(),
    }))
}

/// the program on `iter()`: what every call returned
fn prog_read<S: Surface<Item = u64>>(cur: &S, prog: &[IStep]) -> Vec<u64> {
    let enc = |x: Option<&u64>| x.map(|v| v + 1).unwrap_or(0);
    let mut out = vec![];
    let mut plain = Some(cur.iter());
    let mut posit = None;
    for st in prog {
        if let Some(it) = plain.as_mut() {
            match *st {
                IStep::Nth(j) => out.push(enc(it.nth(j))),
                IStep::Skip(j) => out.push(enc(it.by_ref().skip(j).next())),
                IStep::Next => out.push(enc(it.next())),
                IStep::Take(j) => {
                    let l: Vec<u64> = it.by_ref().take(j).copied().collect();
                    out.push(l.len() as u64);
                    out.extend(l);
                }
                IStep::Pos => {
                    let p = (&*it).position();
                    out.extend([p.row as u64, p.col as u64]);
                }
                IStep::Idx => out.push(it.index() as u64),
                IStep::With => posit = Some(plain.take().unwrap().with_position()),
                IStep::Rest => {
                    let l: Vec<u64> = it.by_ref().copied().collect();
                    out.push(l.len() as u64);
                    out.extend(l);
                }
            }
        } else if let Some(it) = posit.as_mut() {
            match *st {
                IStep::Next => match it.next() {
                    Some((p, v)) => out.extend([1, p.row as u64, p.col as u64, *v]),
                    None => out.push(0),
                },
                IStep::Rest => {
                    let l: Vec<(Position, &u64)> = it.by_ref().collect();
                    out.push(l.len() as u64);
                    for (p, v) in l {
                        out.extend([p.row as u64, p.col as u64, *v]);
                    }
                }
                _ => {}
            }
        }
    }
    out
}

/// the same program on `iter_mut()`: an item is reported as the offset of the reference handed out, + 1 (which is
/// what the cell holds in the numbered backing vector); every reference is written through, and no cell may be
/// handed out twice (the second write would see the first one's mark)
fn prog_mut<S: SurfaceMut<Item = u64>>(cur: &mut S, prog: &[IStep]) -> Vec<u64> {
    let base = cur.data().as_ptr() as usize;
    const MARK: u64 = 1 << 40;
    let mut twice = false;
    let mut hit = |r: &mut u64| -> u64 {
        if *r >= MARK {
            twice = true;
        }
        *r += MARK;
        ((r as *mut u64 as usize) - base) as u64 / 8 + 1
    };
    let mut out = vec![];
    {
        let mut plain = Some(cur.iter_mut());
        let mut posit = None;
        for st in prog {
            if let Some(it) = plain.as_mut() {
                match *st {
                    IStep::Nth(j) => out.push(it.nth(j).map(&mut hit).map(|v| v + 1).unwrap_or(0)),
                    IStep::Skip(j) => out.push(it.by_ref().skip(j).next().map(&mut hit).map(|v| v + 1).unwrap_or(0)),
                    IStep::Next => out.push(it.next().map(&mut hit).map(|v| v + 1).unwrap_or(0)),
                    IStep::Take(j) => {
                        let l: Vec<u64> = it.by_ref().take(j).map(&mut hit).collect();
                        out.push(l.len() as u64);
                        out.extend(l);
                    }
                    IStep::Pos => {
                        let p = (&*it).position();
                        out.extend([p.row as u64, p.col as u64]);
                    }
                    IStep::Idx => out.push(it.index() as u64),
                    IStep::With => posit = Some(plain.take().unwrap().with_position()),
                    IStep::Rest => {
                        let l: Vec<u64> = it.by_ref().map(&mut hit).collect();
                        out.push(l.len() as u64);
                        out.extend(l);
                    }
                }
            } else if let Some(it) = posit.as_mut() {
                match *st {
                    IStep::Next => match it.next() {
                        Some((p, r)) => out.extend([1, p.row as u64, p.col as u64, hit(r)]),
                        None => out.push(0),
                    },
                    IStep::Rest => {
                        let l: Vec<(Position, &mut u64)> = it.by_ref().collect();
                        out.push(l.len() as u64);
                        for (p, r) in l {
                            out.extend([p.row as u64, p.col as u64, hit(r)]);
                        }
                    }
                    _ => {}
                }
            }
        }
    }
    if twice {
        out.push(PANICKED); // a cell was handed out as &mut a second time
    }
    out
}

/// everything that can be asked of a surface without mutating it
struct ReadObs {
    shape: Vec<u64>,
    empty: bool,
    it: Vec<u64>,
    gets: Vec<u64>,
    nthv: Vec<u64>,
    wpos: Vec<u64>,
    mp: Vec<u64>,
    progr: Vec<u64>,
}

fn read_obs<S: Surface<Item = u64>>(cur: &S, nk: usize, prog: &[IStep]) -> ReadObs {
    let s = cur.shape();
    let shape = vec![s.start as u64, s.end as u64, s.width as u64, s.height as u64, s.row_stride as u64, s.col_stride as u64];
    let it: Vec<u64> = cur.iter().copied().collect();
    let mut gets = vec![];
    // one row and one column beyond the window, and far outside
    for r in 0..=s.height {
        for c in 0..=s.width {
            gets.push(cur.get(Position::new(r, c)).map(|v| v + 1).unwrap_or(0));
        }
    }
    assert!(cur.get(Position::new(s.height + 7, 0)).is_none());
    assert!(cur.get(Position::new(0, s.width + 9)).is_none());
    assert!(cur.get(Position::new(usize::MAX, usize::MAX)).is_none());
    // iter().nth(nk), then position(), then next()
    let mut iter = cur.iter();
    let a = iter.nth(nk).map(|v| v + 1).unwrap_or(0);
    let p = iter.position();
    let b = iter.next().map(|v| v + 1).unwrap_or(0);
    let nthv = vec![a, p.row as u64, p.col as u64, b];
    let mut wpos = vec![];
    for (p, v) in cur.iter().with_position() {
        wpos.extend([p.row as u64, p.col as u64, *v]);
    }
    let m = cur.map(|pos, v| fw(pos, *v));
    // to_owned_surf must agree with the identity map
    let o = cur.to_owned_surf();
    assert_eq!(o.data().to_vec(), it);
    let progr = prog_read(cur, prog);
    ReadObs { shape, empty: cur.is_empty(), it, gets, nthv, wpos, mp: m.data().to_vec(), progr }
}

/// which mutation to run through the view; the result is the whole backing vector afterwards
#[derive(Clone, Copy)]
enum Mutn {
    Ptrs,
    Fill,
    FillWith,
    Clear,
    Insert,
    Set,
    GetMut,
    Prog,
}

fn mut_obs<S: SurfaceMut<Item = u64>>(cur: &mut S, m: Mutn, ir: usize, ic: usize, items: &[u64], prog: &[IStep]) -> Vec<u64> {
    match m {
        Mutn::Prog => prog_mut(cur, prog),
        Mutn::Ptrs => {
            let base = cur.data().as_ptr() as usize;
            let mut ptrs = vec![];
            for r in cur.iter_mut() {
                ptrs.push(((r as *mut u64 as usize) - base) as u64 / 8);
            }
            ptrs
        }
        Mutn::Fill => {
            cur.fill(7777);
            cur.data().to_vec()
        }
        Mutn::FillWith => {
            cur.fill_with(fw);
            cur.data().to_vec()
        }
        Mutn::Clear => {
            cur.clear();
            cur.data().to_vec()
        }
        Mutn::Insert => {
            cur.insert(Position::new(ir, ic), items.iter().copied());
            cur.data().to_vec()
        }
        Mutn::Set => {
            let old = cur.set(Position::new(ir, ic), 4242);
            let mut v = vec![old];
            v.extend(cur.data().iter().copied());
            v
        }
        Mutn::GetMut => {
            let s = cur.shape();
            let mut gets = vec![];
            for r in 0..=s.height {
                for c in 0..=s.width {
                    gets.push(cur.get_mut(Position::new(r, c)).map(|v| *v + 1).unwrap_or(0));
                }
            }
            gets
        }
    }
}

/// how the last step of the chain is taken: the view kinds and wrappers of the Surface / SurfaceMut API
#[derive(Clone, Copy, PartialEq, Debug)]
enum Kind {
    Owned,   // view_owned / transpose all the way (nested owned views)
    View,    // the last view(rows, cols) through Surface::view (borrowed, immutable)
    ViewMut, // the last view through SurfaceMut::view_mut (borrowed, mutable)
    AsRef,   // the whole chain, then Surface::as_ref
    AsMut,   // the whole chain, then SurfaceMut::as_mut
    Arc,     // the root behind an Arc (impl Surface for Arc<S>)
    Ref,     // the root behind a shared reference (impl Surface for &S)
}

fn kind_of(s: &str) -> Kind {
    match s {
        "view" => Kind::View,
        "view_mut" => Kind::ViewMut,
        "as_ref" => Kind::AsRef,
        "as_mut" => Kind::AsMut,
        "arc" => Kind::Arc,
        "ref" => Kind::Ref,
        _ => Kind::Owned,
    }
}

/// the trailing view steps taken one after the other through Surface::view (a SurfaceView of a SurfaceView ...)
fn with_views<S: Surface<Item = u64>, R>(s: &S, steps: &[(Sel, Sel)], f: &dyn Fn(&SurfaceView<'_, u64>) -> R) -> R {
    let (r, c) = steps[0].clone();
    let v = s.view(r, c);
    if steps.len() == 1 {
        f(&v)
    } else {
        with_views(&v, &steps[1..], f)
    }
}

/// the same through SurfaceMut::view_mut (a SurfaceMutView of a SurfaceMutView ...)
fn with_views_mut<S: SurfaceMut<Item = u64>, R>(s: &mut S, steps: &[(Sel, Sel)], f: &dyn Fn(&mut SurfaceMutView<'_, u64>) -> R) -> R {
    let (r, c) = steps[0].clone();
    let mut v = s.view_mut(r, c);
    if steps.len() == 1 {
        f(&mut v)
    } else {
        with_views_mut(&mut v, &steps[1..], f)
    }
}

/// number of trailing view steps (at most 3) that a borrowed kind takes through view / view_mut
fn borrowed_steps(kind: Kind, ops: &[Op]) -> usize {
    if !matches!(kind, Kind::View | Kind::ViewMut) {
        return 0;
    }
    ops.iter().rev().take(3).take_while(|o| matches!(o, Op::View(..))).count()
}

/// marks an observation during which the implementation panicked where no panic is an expected value
const PANICKED: u64 = u64::MAX;

fn observe(h: usize, w: usize, ops: &[Op], borrowed: bool, kind: Kind, ir: usize, ic: usize, items: &[u64], nk: usize, prog: &[IStep]) -> Obs {
    // the trailing view steps, if the kind wants to take them through borrowed views
    let nb = borrowed_steps(kind, ops);
    let prefix = &ops[..ops.len() - nb];
    let steps: Vec<(Sel, Sel)> = ops[ops.len() - nb..]
        .iter()
        .map(|o| match o {
            Op::View(r, c) => (r.clone(), c.clone()),
            Op::T => unreachable!(),
        })
        .collect();
    // every observation starts from a fresh surface; `borrowed` selects &mut SurfaceOwned as the base
    let ro = {
        let mut owned = fresh(h, w);
        match kind {
            Kind::Arc => {
                let cur = build_ro(Box::new(std::sync::Arc::new(owned)), ops);
                read_obs(&cur, nk, prog)
            }
            Kind::Ref => {
                let cur = build_ro(Box::new(&owned), ops);
                read_obs(&cur, nk, prog)
            }
            _ => {
                let base: Dyn = if borrowed { Box::new(&mut owned) } else { Box::new(owned.clone()) };
                let mut cur = build(base, prefix);
                match kind {
                    Kind::View if nb > 0 => with_views(&cur, &steps, &|v| read_obs(v, nk, prog)),
                    Kind::ViewMut if nb > 0 => with_views_mut(&mut cur, &steps, &|v| read_obs(v, nk, prog)),
                    Kind::AsRef | Kind::View => read_obs(&Surface::as_ref(&cur), nk, prog),
                    Kind::AsMut | Kind::ViewMut => read_obs(&SurfaceMut::as_mut(&mut cur), nk, prog),
                    _ => read_obs(&cur, nk, prog),
                }
            }
        }
    };
    // mutations: through view_mut / as_mut when the kind is a mutable one, else through the owned chain
    let run_mut = |m: Mutn| -> Option<Vec<u64>> {
        catch(std::panic::AssertUnwindSafe(|| {
            let mut owned = fresh(h, w);
            let base: Dyn = if borrowed { Box::new(&mut owned) } else { Box::new(owned.clone()) };
            match kind {
                Kind::ViewMut if nb > 0 => {
                    let mut cur = build(base, prefix);
                    with_views_mut(&mut cur, &steps, &|v| mut_obs(v, m, ir, ic, items, prog))
                }
                Kind::AsMut | Kind::ViewMut => {
                    let mut cur = build(base, ops);
                    mut_obs(&mut SurfaceMut::as_mut(&mut cur), m, ir, ic, items, prog)
                }
                _ => {
                    let mut cur = build(base, ops);
                    mut_obs(&mut cur, m, ir, ic, items, prog)
                }
            }
        }))
    };
    Obs {
        shape: ro.shape,
        empty: ro.empty,
        it: ro.it,
        gets: ro.gets,
        muts: run_mut(Mutn::Ptrs).unwrap_or_else(|| vec![PANICKED]),
        fil: flat(run_mut(Mutn::Fill)),
        filw: flat(run_mut(Mutn::FillWith)),
        ins: flat(run_mut(Mutn::Insert)),
        mp: { let mut v = ro.mp; v.insert(0, 1); v },
        clr: flat(run_mut(Mutn::Clear)),
        getm: run_mut(Mutn::GetMut).unwrap_or_else(|| vec![PANICKED]),
        setv: flat(run_mut(Mutn::Set)),
        nthv: ro.nthv,
        wpos: ro.wpos,
        progr: ro.progr,
        progm: run_mut(Mutn::Prog).unwrap_or_else(|| vec![PANICKED]),
    }
}

pub fn run(input: &Value) -> Case {
    let h = input["H"].as_u64().unwrap_or(0) as usize;
    let w = input["W"].as_u64().unwrap_or(0) as usize;
    let borrowed = input["borrowed"].as_bool().unwrap_or(false);
    let kind = kind_of(input["kind"].as_str().unwrap_or("owned"));
    let ir = input["ir"].as_u64().unwrap_or(0) as usize;
    let ic = input["ic"].as_u64().unwrap_or(0) as usize;
    let nk = input["nk"].as_u64().unwrap_or(0) as usize;
    let items: Vec<u64> = input["items"].as_array().map(|a| a.iter().map(|x| x.as_u64().unwrap_or(0)).collect()).unwrap_or_default();
    let ops: Vec<Op> = input["ops"]
        .as_array()
        .map(|a| {
            a.iter()
                .map(|o| if o.is_string() { Op::T } else { Op::View(Sel::from_json(&o["r"]), Sel::from_json(&o["c"])) })
                .collect()
        })
        .unwrap_or_default();
    let prog = prog_of(&input["prog"]);
    let o2 = ops.clone();
    let it2 = items.clone();
    let p2 = prog.clone();
    let obs = catch(std::panic::AssertUnwindSafe(move || observe(h, w, &o2, borrowed, kind, ir, ic, &it2, nk, &p2)));
    let ops_coq = clist(ops.iter().map(|o| match o {
        Op::T => "OpT".to_string(),
        Op::View(r, c) => format!("(OpView {} {})", r.coq(), c.coq()),
    }));
    let mut j = input.clone();
    let (coq, nontrivial, tags) = match obs {
        Some(o) => {
            j["impl"] = json!({"shape": o.shape, "iter": o.it, "muts": o.muts, "fill": o.fil, "insert": o.ins, "clear": o.clr, "set": o.setv, "nth": o.nthv,
                               "prog_iter": o.progr, "prog_iter_mut": o.progm});
            let nviews = ops.iter().filter(|o| matches!(o, Op::View(..))).count();
            let nt = ops.iter().filter(|o| matches!(o, Op::T)).count();
            let area = o.shape[2] * o.shape[3];
            (
                format!(
                    "S07 {} {} {} {} {} {} {} {} {} {} {} {} {} {} {} {} {} {} {} {} {} {} {} {}",
                    cnat(h), cnat(w), ops_coq, ir, ic, cnums(&items), cnat(nk), prog_coq(&prog),
                    cnums(&o.shape), cbool(o.empty), cnums(&o.it), cnums(&o.gets), cnums(&o.muts),
                    cnums(&o.fil), cnums(&o.filw), cnums(&o.ins), cnums(&o.mp),
                    cnums(&o.clr), cnums(&o.getm), cnums(&o.setv), cnums(&o.nthv), cnums(&o.wpos),
                    cnums(&o.progr), cnums(&o.progm)
                ),
                nviews >= 1 && area >= 2 && (area as usize) < h * w,
                vec![
                    format!("views={}", nviews.min(4)),
                    format!("transposes={}", nt.min(3)),
                    format!("area={}", if area == 0 { "0" } else if area < 4 { "1-3" } else { "4+" }),
                    format!("borrowed={}", borrowed),
                    format!("kind={:?}", kind),
                    format!("borrowed_steps={}", borrowed_steps(kind, &ops)),
                    format!("insert={}", if o.ins == vec![0] { "panic" } else if ir as u128 * (o.shape[2] as u128) + ic as u128 >= area as u128 { "beyond-window" } else { "inside" }),
                    format!("set={}", if o.setv == vec![0] { "outside(panic)" } else { "inside" }),
                    format!("huge-position={}", ir > (1 << 32) || ic > (1 << 32)),
                    format!("iter-program={}", {
                        let k = prog.iter().position(|s| matches!(s, IStep::With));
                        match k {
                            None => "no-with_position",
                            Some(k) if prog[..k].iter().any(|s| matches!(s, IStep::Nth(_) | IStep::Skip(_) | IStep::Next | IStep::Take(_) | IStep::Rest)) => "with_position-after-advance",
                            Some(_) => "with_position-fresh",
                        }
                    }),
                ],
            )
        }
        None => {
            j["impl"] = json!("panic");
            (
                format!(
                    "S07 {} {} {} {} {} {} {} {} [] false [] [] [] [0] [0] [0] [0] [0] [] [0] [] [] [] []",
                    cnat(h), cnat(w), ops_coq, ir, ic, cnums(&items), cnat(nk), prog_coq(&prog)
                ),
                true,
                vec!["panic".to_string()],
            )
        }
    };
    Case { coq, json: j, tags, nontrivial }
}

pub fn generate(rng: &mut Rng, n: usize, _tier: &str) -> Vec<Value> {
    let mut v = vec![];
    // constants written in src/surface.rs and their neighbours (harvested at run time), small enough for sizes and steps
    let bounds: Vec<u64> = source_boundaries(&["src/surface.rs"], 40);
    while v.len() < n {
        // mostly small roots, now and then a larger one
        let dim = |rng: &mut Rng| -> usize {
            match rng.below(24) {
                0 | 1 => 0,
                2 => 9 + rng.below(24) as usize,
                3 if !bounds.is_empty() => *rng.pick(&bounds) as usize,
                _ => 1 + rng.below(8) as usize,
            }
        };
        let h = dim(rng);
        let w = dim(rng);
        let depth = rng.below(7) as usize; // 0..=6 operations
        let mut ops = vec![];
        let (mut ch, mut cw) = (h, w);
        for _ in 0..depth {
            if rng.chance(1, 3) {
                ops.push(json!("t"));
                std::mem::swap(&mut ch, &mut cw);
            } else {
                // a selector that empties the window ends all variety below it: keep only one in four of those
                let mut r = Sel::random(rng, ch);
                let mut c = Sel::random(rng, cw);
                for _ in 0..3 {
                    if (r.clone().view_bounds_ref(ch) == 0 || c.clone().view_bounds_ref(cw) == 0) && ch > 0 && cw > 0 && !rng.chance(1, 4) {
                        r = Sel::random(rng, ch);
                        c = Sel::random(rng, cw);
                    }
                }
                // track the dims so that later selectors stay relevant
                ch = r.clone().view_bounds_ref(ch);
                cw = c.clone().view_bounds_ref(cw);
                ops.push(json!({"r": r.json(), "c": c.json()}));
            }
        }
        // position for insert / set: inside, just outside, far outside, and (rarely) so large that the usize
        // index arithmetic of insert overflows
        let coord = |rng: &mut Rng, d: usize| -> u64 {
            match rng.below(20) {
                0 => d as u64 + 5 + rng.below(50),
                1 => *rng.pick(&[u64::MAX, u64::MAX - 1, 1u64 << 63, (1u64 << 32) + 1, 1u64 << 40]),
                _ => rng.below(d as u64 + 2),
            }
        };
        let ir = coord(rng, ch);
        let ic = coord(rng, cw);
        let nitems = rng.below(8) as usize;
        let items: Vec<u64> = (0..nitems).map(|i| 9000 + i as u64).collect();
        let nk = rng.below((ch * cw) as u64 + 3);
        let kind = *rng.pick(&["owned", "owned", "view", "view_mut", "view_mut", "as_ref", "as_mut", "arc", "ref"]);
        // iterator program: one iterator advanced by a few calls, then (two times out of three) turned into a
        // position iterator and continued.  Step sizes aim at the row length, the number of cells and the constants
        // written in src/surface.rs
        let total = ch * cw;
        let step = |rng: &mut Rng| -> usize {
            match rng.below(10) {
                0..=3 => rng.below(3) as usize,
                4 | 5 => (cw + rng.below(3) as usize).saturating_sub(1),
                6 => (total + rng.below(3) as usize).saturating_sub(1),
                7 if !bounds.is_empty() => *rng.pick(&bounds) as usize,
                _ => rng.below(total as u64 + 2) as usize,
            }
        };
        let mut prog = vec![];
        for _ in 0..rng.below(5) {
            prog.push(match rng.below(9) {
                0 | 1 => json!(["next"]),
                2 | 3 => json!(["nth", step(rng)]),
                4 => json!(["skip", step(rng)]),
                5 => json!(["take", step(rng)]),
                6 => json!(["pos"]),
                7 => json!(["idx"]),
                _ => json!(["next"]),
            });
        }
        if rng.chance(2, 3) {
            prog.push(json!(["with"]));
            for _ in 0..rng.below(4) {
                prog.push(json!(["next"]));
            }
        } else if rng.chance(1, 2) {
            prog.push(json!(["pos"]));
            prog.push(json!(["idx"]));
        }
        if rng.chance(2, 3) {
            prog.push(json!(["rest"]));
            if rng.chance(1, 3) {
                prog.push(json!(["next"]));
            }
        }
        v.push(json!({"H": h, "W": w, "ops": ops, "borrowed": rng.chance(1, 2), "kind": kind, "ir": ir, "ic": ic, "items": items, "nk": nk, "prog": prog}));
    }
    v
}

impl Sel {
    /// dimension after applying the selector according to a harness-local Python-slice evaluation
    /// (only used to keep generated chains interesting; never compared)
    fn view_bounds_ref(self, dim: usize) -> usize {
        let n = dim as i128;
        let norm = |i: i128| if i < 0 { (i + n).max(0) } else { i.min(n) };
        let past = |e: i128| { let k = if e < 0 { e + n } else { e }; (k + 1).min(n).max(0) };
        let (a, b) = match self {
            Sel::Full => (0, n),
            Sel::Rng(a, b) => (norm(a as i128), norm(b as i128)),
            Sel::From(a) => (norm(a as i128), n),
            Sel::To(b) => (0, norm(b as i128)),
            Sel::RngI(a, b) => (norm(a as i128), past(b as i128)),
            Sel::ToI(b) => (0, past(b as i128)),
            Sel::Idx(i) => { let i = i as i128; if i >= -n && i < n { let k = if i < 0 { i + n } else { i }; (k, k + 1) } else { (0, 0) } }
        };
        if a < b { (b - a) as usize } else { 0 }
    }
}

pub fn batch(inputs: &[Value]) -> Batch {
    Batch {
        prop: "C07",
        coq_import: "Corr.C07Corr",
        case_type: "c07_case",
        report_fn: "c07_report",
        rule: "chain with at least one view whose window has >= 2 cells and is a proper part of the root; distinct by input",
        cases: inputs.iter().map(run).collect(),
        preamble: String::new(),
    }
}
