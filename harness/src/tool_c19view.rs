//! `snt_harness tool c19view`: child process of the C19 harness.  Reads lines `kind<TAB>json text`, and for
//! each deserialises the document as a view tree / Text / Glyph, lays it out and renders it, printing one of
//! `ok1` (deserialised, laid out and rendered), `ok0` (deserialised, layout or render panicked), `err`, `panic`.
//! A stack overflow or allocation failure kills this process; the parent then knows which document did it.
use std::io::{BufRead, Write};

pub fn main(_args: &[String]) -> i32 {
    std::panic::set_hook(Box::new(|_| {}));
    let stdin = std::io::stdin();
    let stdout = std::io::stdout();
    for line in stdin.lock().lines() {
        let line = match line {
            Ok(l) => l,
            Err(_) => break,
        };
        let (kind, text) = match line.split_once('\t') {
            Some(p) => p,
            None => continue,
        };
        let r: String = if kind == "image_stream" || kind == "image_value" {
            crate::registry::c19::image_one(kind == "image_stream", text)
        } else {
            let obs = crate::registry::c19::view_one(kind, text);
            let base = match obs.res {
                crate::registry::c19::VRes::Ok(true) => "ok1",
                crate::registry::c19::VRes::Ok(false) => "ok0",
                crate::registry::c19::VRes::Err => "err",
                _ => "panic",
            };
            let mut line = base.to_string();
            if let Some(sk) = obs.skeleton {
                line.push_str(&format!(" sk={}", sk));
            }
            match obs.raster {
                Some(true) => line.push_str(" raster=ok"),
                Some(false) => line.push_str(" raster=panic"),
                None => {}
            }
            line
        };
        let mut out = stdout.lock();
        let _ = writeln!(out, "{}", r);
        let _ = out.flush();
    }
    0
}
