//! C09: programs of put_char / put_cell / set_face / set_wraps / io::Write::write run against a
//! TerminalWriter over a sub-view (plain, offset, strided, transposed) of a canvas of sentinel
//! cells, and Text::layout + Text::render into a view of the size the layout reported.
use super::c07::Sel;
use crate::util::*;
use serde_json::{json, Value};
use std::io::Write as _;
use surf_n_term::surface::ViewBounds;
use surf_n_term::view::{BoxConstraint, Text, Tree, View, ViewContext, ViewLayoutStore};
use surf_n_term::{
    Cell, CellWrite, Error, Face, FaceAttrs, FillRule, Glyph, Image, Path, Position, Shape, Size, Surface, SurfaceMut,
    SurfaceMutView, SurfaceOwned, Terminal, TerminalCaps, TerminalCommand, TerminalEvent, TerminalSize, TerminalSurfaceExt,
    TerminalWaker, RGBA,
};

// ---------- a terminal that only reports size and capabilities ----------
pub struct NullTerm {
    pub caps: TerminalCaps,
    /// pixels per cell (height, width)
    pub ppc: (usize, usize),
}

impl std::io::Write for NullTerm {
    fn write(&mut self, buf: &[u8]) -> std::io::Result<usize> {
        Ok(buf.len())
    }
    fn flush(&mut self) -> std::io::Result<()> {
        Ok(())
    }
}

pub const PPC_H: usize = 20;
pub const PPC_W: usize = 10;

impl Terminal for NullTerm {
    fn execute(&mut self, _cmd: TerminalCommand) -> Result<(), Error> {
        Ok(())
    }
    fn waker(&self) -> TerminalWaker {
        TerminalWaker::new(|| Ok(()))
    }
    fn poll(&mut self, _timeout: Option<std::time::Duration>) -> Result<Option<TerminalEvent>, Error> {
        Ok(None)
    }
    fn dyn_ref(&mut self) -> &mut dyn Terminal {
        self
    }
    fn size(&self) -> Result<TerminalSize, Error> {
        Ok(TerminalSize { cells: Size::new(24, 80), pixels: Size::new(24 * self.ppc.0, 80 * self.ppc.1) })
    }
    fn position(&mut self) -> Result<Position, Error> {
        Ok(Position::origin())
    }
    fn frames_pending(&self) -> usize {
        0
    }
    fn frames_drop(&mut self) {}
    fn capabilities(&self) -> &TerminalCaps {
        &self.caps
    }
}

pub fn mk_ctx(glyphs: bool) -> ViewContext {
    mk_ctx_ppc(glyphs, PPC_H, PPC_W)
}

pub fn mk_ctx_ppc(glyphs: bool, ppc_h: usize, ppc_w: usize) -> ViewContext {
    let term = NullTerm { caps: TerminalCaps { glyphs, ..TerminalCaps::default() }, ppc: (ppc_h, ppc_w) };
    ViewContext::new(&term).expect("ctx")
}

// ---------- faces ----------
const FLAGS: [FaceAttrs; 5] = [FaceAttrs::BOLD, FaceAttrs::ITALIC, FaceAttrs::BLINK, FaceAttrs::REVERSE, FaceAttrs::STRIKE];
const UNDER: [FaceAttrs; 6] = [
    FaceAttrs::EMPTY,
    FaceAttrs::UNDERLINE,
    FaceAttrs::UNDERLINE_DOUBLE,
    FaceAttrs::UNDERLINE_CURLY,
    FaceAttrs::UNDERLINE_DOTTED,
    FaceAttrs::UNDERLINE_DASHED,
];

pub fn attrs_from(bits: u64) -> FaceAttrs {
    let mut a = UNDER[(bits & 7).min(5) as usize];
    for (i, f) in FLAGS.iter().enumerate() {
        if bits & (8 << i) != 0 {
            a = a.insert(*f);
        }
    }
    a
}

pub fn attrs_bits(a: FaceAttrs) -> u64 {
    let mut bits = 0;
    for (i, u) in UNDER.iter().enumerate() {
        if i > 0 && a.underline() == u.underline() {
            bits = i as u64;
        }
    }
    for (i, f) in FLAGS.iter().enumerate() {
        if a.contains(*f) {
            bits |= 8 << i;
        }
    }
    bits
}

fn rgba_from(code: u64) -> RGBA {
    RGBA::new((code >> 24) as u8, (code >> 16) as u8, (code >> 8) as u8, code as u8)
}

fn rgba_code(c: RGBA) -> u64 {
    ((c.red() as u64) << 24) | ((c.green() as u64) << 16) | ((c.blue() as u64) << 8) | c.alpha() as u64
}

pub fn face_from(v: &Value) -> Face {
    Face::new(v["fg"].as_u64().map(rgba_from), v["bg"].as_u64().map(rgba_from), attrs_from(v["attrs"].as_u64().unwrap_or(0)))
}

pub fn face_coq_parts(fg: Option<u64>, bg: Option<u64>, attrs: u64) -> String {
    format!("(mkFace {} {} {})", copt(fg.map(|x| x.to_string())), copt(bg.map(|x| x.to_string())), attrs)
}

pub fn face_coq(f: &Face) -> String {
    face_coq_parts(f.fg.map(rgba_code), f.bg.map(rgba_code), attrs_bits(f.attrs))
}

// ---------- glyph and image tables of a case ----------
pub struct Defs {
    pub glyphs: Vec<Glyph>,
    pub images: Vec<Image>,
    pub ctx: ViewContext,
}

impl Defs {
    pub fn new(input: &Value) -> Defs {
        let glyphs = input["glyph_defs"]
            .as_array()
            .map(|a| {
                a.iter()
                    .map(|g| {
                        let fb: String = vusizes(&g["fb"]).iter().filter_map(|c| char::from_u32(*c as u32)).collect();
                        Glyph::new(
                            Path::empty(),
                            FillRule::default(),
                            None,
                            Size::new(g["h"].as_u64().unwrap_or(1) as usize, g["w"].as_u64().unwrap_or(1) as usize),
                            fb,
                            None,
                        )
                    })
                    .collect()
            })
            .unwrap_or_default();
        let images = input["image_defs"]
            .as_array()
            .map(|a| {
                a.iter()
                    .enumerate()
                    .map(|(i, d)| {
                        let ph = d["ph"].as_u64().unwrap_or(1) as usize;
                        let pw = d["pw"].as_u64().unwrap_or(1) as usize;
                        Image::new(SurfaceOwned::new_with(Size::new(ph, pw), |_| RGBA::new(i as u8, 200, 100, 255)))
                    })
                    .collect()
            })
            .unwrap_or_default();
        let ppc = vusizes(&input["ppc"]);
        let ctx = if ppc.len() == 2 { mk_ctx_ppc(input["glyphs"].as_bool().unwrap_or(true), ppc[0], ppc[1]) } else { mk_ctx(input["glyphs"].as_bool().unwrap_or(true)) };
        Defs { glyphs, images, ctx }
    }

    pub fn kind_coq(&self, cell: &Cell) -> String {
        use surf_n_term::render::CellKind;
        match cell.kind() {
            CellKind::Char(c) => format!("(KChar {})", *c as u32),
            CellKind::Glyph(g) => {
                let id = self.glyphs.iter().position(|x| x == g).unwrap_or(999);
                let s = g.size();
                format!(
                    "(KGlyph {} {} {} {})",
                    id,
                    cnat(s.height),
                    cnat(s.width),
                    clist(g.fallback_str().chars().map(|c| (c as u32).to_string()))
                )
            }
            CellKind::Image(img) => {
                let id = self.images.iter().position(|x| x == img).unwrap_or(999);
                let s = img.size_cells(self.ctx.pixels_per_cell());
                format!("(KImage {} {} {})", id, cnat(s.height), cnat(s.width))
            }
        }
    }

    pub fn cell_coq(&self, cell: &Cell) -> String {
        format!("(mkCell {} {})", face_coq(&cell.face()), self.kind_coq(cell))
    }

    /// canvas cell as five numbers: fg, bg (0 = none, else 1 + rgba), attrs, kind tag, kind value
    pub fn cell_nums(&self, cell: &Cell, out: &mut Vec<u64>) {
        use surf_n_term::render::CellKind;
        let f = cell.face();
        out.push(f.fg.map(|c| 1 + rgba_code(c)).unwrap_or(0));
        out.push(f.bg.map(|c| 1 + rgba_code(c)).unwrap_or(0));
        out.push(attrs_bits(f.attrs));
        match cell.kind() {
            CellKind::Char(c) => {
                out.push(0);
                out.push(*c as u64)
            }
            CellKind::Glyph(g) => {
                out.push(1);
                out.push(self.glyphs.iter().position(|x| x == g).unwrap_or(999) as u64)
            }
            CellKind::Image(img) => {
                out.push(2);
                out.push(self.images.iter().position(|x| x == img).unwrap_or(999) as u64)
            }
        }
    }

    pub fn cell_from(&self, v: &Value) -> Cell {
        let face = face_from(&v["face"]);
        let k = &v["kind"];
        match k["t"].as_str().unwrap_or("c") {
            "g" => match self.glyphs.get(k["id"].as_u64().unwrap_or(0) as usize) {
                Some(g) => Cell::new_glyph(face, g.clone()),
                None => Cell::new_char(face, '?'),
            },
            "i" => match self.images.get(k["id"].as_u64().unwrap_or(0) as usize) {
                Some(i) => Cell::new_image(i.clone()).with_face(face),
                None => Cell::new_char(face, '?'),
            },
            _ => Cell::new_char(face, char::from_u32(k["ch"].as_u64().unwrap_or(63) as u32).unwrap_or('?')),
        }
    }

    /// (char, width) for every character whose width is not 1
    pub fn width_table(&self, chars: &[u32]) -> String {
        let mut seen = std::collections::BTreeSet::new();
        let mut items = vec![];
        for c in chars {
            if !seen.insert(*c) {
                continue;
            }
            if let Some(ch) = char::from_u32(*c) {
                let w = Cell::new_char(Face::default(), ch).size(&self.ctx).width;
                if w != 1 {
                    items.push(format!("({}, {})", c, cnat(w)));
                }
            }
        }
        clist(items)
    }
}

// ---------- canvas ----------
pub const SENT_BASE: u32 = 0xE000;

pub fn sentinel(i: usize) -> Cell {
    let face = if i % 2 == 0 {
        Face::default()
    } else {
        Face::new(Some(RGBA::new((i % 256) as u8, 0x55, 0xAA, 255)), None, FaceAttrs::EMPTY)
    };
    Cell::new_char(face, char::from_u32(SENT_BASE + i as u32).unwrap_or('?'))
}

pub fn canvas(len: usize) -> Vec<Cell> {
    (0..len).map(sentinel).collect()
}

#[derive(Clone, Debug)]
pub enum VOp {
    View(Sel, Sel),
    T,
}

pub fn vops_from(v: &Value) -> Vec<VOp> {
    v.as_array()
        .map(|a| a.iter().map(|o| if o.is_string() { VOp::T } else { VOp::View(Sel::from_json(&o["r"]), Sel::from_json(&o["c"])) }).collect())
        .unwrap_or_default()
}

pub fn vops_coq(ops: &[VOp]) -> String {
    clist(ops.iter().map(|o| match o {
        VOp::T => "OpT".to_string(),
        VOp::View(r, c) => format!("(OpView {} {})", r.coq(), c.coq()),
    }))
}

/// the shape the real crate computes for the chain
pub fn chain_shape(h: usize, w: usize, ops: &[VOp]) -> Shape {
    let mut sh = Shape::from(Size::new(h, w));
    for op in ops {
        sh = match op {
            VOp::View(r, c) => sh.view(r.clone(), c.clone()),
            VOp::T => Shape { width: sh.height, height: sh.width, col_stride: sh.row_stride, row_stride: sh.col_stride, ..sh },
        };
    }
    sh
}

/// the same chain through the Surface API (view_mut / transpose of the trait), to make sure
/// the shape above is the one a client gets
fn chain_shape_api(h: usize, w: usize, ops: &[VOp]) -> Shape {
    type Dyn<'a> = Box<dyn SurfaceMut<Item = u8> + 'a>;
    let base: Dyn = Box::new(SurfaceOwned::<u8>::new(Size::new(h, w)));
    let mut cur = base;
    for op in ops {
        cur = match op {
            VOp::View(r, c) => Box::new(cur.view_owned(r.clone(), c.clone())),
            VOp::T => Box::new(cur.transpose()),
        };
    }
    cur.shape()
}

fn shape_from(v: &Value) -> Shape {
    let g = |k: &str| v[k].as_u64().unwrap_or(0) as usize;
    Shape { start: g("start"), end: g("end"), width: g("width"), height: g("height"), row_stride: g("rs"), col_stride: g("cs") }
}

fn shape_coq(s: &Shape) -> String {
    format!("(mkShape {} {} {} {} {} {})", cnat(s.start), cnat(s.end), cnat(s.width), cnat(s.height), cnat(s.row_stride), cnat(s.col_stride))
}

// ---------- writer programs ----------
struct WOut {
    canvas: Vec<u64>,
    flags: Vec<bool>,
    cur: (usize, usize),
}

/// the operations a client can apply to the writer itself (also through `adapter.parent()`)
fn apply_simple(w: &mut surf_n_term::render::TerminalWriter<'_>, defs: &Defs, op: &Value) -> bool {
    if op["form"].as_str() == Some("with") {
        // the builder forms (with_char, with_cell, with_face, with_wraps, with_text), taken through the
        // `impl CellWrite for &mut W`; they return the writer, not a flag
        let r = CellWrite::by_ref(w);
        match op["o"].as_str().unwrap_or("") {
            "char" => {
                let _ = r.with_char(char::from_u32(op["c"].as_u64().unwrap_or(63) as u32).unwrap_or('?'));
            }
            "cell" => {
                let _ = r.with_cell(defs.cell_from(op));
            }
            "face" => {
                let _ = r.with_face(face_from(&op["face"]));
            }
            "wraps" => {
                let _ = r.with_wraps(op["b"].as_bool().unwrap_or(true));
            }
            "text" => {
                let text: Text = op["cells"].as_array().cloned().unwrap_or_default().iter().map(|c| defs.cell_from(c)).collect();
                let _ = r.with_text(&text);
            }
            _ => {}
        }
        return true;
    }
    match op["o"].as_str().unwrap_or("") {
        "image" => match defs.images.get(op["id"].as_u64().unwrap_or(0) as usize) {
            Some(i) => w.put_image(i.clone()),
            None => true,
        },
        "char" => w.put_char(char::from_u32(op["c"].as_u64().unwrap_or(63) as u32).unwrap_or('?')),
        "cell" => w.put_cell(defs.cell_from(op)),
        "face" => {
            w.set_face(face_from(&op["face"]));
            true
        }
        "wraps" => {
            w.set_wraps(op["b"].as_bool().unwrap_or(true));
            true
        }
        "cursor" => {
            w.set_cursor(Position::new(op["r"].as_u64().unwrap_or(0) as usize, op["c"].as_u64().unwrap_or(0) as usize));
            true
        }
        "text" => {
            // put_text: a Text holding exactly these cells (Text::put_cell under the default face keeps them)
            let text: Text = op["cells"].as_array().cloned().unwrap_or_default().iter().map(|c| defs.cell_from(c)).collect();
            w.put_text(&text);
            true
        }
        _ => true,
    }
}

/// items of a session: byte chunks (Ok) and parent operations (Err); mode 1 joins adjacent chunks,
/// mode 2 hands every byte in a call of its own
fn session_items(op: &Value, mode: u8) -> Vec<Result<Vec<u8>, Value>> {
    let mut out: Vec<Result<Vec<u8>, Value>> = vec![];
    for it in op["items"].as_array().cloned().unwrap_or_default() {
        if it["b"].is_array() {
            let b = vbytes(&it["b"]);
            match mode {
                1 => match out.last_mut() {
                    Some(Ok(prev)) => prev.extend(b),
                    _ => out.push(Ok(b)),
                },
                2 => out.extend(b.iter().map(|x| Ok(vec![*x]))),
                _ => out.push(Ok(b)),
            }
        } else {
            out.push(Err(it));
        }
    }
    out
}

fn session_bytes(op: &Value) -> Vec<u8> {
    op["items"].as_array().map(|a| a.iter().filter(|i| i["b"].is_array()).flat_map(|i| vbytes(&i["b"])).collect()).unwrap_or_default()
}

fn run_program(defs: &Defs, len: usize, shape: Shape, ops: &[Value], mode: u8) -> WOut {
    let mut data = canvas(len);
    let mut flags = vec![];
    let cur;
    {
        let mut surf = SurfaceMutView::new(shape, &mut data[..]);
        let mut w = surf.writer(&defs.ctx);
        for op in ops {
            match op["o"].as_str().unwrap_or("") {
                "char" | "cell" | "face" | "wraps" | "cursor" | "text" | "image" => flags.push(apply_simple(&mut w, defs, op)),
                "scope" => {
                    // CellWrite::scope: face and wraps flag as they were on entry are restored on exit
                    let inner: Vec<Value> = op["ops"].as_array().cloned().unwrap_or_default();
                    let mut fl = vec![];
                    w.scope(|w| {
                        for o in &inner {
                            fl.push(apply_simple(w, defs, o));
                        }
                    });
                    flags.extend(fl);
                    flags.extend([true, true]);
                }
                "sess" => {
                    // ONE adapter for the whole session; parent() used between its writes
                    let items = session_items(op, mode);
                    let mut ok = true;
                    if op["via"].as_str() == Some("tty") {
                        let mut tw = CellWrite::by_ref(&mut w).tty_writer();
                        for it in &items {
                            match it {
                                Ok(b) => {
                                    if tw.write(b).is_err() {
                                        ok = false;
                                        break;
                                    }
                                }
                                Err(p) => {
                                    apply_simple(tw.parent(), defs, p);
                                }
                            }
                        }
                    } else {
                        let mut uw = CellWrite::by_ref(&mut w).utf8_writer();
                        for it in &items {
                            match it {
                                Ok(b) => {
                                    if uw.write(b).is_err() {
                                        ok = false;
                                        break;
                                    }
                                }
                                Err(p) => {
                                    apply_simple(uw.parent(), defs, p);
                                }
                            }
                        }
                    }
                    flags.push(ok)
                }
                "fmt" => {
                    // put_fmt: optional face for the duration of the call, text through utf8_writer()
                    let text: String = vusizes(&op["s"]).iter().filter_map(|c| char::from_u32(*c as u32)).collect();
                    let face = if op["face"].is_object() { Some(face_from(&op["face"])) } else { None };
                    w.put_fmt(&text, face);
                    flags.extend([true, true, true]);
                }
                "write" => {
                    let mut chunks: Vec<Vec<u8>> = op["chunks"].as_array().map(|a| a.iter().map(vbytes).collect()).unwrap_or_default();
                    if mode == 1 {
                        chunks = vec![chunks.concat()];
                    } else if mode == 2 {
                        chunks = chunks.concat().iter().map(|b| vec![*b]).collect();
                    }
                    let via_utf8 = op["via"].as_str() == Some("utf8");
                    // the entry point of io::Write a chunk goes through: write, write_all, write_vectored (an empty
                    // slice first: the provided method hands the first non-empty one to write), write_fmt (valid
                    // UTF-8 only), with a flush in between; all are one write of the chunk
                    let how = op["how"].as_str().unwrap_or("write").to_string();
                    fn put<W: std::io::Write>(w: &mut W, how: &str, c: &[u8]) -> bool {
                        let r = match how {
                            "write_all" => w.write_all(c).is_ok(),
                            "vectored" => w.write_vectored(&[std::io::IoSlice::new(&[]), std::io::IoSlice::new(c)]).is_ok(),
                            "fmt" => match std::str::from_utf8(c) {
                                Ok(text) => write!(w, "{}", text).is_ok(),
                                Err(_) => w.write(c).is_ok(),
                            },
                            "flush" => w.write(c).is_ok() && w.flush().is_ok(),
                            _ => w.write(c).is_ok(),
                        };
                        r
                    }
                    let mut ok = true;
                    if op["via"].as_str() == Some("tty") {
                        let mut tw = CellWrite::by_ref(&mut w).tty_writer();
                        for c in &chunks {
                            if !put(&mut tw, &how, c) {
                                ok = false;
                                break;
                            }
                        }
                    } else if via_utf8 {
                        let mut uw = CellWrite::by_ref(&mut w).utf8_writer();
                        for c in &chunks {
                            if !put(&mut uw, &how, c) {
                                ok = false;
                                break;
                            }
                        }
                    } else {
                        for c in &chunks {
                            if !put(&mut w, &how, c) {
                                ok = false;
                                break;
                            }
                        }
                    }
                    flags.push(ok)
                }
                _ => {}
            }
        }
        let c = w.cursor();
        cur = (c.row, c.col);
    }
    let mut nums = vec![];
    for c in &data {
        defs.cell_nums(c, &mut nums);
    }
    WOut { canvas: nums, flags, cur }
}

fn pop_coq(defs: &Defs, op: &Value) -> String {
    match op["o"].as_str().unwrap_or("") {
        "image" => match defs.images.get(op["id"].as_u64().unwrap_or(0) as usize) {
            Some(i) => format!("(PCell {})", defs.cell_coq(&Cell::new_image(i.clone()))),
            None => "(PWraps true)".to_string(),
        },
        "char" => format!("(PChar {})", op["c"].as_u64().unwrap_or(63)),
        "cell" => format!("(PCell {})", defs.cell_coq(&defs.cell_from(op))),
        "face" => format!("(PFace {})", face_coq(&face_from(&op["face"]))),
        "wraps" => format!("(PWraps {})", cbool(op["b"].as_bool().unwrap_or(true))),
        "cursor" => format!("(PCursor {} {})", cnat(op["r"].as_u64().unwrap_or(0) as usize), cnat(op["c"].as_u64().unwrap_or(0) as usize)),
        "text" => format!("(PText {})", clist(op["cells"].as_array().cloned().unwrap_or_default().iter().map(|c| defs.cell_coq(&defs.cell_from(c))))),
        _ => "(PWraps true)".to_string(),
    }
}

fn op_coq(defs: &Defs, op: &Value) -> String {
    match op["o"].as_str().unwrap_or("") {
        // builder forms return no flag: the operation as a parent operation of an empty session (flag true)
        "char" | "cell" | "face" | "wraps" | "text" if op["form"].as_str() == Some("with") => format!("(OSessU [SParent {}])", pop_coq(defs, op)),
        "fmt" => {
            // modelled as: set_face(face) (or a no-op), one write of the UTF-8 bytes through utf8_writer(),
            // set_face(previous face); "cur" is the writer's face before the call as tracked by ops_coq
            let text: String = vusizes(&op["s"]).iter().filter_map(|c| char::from_u32(*c as u32)).collect();
            let cur = face_from(&op["cur"]);
            let during = if op["face"].is_object() { face_from(&op["face"]) } else { cur };
            format!("(OFace {}); (OWriteU [{}]); (OFace {})", face_coq(&during), cbytes(text.as_bytes()), face_coq(&cur))
        }
        "text" => format!("(OText {})", clist(op["cells"].as_array().cloned().unwrap_or_default().iter().map(|c| defs.cell_coq(&defs.cell_from(c))))),
        "sess" => {
            let items = clist(op["items"].as_array().cloned().unwrap_or_default().iter().map(|it| {
                if it["b"].is_array() {
                    format!("(SBytes {})", cbytes(&vbytes(&it["b"])))
                } else {
                    format!("(SParent {})", pop_coq(defs, it))
                }
            }));
            if op["via"].as_str() == Some("tty") {
                format!("(OSessT {})", items)
            } else {
                format!("(OSessU {})", items)
            }
        }
        "image" => match defs.images.get(op["id"].as_u64().unwrap_or(0) as usize) {
            Some(i) => format!("(OCell {})", defs.cell_coq(&Cell::new_image(i.clone()))),
            None => "(OWraps true)".to_string(),
        },
        "scope" => {
            // inner operations, then set_wraps / set_face back to what ops tracking found at entry
            let mut parts: Vec<String> = op["ops"].as_array().cloned().unwrap_or_default().iter().map(|o| op_coq(defs, o)).collect();
            parts.push(format!("(OWraps {})", cbool(op["cur_wraps"].as_bool().unwrap_or(true))));
            parts.push(format!("(OFace {})", face_coq(&face_from(&op["cur"]))));
            parts.join("; ")
        }
        "char" => format!("(OChar {})", op["c"].as_u64().unwrap_or(63)),
        "cell" => format!("(OCell {})", defs.cell_coq(&defs.cell_from(op))),
        "face" => format!("(OFace {})", face_coq(&face_from(&op["face"]))),
        "wraps" => format!("(OWraps {})", cbool(op["b"].as_bool().unwrap_or(true))),
        "cursor" => format!("(OCursor {} {})", cnat(op["r"].as_u64().unwrap_or(0) as usize), cnat(op["c"].as_u64().unwrap_or(0) as usize)),
        "write" => {
            let chunks = clist(op["chunks"].as_array().map(|a| a.iter().map(|c| cbytes(&vbytes(c))).collect::<Vec<_>>()).unwrap_or_default());
            if op["via"].as_str() == Some("tty") {
                format!("(OWriteT {})", chunks)
            } else if op["via"].as_str() == Some("utf8") {
                format!("(OWriteU {})", chunks)
            } else {
                format!("(OWrite {})", chunks)
            }
        }
        _ => "(OWraps true)".to_string(),
    }
}

/// every character a case can possibly lay out (for the width table)
fn chars_of(input: &Value, out: &mut Vec<u32>) {
    match input {
        Value::Object(m) => {
            for (k, v) in m {
                match k.as_str() {
                    "c" | "ch" => out.extend(v.as_u64().map(|x| x as u32)),
                    "fb" | "s" => out.extend(vusizes(v).iter().map(|x| *x as u32)),
                    "chunks" => {
                        let bytes: Vec<u8> = v.as_array().map(|a| a.iter().flat_map(vbytes).collect()).unwrap_or_default();
                        decode_lenient(&bytes, out);
                    }
                    _ => chars_of(v, out),
                }
            }
        }
        Value::Array(a) => a.iter().for_each(|v| chars_of(v, out)),
        _ => {}
    }
}

/// the characters a UTF-8 automaton without range checks can produce from the stream
/// (every suffix start is tried, so that resynchronisation after an error is covered)
fn decode_lenient(bytes: &[u8], out: &mut Vec<u32>) {
    for i in 0..bytes.len() {
        let b = bytes[i] as u32;
        let (n, mut code) = if b < 0x80 {
            (0, b)
        } else if b >> 5 == 6 {
            (1, b & 31)
        } else if b >> 4 == 14 {
            (2, b & 15)
        } else if b >> 3 == 30 {
            (3, b & 7)
        } else {
            continue;
        };
        let mut ok = true;
        for k in 1..=n {
            match bytes.get(i + k) {
                Some(t) if t >> 6 == 2 => code = (code << 6) | (*t as u32 & 63),
                _ => ok = false,
            }
        }
        if ok {
            out.push(code);
        }
    }
}

// Well-shaped sequences that are not scalar values (surrogates, values above 0x10FFFF) are generated:
// the repaired decoder reports them as errors (Utf8Decoder) / raw bytes (tokenizer), and so does the model.

// ---------- escape sequences ----------
/// byte ranges of the form ESC [ [0-9:;]* m in a stream
fn sgr_seqs(bytes: &[u8]) -> Vec<Vec<u8>> {
    let mut out = vec![];
    let mut i = 0;
    while i < bytes.len() {
        if bytes[i] == 0x1b && bytes.get(i + 1) == Some(&b'[') {
            let mut j = i + 2;
            while j < bytes.len() && matches!(bytes[j], b'0'..=b'9' | b':' | b';') {
                j += 1;
            }
            if bytes.get(j) == Some(&b'm') {
                out.push(bytes[i..=j].to_vec());
            }
        }
        i += 1;
    }
    out
}

fn face_parts(f: &Face) -> (Option<u64>, Option<u64>, u64) {
    (f.fg.map(rgba_code), f.bg.map(rgba_code), attrs_bits(f.attrs))
}

/// ((sequence, face before), face after) for every SGR sequence of the program's tty writes and
/// every face reachable from the faces the program sets, as computed by the crate's own
/// TTYCommandDecoder + FaceModify::apply (their meaning is the subject of C06, not of C09)
fn sgr_table(ops: &[Value]) -> String {
    use surf_n_term::decoder::{Decoder, TTYCommandDecoder};
    let mut seqs: Vec<Vec<u8>> = vec![];
    let mut faces: Vec<Face> = vec![Face::default()];
    for op in ops {
        if op["o"] == "face" {
            faces.push(face_from(&op["face"]));
        }
        if op["o"] == "sess" {
            for it in op["items"].as_array().cloned().unwrap_or_default() {
                if it["o"] == "face" {
                    faces.push(face_from(&it["face"]));
                }
            }
            if op["via"].as_str() == Some("tty") {
                // a sequence may be completed across a parent operation
                for s in sgr_seqs(&session_bytes(op)) {
                    if !seqs.contains(&s) {
                        seqs.push(s);
                    }
                }
            }
        }
        if op["o"] == "write" && op["via"].as_str() == Some("tty") {
            let bytes: Vec<u8> = op["chunks"].as_array().map(|a| a.iter().flat_map(vbytes).collect()).unwrap_or_default();
            for s in sgr_seqs(&bytes) {
                if !seqs.contains(&s) {
                    seqs.push(s);
                }
            }
        }
    }
    if seqs.is_empty() {
        return "[]".to_string();
    }
    let mods: Vec<Option<surf_n_term::FaceModify>> = seqs
        .iter()
        .map(|s| {
            let mut d = TTYCommandDecoder::new();
            let mut cur = std::io::Cursor::new(&s[..]);
            match d.decode(&mut cur) {
                Ok(Some(TerminalCommand::FaceModify(m))) => Some(m),
                _ => None,
            }
        })
        .collect();
    let decode_mod = |s: &[u8]| -> Option<surf_n_term::FaceModify> {
        let mut d = TTYCommandDecoder::new();
        let mut cur = std::io::Cursor::new(s);
        match d.decode(&mut cur) {
            Ok(Some(TerminalCommand::FaceModify(m))) => Some(m),
            _ => None,
        }
    };
    let mut rows: Vec<String> = vec![];
    let mut row = |s: &[u8], f: &Face, g: &Face| {
        let (a, b, c) = face_parts(f);
        let (x, y, z) = face_parts(g);
        let r = format!("({}, {}, {})", cbytes(s), face_coq_parts(a, b, c), face_coq_parts(x, y, z));
        if !rows.contains(&r) {
            rows.push(r);
        }
    };
    // 1. the pairs (sequence, face before) the program actually goes through, followed in program order:
    //    a sequence takes effect at its final byte, whatever was done to the parent in between
    {
        let mut cur = Face::default();
        for op in ops {
            let tty = op["via"].as_str() == Some("tty");
            let items: Vec<Value> = if op["o"] == "sess" {
                op["items"].as_array().cloned().unwrap_or_default()
            } else if op["o"] == "write" && tty {
                vec![json!({"b": op["chunks"].as_array().map(|a| a.iter().flat_map(vbytes).collect::<Vec<u8>>()).unwrap_or_default()})]
            } else if op["o"] == "face" {
                vec![op.clone()]
            } else {
                vec![]
            };
            let mut buf: Vec<u8> = vec![];
            for it in items {
                if it["o"] == "face" {
                    cur = face_from(&it["face"]);
                } else if it["b"].is_array() && tty {
                    for b in vbytes(&it["b"]) {
                        buf.push(b);
                        if b == b'm' {
                            if let Some(start) = buf.iter().rposition(|x| *x == 0x1b) {
                                let seq = buf[start..].to_vec();
                                if sgr_seqs(&seq).first() == Some(&seq) {
                                    if let Some(m) = decode_mod(&seq) {
                                        let g = m.apply(cur);
                                        row(&seq, &cur, &g);
                                        cur = g;
                                    }
                                }
                            }
                        }
                    }
                }
            }
        }
    }
    // 2. and, as far as a bounded table goes, every sequence on every face reachable from the faces the program sets
    let mut k = 0;
    while k < faces.len() && faces.len() < 120 {
        let f = faces[k];
        for (s, m) in seqs.iter().zip(mods.iter()) {
            if let Some(m) = m {
                let g = m.apply(f);
                row(s, &f, &g);
                if !faces.iter().any(|h| face_parts(h) == face_parts(&g)) {
                    faces.push(g);
                }
            }
        }
        k += 1;
    }
    clist(rows)
}

/// the automaton of TTYCommandDecoder as the crate compiles it
pub fn dfa_preamble() -> String {
    let d = surf_n_term::decoder::verif::dump_dfa("command").expect("dump");
    let mut ranges: Vec<(usize, u8, u8, usize)> = vec![];
    for (f, s, t) in d.transitions.iter().cloned() {
        match ranges.last_mut() {
            Some((cf, _, hi, ct)) if *cf == f && *ct == t && *hi as u16 + 1 == s as u16 => *hi = s,
            _ => ranges.push((f, s, s, t)),
        }
    }
    let trans = clist(ranges.iter().map(|(f, lo, hi, t)| format!("({}, {}, {}, {})", cnat(*f), lo, hi, cnat(*t))));
    let infos = clist(d.infos.iter().map(|(a, t, tags)| {
        let tag = tags.first().and_then(|s| s.strip_prefix('M')).and_then(|s| s.parse::<usize>().ok()).unwrap_or(99);
        format!("({}, {}, {})", cbool(*a), cbool(*t), cnat(tag))
    }));
    format!("Definition the_dfa : dfa := mkDfa {} {} {}.\n", cnat(d.start), trans, infos)
}

fn run_w(input: &Value) -> Case {
    let h = input["H"].as_u64().unwrap_or(1) as usize;
    let w = input["W"].as_u64().unwrap_or(1) as usize;
    let vops = vops_from(&input["vops"]);
    let custom = if input["shape"].is_object() { Some(shape_from(&input["shape"])) } else { None };
    let len = input["len"].as_u64().map(|x| x as usize).unwrap_or(h * w);
    let defs = Defs::new(input);
    let mut ops: Vec<Value> = input["ops"].as_array().cloned().unwrap_or_default();
    let shape = custom.unwrap_or_else(|| chain_shape(h, w, &vops));
    let api_same = custom.is_some() || chain_shape_api(h, w, &vops) == shape;
    let mut chars = vec![];
    chars_of(input, &mut chars);
    // the writer's own decoder persists across write operations; utf8_writer() starts afresh
    let own_bytes: Vec<u8> = ops
        .iter()
        .filter(|o| o["o"] == "write" && o["via"].as_str() != Some("utf8") && o["via"].as_str() != Some("tty"))
        .flat_map(|o| o["chunks"].as_array().map(|a| a.iter().flat_map(vbytes).collect::<Vec<u8>>()).unwrap_or_default())
        .collect();
    decode_lenient(&own_bytes, &mut chars);
    for o in ops.iter().filter(|o| o["o"] == "sess") {
        decode_lenient(&session_bytes(o), &mut chars);
    }
    {
        let mut cur = json!({"fg": null, "bg": null, "attrs": 0});
        let mut cur_wraps = true;
        for o in ops.iter_mut() {
            if o["o"] == "face" {
                cur = o["face"].clone();
            }
            if o["o"] == "wraps" {
                cur_wraps = o["b"].as_bool().unwrap_or(true);
            }
            if o["o"] == "fmt" || o["o"] == "scope" {
                o["cur"] = cur.clone();
                o["cur_wraps"] = json!(cur_wraps);
            }
        }
    }
    let (r1, r2, r3) = {
        let d = &defs;
        let o = &ops;
        (
            catch(std::panic::AssertUnwindSafe(|| run_program(d, len, shape, o, 0))),
            catch(std::panic::AssertUnwindSafe(|| run_program(d, len, shape, o, 1))),
            catch(std::panic::AssertUnwindSafe(|| run_program(d, len, shape, o, 2))),
        )
    };
    let head = format!(
        "CW {} {} {} {} {} {} {} the_dfa {} {}",
        cnat(h),
        cnat(w),
        cnat(len),
        vops_coq(&vops),
        copt(custom.map(|s| shape_coq(&s))),
        cbool(input["glyphs"].as_bool().unwrap_or(true)),
        defs.width_table(&chars),
        sgr_table(&ops),
        clist(ops.iter().map(|o| op_coq(&defs, o)))
    );
    let fmt_with_tty = ops.iter().any(|o| o["o"] == "fmt" || o["o"] == "scope") && ops.iter().any(|o| o["via"].as_str() == Some("tty") || o["o"] == "sess");
    assert!(!fmt_with_tty, "generator invariant: fmt is not mixed with tty writes (the face before fmt must be known statically)");
    let mut j = input.clone();
    let res = |r: &Option<WOut>| match r {
        Some(o) if api_same => format!(
            "(WRes {} {} {} {})",
            cnums(&o.canvas),
            clist(o.flags.iter().map(|b| cbool(*b).to_string())),
            cnat(o.cur.0),
            cnat(o.cur.1)
        ),
        _ => "WPanic".to_string(),
    };
    j["impl"] = match &r1 {
        Some(o) => json!({"canvas": o.canvas, "flags": o.flags, "cursor": [o.cur.0, o.cur.1], "shape": [shape.start, shape.end, shape.width, shape.height, shape.row_stride, shape.col_stride]}),
        None => json!("panic"),
    };
    let multi = ops.iter().any(|o| o["o"] == "write" && o["chunks"].as_array().map(|a| a.len() >= 2).unwrap_or(false))
        || ops.iter().any(|o| o["o"] == "sess" && o["items"].as_array().map(|a| a.iter().filter(|i| i["b"].is_array()).count() >= 2).unwrap_or(false));
    let special = chars.iter().any(|c| {
        *c == 9 || *c == 10 || char::from_u32(*c).map(|ch| Cell::new_char(Face::default(), ch).size(&defs.ctx).width != 1).unwrap_or(false)
    }) || ops.iter().any(|o| o["o"] == "cell" && o["kind"]["t"] != "c");
    let area = shape.width * shape.height;
    let tags = vec![
        "kind=writer".to_string(),
        format!("view={}", if custom.is_some() { "strided" } else if vops.iter().any(|o| matches!(o, VOp::T)) { "transposed" } else if vops.is_empty() { "plain" } else { "offset" }),
        format!("area={}", if area == 0 { "0" } else if area < 4 { "1-3" } else { "4+" }),
        format!("multi_chunk={}", multi),
        format!("tty={}", ops.iter().any(|o| o["via"].as_str() == Some("tty"))),
        format!("session={}", ops.iter().any(|o| o["o"] == "sess")),
        format!("invalid_scalar_bytes={}", ops.iter().any(|o| {
            let b: Vec<u8> = if o["o"] == "sess" { session_bytes(o) } else { o["chunks"].as_array().map(|a| a.iter().flat_map(vbytes).collect()).unwrap_or_default() };
            b.windows(2).any(|w| (w[0] == 0xED && w[1] >= 0xA0) || (w[0] == 0xF4 && w[1] >= 0x90) || (0xF5..=0xF7).contains(&w[0]))
        })),
        format!("set_cursor={}", ops.iter().any(|o| o["o"] == "cursor")),
        format!("builder_form={}", input["ops"].to_string().contains("\"form\":\"with\"")),
        format!("scope={}", ops.iter().any(|o| o["o"] == "scope")),
        format!("put_image={}", input["ops"].to_string().contains("\"o\":\"image\"")),
        format!("write_entry={}", ops.iter().filter_map(|o| o["how"].as_str()).next().unwrap_or("write")),
        format!("fixed_sgr_split={}", input["fixed"].as_bool().unwrap_or(false)),
        format!("put_text={}", ops.iter().any(|o| o["o"] == "text" || (o["o"] == "sess" && o["items"].as_array().map(|a| a.iter().any(|i| i["o"] == "text")).unwrap_or(false)))),
        format!("glyphs={}", input["glyphs"].as_bool().unwrap_or(true)),
    ];
    Case { coq: format!("{} {} {} {}", head, res(&r1), res(&r2), res(&r3)), json: j, tags, nontrivial: area >= 2 && area < len && (multi || special) }
}

// ---------- text layout + render ----------
struct TOut {
    layout: (usize, usize),
    nat_h: usize,
    canvas: Vec<u64>,
    dims: (usize, usize),
    vops: Vec<VOp>,
}

fn run_text(defs: &Defs, input: &Value, text: &Text) -> TOut {
    // "str": the same characters as a plain string view (impl View for str) instead of a Text
    let as_str: Option<String> = if input["str"].as_bool().unwrap_or(false) {
        Some(
            input["cells"]
                .as_array()
                .map(|a| a.iter().filter_map(|c| c["kind"]["ch"].as_u64().and_then(|x| char::from_u32(x as u32))).collect())
                .unwrap_or_default(),
        )
    } else {
        None
    };
    let g = |k: &str, d: u64| input[k].as_u64().unwrap_or(d) as usize;
    let ct = vusizes(&input["ct"]);
    let ct = BoxConstraint::new(Size::new(ct[0], ct[1]), Size::new(ct[2], ct[3]));
    let mut store = ViewLayoutStore::new();
    // the height the same text takes at this width when the height is not constrained
    let nat_h = {
        let free = BoxConstraint::new(Size::new(0, 0), Size::new(1_000_000, ct.max().width));
        let mut store2 = ViewLayoutStore::new();
        match &as_str {
            Some(s) => s.as_str().layout_new(&defs.ctx, free, &mut store2).expect("layout").size().height,
            None => text.layout_new(&defs.ctx, free, &mut store2).expect("layout").size().height,
        }
    };
    let mut layout = match &as_str {
        Some(s) => s.as_str().layout_new(&defs.ctx, ct, &mut store).expect("layout"),
        None => text.layout_new(&defs.ctx, ct, &mut store).expect("layout"),
    };
    // the position a parent view would give the layout
    let (pr, pc) = (g("pr", 0), g("pc", 0));
    layout.set_position(Position::new(pr, pc));
    let size = layout.size();
    // canvas and view derived from the reported size: padding around, optional slack, optional transposition
    let pad = vusizes(&input["pad"]);
    let (eh, ew) = (g("eh", 0), g("ew", 0));
    // "clip": the view is smaller than the rectangle by that much (the layout then sticks out)
    let (clh, clw) = (g("clh", 0), g("clw", 0));
    let (vh, vw) = ((pr + size.height + eh).saturating_sub(clh), (pc + size.width + ew).saturating_sub(clw));
    let (mut hh, mut ww) = (pad[0] + vh + pad[2], pad[1] + vw + pad[3]);
    let transposed = input["transposed"].as_bool().unwrap_or(false);
    let mut vops = vec![];
    if transposed {
        std::mem::swap(&mut hh, &mut ww);
        vops.push(VOp::T);
    }
    if vh > 0 && vw > 0 {
        if input["chained"].as_bool().unwrap_or(false) {
            // the same window reached in three steps: a view, a transposition, a view taken in the transposed
            // coordinates, and the transposition back (the two transpositions do not cancel syntactically)
            vops.push(VOp::View(Sel::From(pad[0] as i64), Sel::To((pad[1] + vw) as i64)));
            vops.push(VOp::T);
            vops.push(VOp::View(Sel::From(pad[1] as i64), Sel::To(vh as i64)));
            vops.push(VOp::T);
        } else {
            vops.push(VOp::View(Sel::Rng(pad[0] as i64, (pad[0] + vh) as i64), Sel::Rng(pad[1] as i64, (pad[1] + vw) as i64)));
        }
    } else {
        vops.push(VOp::View(Sel::Rng(0, 0), Sel::Rng(0, 0)));
    }
    let shape = chain_shape(hh, ww, &vops);
    let mut data = canvas(hh * ww);
    {
        let surf = SurfaceMutView::new(shape, &mut data[..]);
        match &as_str {
            Some(s) => s.as_str().render(&defs.ctx, surf, layout.view()).expect("render"),
            None => text.render(&defs.ctx, surf, layout.view()).expect("render"),
        }
    }
    let mut nums = vec![];
    for c in &data {
        defs.cell_nums(c, &mut nums);
    }
    TOut { layout: (size.height, size.width), nat_h, canvas: nums, dims: (hh, ww), vops }
}

fn run_t(input: &Value) -> Case {
    let defs = Defs::new(input);
    let mut text = Text::new();
    text.set_wraps(input["wraps"].as_bool().unwrap_or(true));
    for c in input["cells"].as_array().cloned().unwrap_or_default() {
        text.put_cell(defs.cell_from(&c));
    }
    let mut chars = vec![];
    chars_of(input, &mut chars);
    let out = {
        let d = &defs;
        let t = &text;
        catch(std::panic::AssertUnwindSafe(|| run_text(d, input, t)))
    };
    let ct = vusizes(&input["ct"]);
    let cells = clist(text.cells().iter().map(|c| defs.cell_coq(c)));
    let mut j = input.clone();
    let (coq, nontrivial, area) = match &out {
        Some(o) => {
            j["impl"] = json!({"layout": [o.layout.0, o.layout.1], "canvas": o.canvas, "dims": [o.dims.0, o.dims.1]});
            (
                format!(
                    "CT {} {} {} {} {} {} {} {} {} {} {} {} {} (TRes {} {} {} {})",
                    cnat(o.dims.0),
                    cnat(o.dims.1),
                    vops_coq(&o.vops),
                    cbool(input["glyphs"].as_bool().unwrap_or(true)),
                    defs.width_table(&chars),
                    cells,
                    cbool(input["wraps"].as_bool().unwrap_or(true)),
                    cnat(ct[0]),
                    cnat(ct[1]),
                    cnat(ct[2]),
                    cnat(ct[3]),
                    cnat(input["pr"].as_u64().unwrap_or(0) as usize),
                    cnat(input["pc"].as_u64().unwrap_or(0) as usize),
                    cnat(o.layout.0),
                    cnat(o.layout.1),
                    cnat(o.nat_h),
                    cnums(&o.canvas)
                ),
                o.layout.0 * o.layout.1 >= 2,
                o.layout.0 * o.layout.1,
            )
        }
        None => {
            j["impl"] = json!("panic");
            (
                format!(
                    "CT 0%nat 0%nat [] {} {} {} {} {} {} {} {} 0%nat 0%nat TPanic",
                    cbool(input["glyphs"].as_bool().unwrap_or(true)),
                    defs.width_table(&chars),
                    cells,
                    cbool(input["wraps"].as_bool().unwrap_or(true)),
                    cnat(ct[0]),
                    cnat(ct[1]),
                    cnat(ct[2]),
                    cnat(ct[3])
                ),
                true,
                0,
            )
        }
    };
    if input["known_class"].is_array() {
        j["known_class"] = input["known_class"].clone();
    }
    let tags = vec![
        "kind=text".to_string(),
        format!("wraps={}", input["wraps"].as_bool().unwrap_or(true)),
        format!("glyphs={}", input["glyphs"].as_bool().unwrap_or(true)),
        format!("view={}", if input["transposed"].as_bool().unwrap_or(false) { "transposed" } else { "offset" }),
        format!("maxw={}", ct[3].min(13)),
        format!("str_view={}", input["str"].as_bool().unwrap_or(false)),
        format!("area={}", if area == 0 { "0" } else if area < 4 { "1-3" } else { "4+" }),
        format!("chained_view={}", input["chained"].as_bool().unwrap_or(false) && area > 0),
        format!("layout_position={}", if input["pr"].as_u64().unwrap_or(0) > 0 || input["pc"].as_u64().unwrap_or(0) > 0 { "nonzero" } else { "origin" }),
        format!("clipped={}", input["clh"].as_u64().unwrap_or(0) > 0 || input["clw"].as_u64().unwrap_or(0) > 0),
        // the view is exactly the reported rectangle, and the constraint is exactly the measured height
        format!("exact_fit_view={}", ["eh", "ew", "clh", "clw"].iter().all(|k| input[*k].as_u64().unwrap_or(0) == 0) && area > 0),
        format!("exact_fit_height={}", match &out { Some(o) => o.nat_h == ct[2] && o.nat_h > 0, None => false }),
        format!("height_cut={}", match &out { Some(o) => o.nat_h > ct[2], None => false }),
    ];
    Case { coq, json: j, tags, nontrivial }
}

// ---------- Text deserialised from JSON ----------
fn jface_str(v: &Value) -> String {
    let mut parts = vec![];
    if let Some(c) = v["fg"].as_u64() {
        parts.push(format!("fg=#{:06x}", c >> 8));
    }
    if let Some(c) = v["bg"].as_u64() {
        parts.push(format!("bg=#{:06x}", c >> 8));
    }
    for (name, on) in [("bold", v["bold"].as_bool()), ("italic", v["italic"].as_bool()), ("underline", v["underline"].as_bool())] {
        if on == Some(true) {
            parts.push(name.to_string());
        }
    }
    parts.join(",")
}

/// the document handed to the library
fn jdoc(node: &Value) -> Value {
    match node["t"].as_str().unwrap_or("") {
        "s" => json!(vusizes(&node["s"]).iter().filter_map(|c| char::from_u32(*c as u32)).collect::<String>()),
        "a" => Value::Array(node["items"].as_array().cloned().unwrap_or_default().iter().map(jdoc).collect()),
        _ => {
            let mut m = serde_json::Map::new();
            if node["face"].is_object() {
                m.insert("face".to_string(), json!(jface_str(&node["face"])));
            }
            if let Some(b) = node["wraps"].as_bool() {
                m.insert("wraps".to_string(), json!(b));
            }
            if node["glyph"].is_object() {
                let g = &node["glyph"];
                let fb: String = vusizes(&g["fb"]).iter().filter_map(|c| char::from_u32(*c as u32)).collect();
                m.insert("glyph".to_string(), json!({"path": "M0,0L1,1L1,0Z", "size": {"height": g["h"], "width": g["w"]}, "fallback": fb}));
            }
            if !node["text"].is_null() {
                m.insert("text".to_string(), jdoc(&node["text"]));
            }
            Value::Object(m)
        }
    }
}

/// the document as the model sees it: faces as the crate's own Face parser reads them (their syntax is
/// not C09's subject)
fn jcoq(node: &Value) -> String {
    match node["t"].as_str().unwrap_or("") {
        "s" => format!("(TxStr {})", clist(vusizes(&node["s"]).iter().map(|c| c.to_string()))),
        "a" => format!("(TxArr {})", clist(node["items"].as_array().cloned().unwrap_or_default().iter().map(jcoq))),
        _ => {
            let face = if node["face"].is_object() {
                let f: Face = jface_str(&node["face"]).parse().unwrap_or_default();
                format!("(Some {})", face_coq(&f))
            } else {
                "None".to_string()
            };
            let wr = match node["wraps"].as_bool() {
                Some(b) => format!("(Some {})", cbool(b)),
                None => "None".to_string(),
            };
            let body = if node["glyph"].is_object() {
                let g = &node["glyph"];
                format!(
                    "(JBGlyph (KGlyph 999 {} {} {}) {})",
                    cnat(g["h"].as_u64().unwrap_or(1) as usize),
                    cnat(g["w"].as_u64().unwrap_or(1) as usize),
                    clist(vusizes(&g["fb"]).iter().map(|c| c.to_string())),
                    // the "text" such an object may carry reaches model and predicate as part of the document
                    if node["text"].is_null() { "None".to_string() } else { format!("(Some {})", jcoq(&node["text"])) }
                )
            } else if !node["text"].is_null() {
                format!("(JBText {})", jcoq(&node["text"]))
            } else {
                "JBNone".to_string()
            };
            format!("(TxObj {} {} {})", face, wr, body)
        }
    }
}

fn run_j(input: &Value) -> Case {
    let defs = Defs::new(&json!({"glyph_defs": [], "image_defs": [], "glyphs": true}));
    let doc = jdoc(&input["doc"]);
    let res = catch(std::panic::AssertUnwindSafe(|| serde_json::from_value::<Text>(doc.clone()).ok().map(|t| (t.cells().to_vec(), t.wraps(), t.face()))));
    let mut j = input.clone();
    j["json"] = doc;
    let (coq_res, ncells) = match &res {
        Some(Some((cells, wraps, face))) => {
            j["impl"] = json!({"cells": cells.len(), "wraps": wraps});
            (format!("(JRes {} {} {})", clist(cells.iter().map(|c| defs.cell_coq(c))), cbool(*wraps), face_coq(face)), cells.len())
        }
        Some(None) => {
            j["impl"] = json!("error");
            ("JError".to_string(), 0)
        }
        None => {
            j["impl"] = json!("panic");
            ("JPanic".to_string(), 0)
        }
    };
    fn depth(n: &Value) -> usize {
        match n["t"].as_str().unwrap_or("") {
            "s" => 0,
            "a" => 1 + n["items"].as_array().map(|a| a.iter().map(depth).max().unwrap_or(0)).unwrap_or(0),
            _ => 1 + if n["text"].is_null() { 0 } else { depth(&n["text"]) },
        }
    }
    let d = depth(&input["doc"]);
    fn glyph_with_text(n: &Value) -> bool {
        match n["t"].as_str().unwrap_or("") {
            "s" => false,
            "a" => n["items"].as_array().map(|a| a.iter().any(glyph_with_text)).unwrap_or(false),
            _ => (n["glyph"].is_object() && !n["text"].is_null()) || (!n["text"].is_null() && glyph_with_text(&n["text"])),
        }
    }
    let tags = vec!["kind=json_text".to_string(), format!("json_glyph_with_text={}", glyph_with_text(&input["doc"])), format!("json_depth={}", d.min(4)), format!("json_cells={}", if ncells == 0 { "0" } else if ncells < 4 { "1-3" } else { "4+" })];
    Case { coq: format!("CJ {} {}", jcoq(&input["doc"]), coq_res), json: j, tags, nontrivial: d >= 2 && ncells >= 2 }
}

fn gen_jface(rng: &mut Rng) -> Value {
    let col = |rng: &mut Rng| -> Value {
        if rng.chance(1, 2) {
            Value::Null
        } else {
            json!(((rng.below(256) << 24) | (rng.below(256) << 16) | (rng.below(256) << 8) | 255) as u64)
        }
    };
    json!({"fg": col(rng), "bg": col(rng), "bold": rng.chance(1, 3), "italic": rng.chance(1, 4), "underline": rng.chance(1, 5)})
}

fn gen_jtext(rng: &mut Rng, depth: usize) -> Value {
    match rng.below(if depth == 0 { 1 } else { 6 }) {
        0 => {
            let n = rng.below(4) as usize;
            json!({"t": "s", "s": (0..n).map(|_| gen_char(rng, true)).collect::<Vec<u32>>()})
        }
        1 | 2 => {
            let n = rng.below(4) as usize;
            json!({"t": "a", "items": (0..n).map(|_| gen_jtext(rng, depth - 1)).collect::<Vec<Value>>()})
        }
        _ => {
            let mut o = json!({"t": "o"});
            if rng.chance(2, 3) {
                o["face"] = gen_jface(rng);
            }
            if rng.chance(1, 4) {
                o["wraps"] = json!(rng.chance(1, 2));
            }
            if rng.chance(1, 5) {
                o["glyph"] = json!({"h": 1 + rng.below(2), "w": 1 + rng.below(3), "fb": (0..rng.below(3)).map(|_| gen_char(rng, false)).collect::<Vec<u32>>()});
            }
            // a glyph object may carry a "text" too: the glyph wins and the text is not visited
            if rng.chance(4, 5) {
                o["text"] = gen_jtext(rng, depth - 1);
            }
            o
        }
    }
}

fn gen_j(rng: &mut Rng, v: &mut Vec<Value>) {
    let d = 1 + rng.below(4) as usize;
    v.push(json!({"k": "j", "doc": gen_jtext(rng, d)}));
}

pub fn run(input: &Value) -> Case {
    if input["k"].as_str() == Some("t") {
        run_t(input)
    } else if input["k"].as_str() == Some("j") {
        run_j(input)
    } else {
        run_w(input)
    }
}

// ---------- generators ----------
const NARROW: [u32; 8] = [97, 98, 99, 100, 120, 121, 122, 32];
const MULTI: [u32; 3] = [0xE9, 0x20AC, 0x3B1]; // 2- and 3-byte, width 1
const WIDE: [u32; 3] = [0x6F22, 0x3042, 0x1F600]; // width 2 (3- and 4-byte)
const ZERO: [u32; 3] = [0x301, 0x200B, 7]; // combining, zero width space, control (width None)

fn gen_char(rng: &mut Rng, specials: bool) -> u32 {
    match rng.below(20) {
        0..=8 => *rng.pick(&NARROW),
        9 | 10 => *rng.pick(&MULTI),
        11..=13 => *rng.pick(&WIDE),
        14 => *rng.pick(&ZERO),
        15 | 16 if specials => 10,
        17 if specials => 9,
        18 if specials && rng.chance(1, 3) => 13,
        _ => *rng.pick(&NARROW),
    }
}

fn gen_face(rng: &mut Rng) -> Value {
    let col = |rng: &mut Rng| -> Value {
        if rng.chance(1, 2) {
            Value::Null
        } else {
            json!(((rng.below(256) << 24) | (rng.below(256) << 16) | (rng.below(256) << 8) | 255) as u64)
        }
    };
    let attrs = if rng.chance(1, 2) { 0 } else { rng.below(6) | (rng.below(32) << 3) };
    json!({"fg": col(rng), "bg": col(rng), "attrs": attrs})
}

/// a face whose underline style is at most straight (SGR underline is OR-ed into the style bits by
/// FaceModify::apply; styles above 1 could combine to values the public API cannot report)
fn gen_face_plain_underline(rng: &mut Rng) -> Value {
    let mut f = gen_face(rng);
    let a = f["attrs"].as_u64().unwrap_or(0);
    f["attrs"] = json!((a & !7) | (a & 1));
    f
}

const SGR_PARAMS: [&str; 22] = [
    "", "0", "1", "3", "4", "5", "9", "21", "23", "24", "25", "29", "31", "92", "44", "103", "38;5;196", "48;5;21", "38;2;1;2;3", "48;2;200;100;50",
    "38:5:33", "58;5;1",
];

fn gen_tty_bytes(rng: &mut Rng, maxitems: usize) -> Vec<u8> {
    let n = 1 + rng.below(maxitems as u64) as usize;
    let mut b = vec![];
    for _ in 0..n {
        match rng.below(10) {
            0..=3 => b.extend(utf8_of(&[gen_char(rng, true)])),
            4..=7 => {
                b.extend(b"\x1b[");
                let k = rng.below(3) as usize;
                for i in 0..=k {
                    if i > 0 || rng.chance(1, 8) {
                        b.push(b';');
                    }
                    b.extend(rng.pick(&SGR_PARAMS).as_bytes());
                }
                if rng.chance(1, 8) {
                    b.push(b';');
                }
                b.push(b'm');
            }
            8 => {
                // broken sequences: lone ESC, aborted CSI, ESC before a complete sequence
                match rng.below(4) {
                    0 => b.push(0x1b),
                    1 => b.extend(b"\x1b[1;x"),
                    2 => b.extend(b"\x1b\x1b[1m"),
                    _ => b.extend(b"\x1b[3"),
                }
            }
            _ => match rng.below(3) {
                0 => b.extend(*rng.pick(&[&[0xEDu8, 0xA0, 0x80][..], &[0xF4, 0x90, 0x80, 0x80], &[0xF7, 0xBF, 0xBF, 0xBF]])),
                _ => b.push(*rng.pick(&[0x80u8, 0xFF, 0xC3])),
            },
        }
    }
    b
}

fn gen_defs(rng: &mut Rng) -> (Value, Value) {
    let ng = 1 + rng.below(3) as usize;
    let glyphs: Vec<Value> = (0..ng)
        .map(|_| {
            let n = rng.below(8) as usize;
            let fb: Vec<u32> = (0..n).map(|_| if rng.chance(1, 5) { *rng.pick(&WIDE) } else if rng.chance(1, 8) { *rng.pick(&ZERO) } else if rng.chance(1, 8) { *rng.pick(&[10u32, 9, 13]) } else { *rng.pick(&NARROW) }).collect();
            json!({"h": rng.below(3), "w": rng.below(4), "fb": fb})
        })
        .collect();
    let ni = 1 + rng.below(2) as usize;
    let images: Vec<Value> = (0..ni)
        .map(|_| json!({"ph": rng.below(2 * PPC_H as u64 + 2), "pw": rng.below(3 * PPC_W as u64 + 2)}))
        .collect();
    (Value::Array(glyphs), Value::Array(images))
}

fn gen_cell(rng: &mut Rng, ng: usize, ni: usize, specials: bool) -> Value {
    let kind = match rng.below(12) {
        0 | 1 => json!({"t": "g", "id": rng.below(ng as u64)}),
        2 => json!({"t": "i", "id": rng.below(ni as u64)}),
        _ => json!({"t": "c", "ch": gen_char(rng, specials)}),
    };
    json!({"face": gen_face(rng), "kind": kind})
}

fn utf8_of(chars: &[u32]) -> Vec<u8> {
    chars.iter().filter_map(|c| char::from_u32(*c)).collect::<String>().into_bytes()
}

fn gen_bytes(rng: &mut Rng, maxchars: usize) -> Vec<u8> {
    let n = 1 + rng.below(maxchars as u64) as usize;
    let chars: Vec<u32> = (0..n).map(|_| gen_char(rng, true)).collect();
    let mut b = utf8_of(&chars);
    if rng.chance(1, 6) && !b.is_empty() {
        // malformed: a stray continuation / invalid lead byte, or a truncated sequence
        let at = rng.below(b.len() as u64 + 1) as usize;
        match rng.below(5) {
            0 => b.insert(at, *rng.pick(&[0x80u8, 0xBF, 0xFF, 0xF8])),
            1 => b.insert(at, 0xE2),
            2 | 3 => {
                // well-shaped sequences that are not scalar values: surrogates, above U+10FFFF
                let seq: &[u8] = *rng.pick(&[&[0xEDu8, 0xA0, 0x80][..], &[0xED, 0xBF, 0xBF], &[0xF4, 0x90, 0x80, 0x80], &[0xF7, 0xBF, 0xBF, 0xBF]]);
                for (k, x) in seq.iter().enumerate() {
                    b.insert(at + k, *x);
                }
            }
            _ => {
                b.truncate(at.max(1));
            }
        }
    }
    b
}

fn random_cuts(rng: &mut Rng, b: &[u8]) -> Vec<Vec<u8>> {
    let mut chunks = vec![];
    let mut cur = vec![];
    for x in b {
        cur.push(*x);
        if rng.chance(1, 3) {
            chunks.push(std::mem::take(&mut cur));
        }
    }
    if !cur.is_empty() || chunks.is_empty() {
        chunks.push(cur);
    }
    if rng.chance(1, 10) {
        chunks.insert(rng.below(chunks.len() as u64 + 1) as usize, vec![]);
    }
    chunks
}

fn gen_view(rng: &mut Rng) -> (usize, usize, Vec<Value>, Value, usize) {
    let h = 1 + rng.below(7) as usize;
    let w = 1 + rng.below(9) as usize;
    if rng.chance(1, 5) {
        // strided shape built by hand over a larger slice
        let vh = 1 + rng.below(4) as usize;
        let vw = 1 + rng.below(5) as usize;
        let start = rng.below(4) as usize;
        let (rs, cs);
        if rng.chance(1, 2) {
            cs = 1 + rng.below(3) as usize;
            rs = vw * cs + rng.below(3) as usize;
        } else {
            rs = 1 + rng.below(3) as usize;
            cs = vh * rs + rng.below(3) as usize;
        }
        let last = start + (vh - 1) * rs + (vw - 1) * cs;
        let len = last + 1 + rng.below(4) as usize;
        let shape = json!({"start": start, "end": last + 1, "width": vw, "height": vh, "rs": rs, "cs": cs});
        return (1, len, vec![], shape, len);
    }
    let depth = rng.below(4) as usize;
    let mut ops = vec![];
    let (mut ch, mut cw) = (h, w);
    for _ in 0..depth {
        if rng.chance(1, 3) {
            ops.push(json!("t"));
            std::mem::swap(&mut ch, &mut cw);
        } else {
            let r = Sel::random(rng, ch);
            let c = Sel::random(rng, cw);
            ch = r.clone().view_bounds(ch).map(|(a, b)| b - a).unwrap_or(0);
            cw = c.clone().view_bounds(cw).map(|(a, b)| b - a).unwrap_or(0);
            if ch == 0 || cw == 0 {
                ch = 0;
                cw = 0;
            }
            ops.push(json!({"r": r.json(), "c": c.json()}));
        }
    }
    (h, w, ops, Value::Null, h * w)
}

fn gen_w(rng: &mut Rng, v: &mut Vec<Value>, bnd: &[u64]) {
    let (h, w, vops, shape, len) = gen_view(rng);
    let (gd, id) = gen_defs(rng);
    let (ng, ni) = (gd.as_array().unwrap().len(), id.as_array().unwrap().len());
    let glyphs = rng.chance(1, 2);
    let tty_case = rng.chance(2, 5);
    let base = |ops: Vec<Value>| json!({"k": "w", "H": h, "W": w, "len": len, "vops": vops, "shape": shape, "glyphs": glyphs, "glyph_defs": gd, "image_defs": id, "ops": ops});
    if rng.chance(1, 12) {
        // every partition of a short byte string, as a family of cases
        let mut b = if tty_case { gen_tty_bytes(rng, 2) } else { gen_bytes(rng, 3) };
        b.truncate(if tty_case { 7 } else { 6 });
        let pre: Vec<Value> = if rng.chance(1, 2) { vec![json!({"o": "face", "face": gen_face_plain_underline(rng)})] } else { vec![] };
        let via = if tty_case { "tty" } else if rng.chance(1, 3) { "utf8" } else { "writer" };
        let n = b.len();
        for mask in 0..(1u32 << n.saturating_sub(1)) {
            let mut chunks = vec![];
            let mut cur = vec![];
            for (i, x) in b.iter().enumerate() {
                cur.push(*x);
                if i + 1 < n && mask & (1 << i) != 0 {
                    chunks.push(std::mem::take(&mut cur));
                }
            }
            chunks.push(cur);
            let mut ops = pre.clone();
            ops.push(json!({"o": "write", "via": via, "chunks": chunks.iter().map(|c| jbytes(c)).collect::<Vec<_>>()}));
            v.push(base(ops));
        }
        return;
    }
    let nops = 1 + rng.below(8) as usize;
    let mut ops = vec![];
    if rng.chance(1, 4) {
        ops.push(json!({"o": "wraps", "b": false}));
    }
    // cases with sessions (one adapter, parent() between its writes) carry no put_fmt: the face
    // before put_fmt must be known statically, a failed session leaves it open
    let sess_case = rng.chance(1, 3);
    let tty_case = tty_case || (sess_case && rng.chance(1, 2));
    let gen_simple = |rng: &mut Rng| -> Value {
        match rng.below(7) {
            0 | 1 => json!({"o": "char", "c": gen_char(rng, true)}),
            2 => {
                let mut c = gen_cell(rng, ng, ni, true);
                c["o"] = json!("cell");
                c
            }
            3 => json!({"o": "face", "face": gen_face_plain_underline(rng)}),
            4 => json!({"o": "wraps", "b": rng.chance(1, 2)}),
            5 => json!({"o": "cursor", "r": rng.below(5), "c": rng.below(7)}),
            _ => json!({"o": "text", "cells": (0..rng.below(4)).map(|_| gen_cell(rng, ng, ni, true)).collect::<Vec<Value>>()}),
        }
    };
    let gen_simple = |rng: &mut Rng| -> Value {
        if ni > 0 && rng.chance(1, 10) {
            return json!({"o": "image", "id": rng.below(ni as u64)});
        }
        let mut o = gen_simple(rng);
        if o["o"] != "cursor" && rng.chance(1, 4) {
            o["form"] = json!("with");
        }
        o
    };
    const HOW: [&str; 8] = ["write", "write", "write", "write_all", "vectored", "fmt", "flush", "write_all"];
    for _ in 0..nops {
        if sess_case && rng.chance(1, 2) {
            // the bytes of one stream cut anywhere (inside characters and escape sequences too), parent
            // operations dropped between some of the pieces
            let via_tty = tty_case && rng.chance(2, 3);
            let b = if via_tty { gen_tty_bytes(rng, 6) } else { gen_bytes(rng, 6) };
            let mut items = vec![];
            for c in random_cuts(rng, &b) {
                items.push(json!({"b": jbytes(&c)}));
                if rng.chance(1, 2) {
                    items.push(gen_simple(rng));
                }
            }
            ops.push(json!({"o": "sess", "via": if via_tty { "tty" } else { "utf8" }, "items": items}));
            continue;
        }
        if rng.chance(1, 10) {
            ops.push(json!({"o": "text", "cells": (0..rng.below(5)).map(|_| gen_cell(rng, ng, ni, true)).collect::<Vec<Value>>()}));
            continue;
        }
        if rng.chance(1, 8) {
            // builder forms, put_image
            let mut o = gen_simple(rng);
            if tty_case && o["o"] == "face" {
                o["face"] = gen_face_plain_underline(rng);
            }
            ops.push(o);
            continue;
        }
        if !tty_case && !sess_case && rng.chance(1, 12) {
            let inner: Vec<Value> = (0..1 + rng.below(4)).map(|_| gen_simple(rng)).collect();
            ops.push(json!({"o": "scope", "ops": inner}));
            continue;
        }
        ops.push(match rng.below(12) {
            0..=2 => json!({"o": "char", "c": gen_char(rng, true)}),
            3..=5 => {
                let mut c = gen_cell(rng, ng, ni, true);
                c["o"] = json!("cell");
                c
            }
            6 => json!({"o": "face", "face": if tty_case { gen_face_plain_underline(rng) } else { gen_face(rng) }}),
            8 if !tty_case && !sess_case => {
                let n = rng.below(6) as usize;
                let chars: Vec<u32> = (0..n).map(|_| gen_char(rng, true)).collect();
                json!({"o": "fmt", "s": chars, "face": if rng.chance(1, 2) { gen_face(rng) } else { Value::Null }})
            }
            7 => json!({"o": "wraps", "b": rng.chance(1, 2)}),
            9 if rng.chance(1, 2) => json!({"o": "cursor", "r": rng.below(5), "c": rng.below(7)}),
            _ if tty_case && rng.chance(2, 3) => {
                let b = gen_tty_bytes(rng, 6);
                let chunks = random_cuts(rng, &b);
                json!({"o": "write", "via": "tty", "how": *rng.pick(&HOW), "chunks": chunks.iter().map(|c| jbytes(c)).collect::<Vec<_>>()})
            }
            _ => {
                // now and then a run of plain characters whose length is a constant of the source (tab stops, widths)
                let b = if rng.chance(1, 8) { vec![b'a' + rng.below(3) as u8; *rng.pick(&bnd) as usize] } else { gen_bytes(rng, 6) };
                let chunks = random_cuts(rng, &b);
                json!({"o": "write", "via": if rng.chance(1, 3) { "utf8" } else { "writer" }, "how": *rng.pick(&HOW), "chunks": chunks.iter().map(|c| jbytes(c)).collect::<Vec<_>>()})
            }
        });
    }
    v.push(base(ops));
}

fn gen_t(rng: &mut Rng, v: &mut Vec<Value>, bnd: &[u64]) {
    let (gd, id) = gen_defs(rng);
    let (ng, ni) = (gd.as_array().unwrap().len(), id.as_array().unwrap().len());
    // text length and available width: small numbers, now and then a constant of the source or a neighbour
    let n = if rng.chance(1, 8) { *rng.pick(bnd) as usize } else { rng.below(14) as usize };
    let cr = rng.chance(1, 10);
    let cells: Vec<Value> = (0..n)
        .map(|_| {
            let mut c = gen_cell(rng, ng, ni, true);
            if !cr && c["kind"]["ch"] == 13 {
                c["kind"]["ch"] = json!(10);
            }
            c
        })
        .collect();
    let is_str = rng.chance(1, 6);
    let cells: Vec<Value> = if is_str {
        cells
            .into_iter()
            .map(|mut c| {
                if c["kind"]["t"] != "c" {
                    c["kind"] = json!({"t": "c", "ch": gen_char(rng, true)});
                }
                c["face"] = json!({"fg": null, "bg": null, "attrs": 0});
                c
            })
            .collect()
    } else {
        cells
    };
    let maxw = if rng.chance(1, 8) { (*rng.pick(bnd) as usize).max(1) } else { 1 + rng.below(12) as usize };
    let maxh = if rng.chance(1, 4) { rng.below(6) as usize } else { 60 };
    let minw = if rng.chance(1, 4) { rng.below(maxw as u64 + 1) as usize } else { 0 };
    let minh = if rng.chance(1, 6) { rng.below(maxh.min(5) as u64 + 1) as usize } else { 0 };
    let pad: Vec<usize> = (0..4).map(|_| rng.below(3) as usize).collect();
    v.push(json!({"k": "t", "glyphs": rng.chance(1, 2), "glyph_defs": gd, "image_defs": id, "cells": cells,
        "str": is_str, "wraps": is_str || rng.chance(2, 3), "ct": [minh, minw, maxh, maxw], "pad": pad,
        "eh": if rng.chance(1, 4) { rng.below(3) } else { 0 }, "ew": if rng.chance(1, 4) { rng.below(3) } else { 0 },
        "pr": if rng.chance(1, 3) { rng.below(4) } else { 0 }, "pc": if rng.chance(1, 3) { rng.below(4) } else { 0 },
        "clh": if rng.chance(1, 10) { 1 + rng.below(2) } else { 0 }, "clw": if rng.chance(1, 10) { 1 + rng.below(2) } else { 0 },
        "chained": rng.chance(1, 4), "transposed": rng.chance(1, 3)}));
}

/// ONE escape-sequence adapter fed an SGR sequence in every 2- and 3-way split and byte by byte, followed by chunks
/// that are plain ASCII without ESC (what a fast path for plain text would take) -- among them the tail of the
/// sequence itself; as chunks of one write operation and as a session with a parent operation in between
fn fixed_cases() -> Vec<Value> {
    let mut v = vec![];
    let base = |ops: Vec<Value>| json!({"k": "w", "H": 3, "W": 9, "len": 27, "vops": [{"r": {"f": "rng", "a": 1, "b": 3}, "c": {"f": "rng", "a": 1, "b": 8}}], "shape": null,
                                         "glyphs": true, "glyph_defs": [], "image_defs": [], "ops": ops, "fixed": true});
    let seqs: [&[u8]; 4] = [b"\x1b[1m", b"\x1b[0;31m", b"\x1b[38;5;196m", b"\x1b[48;2;1;2;3m"];
    for seq in seqs.iter() {
        let n = seq.len();
        let mut cuts: Vec<Vec<usize>> = vec![vec![]];
        for i in 1..n {
            cuts.push(vec![i]);
            for j in i + 1..n {
                cuts.push(vec![i, j]);
            }
        }
        cuts.push((1..n).collect());
        // at most 40 splits per sequence, the byte-by-byte one always
        let step = (cuts.len() / 40).max(1);
        let last = cuts.len() - 1;
        for (k, cut) in cuts.iter().enumerate() {
            if k % step != 0 && k != last {
                continue;
            }
            let mut chunks: Vec<Vec<u8>> = vec![];
            let mut from = 0;
            for c in cut.iter().chain(std::iter::once(&n)) {
                chunks.push(seq[from..*c].to_vec());
                from = *c;
            }
            chunks.push(b"ab1m".to_vec());
            chunks.push(b";2m c".to_vec());
            let jc: Vec<Value> = chunks.iter().map(|c| jbytes(c)).collect();
            v.push(base(vec![json!({"o": "char", "c": 120}), json!({"o": "write", "via": "tty", "chunks": jc}), json!({"o": "char", "c": 122})]));
            let mut items: Vec<Value> = vec![];
            for (i, c) in chunks.iter().enumerate() {
                items.push(json!({"b": jbytes(c)}));
                if i == 0 {
                    items.push(json!({"o": "char", "c": 121}));
                }
            }
            v.push(base(vec![json!({"o": "sess", "via": "tty", "items": items}), json!({"o": "char", "c": 122})]));
        }
    }
    // the same for a multi-byte character through the writer's own io::Write and through utf8_writer()
    for via in ["writer", "utf8"] {
        for how in ["write", "write_all", "vectored", "fmt", "flush"] {
            let chunks: Vec<Value> = [&[0xE2u8][..], &[0x82], &[0xAC, b'a'], b"bc"].iter().map(|c| jbytes(c)).collect();
            v.push(base(vec![json!({"o": "write", "via": via, "how": how, "chunks": chunks}), json!({"o": "char", "c": 122})]));
        }
    }
    v
}

const BOUNDARY_FILES: [&str; 2] = ["src/render.rs", "src/view/text.rs"];

pub fn generate(rng: &mut Rng, n: usize, _tier: &str) -> Vec<Value> {
    let mut bnd = source_boundaries(&BOUNDARY_FILES, 40);
    if bnd.is_empty() {
        bnd.push(8);
    }
    let mut v = fixed_cases();
    let n = n + v.len();
    while v.len() < n {
        if rng.chance(1, 10) {
            gen_j(rng, &mut v);
        } else if rng.chance(1, 2) {
            gen_t(rng, &mut v, &bnd);
        } else {
            gen_w(rng, &mut v, &bnd);
        }
    }
    v.truncate(n);
    v
}

pub fn batch(inputs: &[Value]) -> Batch {
    Batch {
        prop: "C09",
        coq_import: "Corr.C09Corr",
        case_type: "c09_case",
        report_fn: "c09_report",
        rule: "writer program over a window of >= 2 cells that is a proper part of the canvas and contains a multi-chunk write or a wide / zero-width / tab / newline / glyph / image cell; or a text whose layout has >= 2 cells; distinct by input",
        cases: inputs.iter().map(run).collect(),
        preamble: dfa_preamble(),
    }
}
