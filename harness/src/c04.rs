//! C04: every well-formed terminal report or key sequence decodes to what it encodes.
//! Reports are printed by a mirror of the Coq protocol printer (Decoder/Printer.v; the Coq
//! side re-prints every case and compares the bytes), concatenated, cut into chunks and fed to
//! the real TTYEventDecoder.
use crate::util::*;
use serde_json::{json, Value};
use std::collections::BTreeSet;
use std::hash::{Hash, Hasher};
use std::io::Cursor;
use std::sync::OnceLock;
use surf_n_term::decoder::{verif, Decoder, TTYEventDecoder};
use surf_n_term::{Color, Face, FaceAttrs, FaceModify, Key, KeyMod, KeyName, TerminalColor, TerminalCommand, TerminalEvent, UnderlineStyle, RGBA};

// ---------------------------------------------------------------- printing events as Coq terms

fn mod_bits(m: KeyMod) -> u64 {
    let flags = [
        (KeyMod::SHIFT, 1u64),
        (KeyMod::ALT, 2),
        (KeyMod::CTRL, 4),
        (KeyMod::SUPER, 8),
        (KeyMod::HYPER, 16),
        (KeyMod::META, 32),
        (KeyMod::CAPSLOCK, 64),
        (KeyMod::NUMLOCK, 128),
        (KeyMod::PRESS, 256),
    ];
    flags.iter().filter(|(f, _)| m.contains(*f)).map(|(_, b)| *b).sum()
}

fn c_kname(n: &KeyName) -> String {
    match n {
        KeyName::Esc => "KEsc".into(),
        KeyName::Enter => "KEnter".into(),
        KeyName::Tab => "KTab".into(),
        KeyName::Backspace => "KBackspace".into(),
        KeyName::F(i) => format!("(KF {})", i),
        KeyName::Char(c) => format!("(KChar {})", *c as u32),
        KeyName::Delete => "KDelete".into(),
        KeyName::Insert => "KInsert".into(),
        KeyName::Down => "KDown".into(),
        KeyName::End => "KEnd".into(),
        KeyName::Home => "KHome".into(),
        KeyName::Left => "KLeft".into(),
        KeyName::PageDown => "KPageDown".into(),
        KeyName::PageUp => "KPageUp".into(),
        KeyName::Right => "KRight".into(),
        KeyName::Up => "KUp".into(),
        _ => "(KF 999999)".into(),
    }
}
fn c_mname(n: &KeyName) -> &'static str {
    match n {
        KeyName::MouseLeft => "MLeft",
        KeyName::MouseMiddle => "MMiddle",
        KeyName::MouseRight => "MRight",
        KeyName::MouseMove => "MMove",
        KeyName::MouseWheelDown => "MWheelDown",
        KeyName::MouseWheelUp => "MWheelUp",
        _ => "MMove",
    }
}

struct Capture(Vec<u8>);
impl Hasher for Capture {
    fn finish(&self) -> u64 {
        0
    }
    fn write(&mut self, bytes: &[u8]) {
        self.0.extend_from_slice(bytes)
    }
}
fn attr_bits(a: FaceAttrs) -> u16 {
    let mut h = Capture(vec![]);
    a.hash(&mut h);
    if h.0.len() == 2 {
        u16::from_ne_bytes([h.0[0], h.0[1]])
    } else {
        u16::MAX
    }
}
fn c_color(c: Option<RGBA>) -> String {
    match c {
        None => "None".into(),
        Some(c) => format!("(Some {})", c_rgba(c)),
    }
}
fn c_rgba(c: RGBA) -> String {
    let [r, g, b, a] = c.to_rgba();
    format!("(RGBA {} {} {} {})", r, g, b, a)
}
fn c_face(f: &Face) -> String {
    format!("(mkFace {} {} {})", c_color(f.fg), c_color(f.bg), attr_bits(f.attrs))
}
fn c_optbool(b: Option<bool>) -> String {
    match b {
        None => "None".into(),
        Some(b) => format!("(Some {})", cbool(b)),
    }
}
fn c_modify(m: &FaceModify) -> String {
    let ul = match m.underline {
        None => "None".to_string(),
        Some(u) => format!(
            "(Some {})",
            match u {
                UnderlineStyle::None => "UNone",
                UnderlineStyle::Straight => "UStraight",
                UnderlineStyle::Double => "UDouble",
                UnderlineStyle::Curly => "UCurly",
                UnderlineStyle::Dotted => "UDotted",
                UnderlineStyle::Dashed => "UDashed",
            }
        ),
    };
    format!(
        "(mkFM {} {} {} {} {} {} {} {} {})",
        cbool(m.reset),
        c_color(m.fg),
        c_color(m.bg),
        ul,
        c_color(m.underline_color),
        c_optbool(m.bold),
        c_optbool(m.italic),
        c_optbool(m.blink),
        c_optbool(m.strike)
    )
}
fn c_str(s: &str) -> String {
    cnums(&s.chars().map(|c| c as u32).collect::<Vec<_>>())
}

fn c_tev(e: &TerminalEvent) -> String {
    match e {
        TerminalEvent::Key(Key { name, mode }) => format!("(EKey {} {})", c_kname(name), mod_bits(*mode)),
        TerminalEvent::Mouse(m) => format!("(EMouse {} {} {} {})", c_mname(&m.name), mod_bits(m.mode), m.pos.row, m.pos.col),
        TerminalEvent::CursorPosition(p) => format!("(ECursor {} {})", p.row, p.col),
        TerminalEvent::Size(s) => format!("(ESize {} {} {} {})", s.cells.height, s.cells.width, s.pixels.height, s.pixels.width),
        // the mode is identified by its NAME and printed with the number the xterm documents give
        // to that name (a variant with a wrong discriminant then shows as a failing input)
        TerminalEvent::DecMode { mode, status } => {
            let name = format!("{:?}", mode);
            let num = DOC_DECMODES.iter().find(|(n, _)| *n == name).map(|(_, v)| *v).unwrap_or(*mode as u64);
            format!("(EDecMode {} {})", num, *status as usize)
        }
        TerminalEvent::DeviceAttrs(set) => format!("(EDevAttrs {})", cnums(&set.iter().collect::<Vec<_>>())),
        TerminalEvent::KittyImage { id, placement, error } => format!(
            "(EKittyImage {} {} {})",
            id,
            copt(placement.map(|p| p.to_string())),
            copt(error.as_ref().map(|s| cbytes(s.as_bytes())))
        ),
        TerminalEvent::KeyboardLevel(n) => format!("(EKeyLevel {})", n),
        TerminalEvent::Color { name, color } => format!(
            "(EColor {} {})",
            match name {
                TerminalColor::Foreground => "TFg".to_string(),
                TerminalColor::Background => "TBg".to_string(),
                TerminalColor::Palette(i) => format!("(TPalette {})", i),
            },
            c_rgba(*color)
        ),
        TerminalEvent::Termcap(map) => format!(
            "(ETermcap {})",
            clist(map.iter().map(|(k, v)| format!("({}, {})", c_str(k), copt(v.as_ref().map(|s| c_str(s))))))
        ),
        TerminalEvent::FaceGet(f) => format!("(EFaceGet {})", c_face(f)),
        TerminalEvent::Command(TerminalCommand::FaceModify(m)) => format!("(EFaceModify {})", c_modify(m)),
        TerminalEvent::Paste(s) => format!("(EPaste {})", cbytes(s.as_bytes())),
        TerminalEvent::Raw(b) => format!("(ERaw {})", cbytes(b)),
        _ => "(ERaw [])".to_string(),
    }
}

// ---------------------------------------------------------------- the literal key table, from the compiled automaton

fn literal_table() -> &'static Vec<Vec<u8>> {
    static TAB: OnceLock<Vec<Vec<u8>>> = OnceLock::new();
    TAB.get_or_init(|| {
        let d = verif::dump_dfa("event").expect("dump");
        let mut next: Vec<Vec<(u8, usize)>> = vec![vec![]; d.size];
        for (from, sym, to) in &d.transitions {
            next[*from].push((*sym, *to));
        }
        let is_item: Vec<bool> = d.infos.iter().map(|(acc, _, tags)| *acc && tags.first().map(|t| t.starts_with('I')).unwrap_or(false)).collect();
        // levels[i] = states from which an item state is reachable in <= i steps
        let mut levels: Vec<BTreeSet<usize>> = vec![(0..d.size).filter(|q| is_item[*q]).collect()];
        for i in 0..8 {
            let top = levels[i].clone();
            let mut nxt = top.clone();
            for q in 0..d.size {
                if next[q].iter().any(|(_, t)| top.contains(t)) {
                    nxt.insert(q);
                }
            }
            levels.push(nxt);
        }
        fn go(q: usize, depth: usize, prefix: &mut Vec<u8>, next: &Vec<Vec<(u8, usize)>>, is_item: &Vec<bool>, levels: &Vec<BTreeSet<usize>>, out: &mut Vec<Vec<u8>>) {
            if is_item[q] {
                out.push(prefix.clone());
            }
            if depth == 0 {
                return;
            }
            for (b, t) in &next[q] {
                if levels[depth - 1].contains(t) {
                    prefix.push(*b);
                    go(*t, depth - 1, prefix, next, is_item, levels, out);
                    prefix.pop();
                }
            }
        }
        let mut out = vec![];
        go(d.start, 8, &mut vec![], &next, &is_item, &levels, &mut out);
        out
    })
}

// ---------------------------------------------------------------- mirror of Decoder/Printer.v

fn hex_digit(upper: bool, v: u64) -> u8 {
    if v < 10 {
        48 + v as u8
    } else if upper {
        65 + (v - 10) as u8
    } else {
        97 + (v - 10) as u8
    }
}
fn hex2(upper: bool, b: u64) -> Vec<u8> {
    vec![hex_digit(upper, b / 16), hex_digit(upper, b % 16)]
}
fn hex_string(upper: bool, s: &[u64]) -> Vec<u8> {
    s.iter().flat_map(|b| hex2(upper, *b)).collect()
}
fn digits(n: u64) -> Vec<u8> {
    n.to_string().into_bytes()
}
fn u(v: &Value) -> u64 {
    v.as_u64().unwrap_or(0)
}
fn ulist(v: &Value) -> Vec<u64> {
    v.as_array().map(|a| a.iter().map(u).collect()).unwrap_or_default()
}
fn chan_digits(form: u64) -> u32 {
    match form {
        0 => 1,
        1 | 4 => 2,
        2 => 3,
        _ => 4,
    }
}
/// the channel value as transmitted: `chan_digits(form)` hex digits, most significant first
fn chan(form: u64, upper: bool, v: u64) -> Vec<u8> {
    let n = chan_digits(form);
    (0..n).rev().map(|i| hex_digit(upper, (v >> (4 * i)) & 15)).collect()
}
fn utf8(c: u64) -> Vec<u8> {
    let mut buf = [0u8; 4];
    char::from_u32(c as u32).map(|c| c.encode_utf8(&mut buf).as_bytes().to_vec()).unwrap_or_default()
}
fn kitty_code(k: &Value) -> Option<u64> {
    let kind = u(&k[0]);
    let arg = u(&k[1]);
    match kind {
        0 => Some(27),
        1 => Some(13),
        2 => Some(9),
        3 => Some(127),
        4 => {
            if (13..=35).contains(&arg) {
                Some(57376 + (arg - 13))
            } else {
                None
            }
        }
        5 => Some(arg),
        _ => None,
    }
}
fn join(parts: Vec<Vec<u8>>, sep: u8) -> Vec<u8> {
    let mut out = vec![];
    for (i, p) in parts.into_iter().enumerate() {
        if i != 0 {
            out.push(sep);
        }
        out.extend(p);
    }
    out
}

fn print(r: &Value) -> Vec<u8> {
    let mut o: Vec<u8> = vec![];
    match r["t"].as_str().unwrap_or("") {
        "lit" => o = vbytes(&r["w"]),
        "xterm" => o = xterm_seq(&r["k"], u(&r["mods"]), r["alt"].as_bool().unwrap_or(false)).unwrap_or_default(),
        "char" => o = utf8(u(&r["c"])),
        "kitty" => {
            if let Some(code) = kitty_code(&r["k"]) {
                o.extend(b"\x1b[");
                o.extend(digits(code));
                for a in r["alts"].as_array().map(|a| a.as_slice()).unwrap_or(&[]) {
                    o.push(b':');
                    if !a.is_null() {
                        o.extend(digits(u(a)));
                    }
                }
                if u(&r["mods"]) != 0 {
                    o.push(b';');
                    o.extend(digits(u(&r["mods"]) + 1));
                }
                o.push(b'u');
            }
        }
        "level" => {
            o.extend(b"\x1b[?");
            o.extend(digits(u(&r["n"])));
            o.push(b'u');
        }
        "mouse" => {
            o.extend(b"\x1b[<");
            o.extend(digits(u(&r["code"])));
            o.push(b';');
            o.extend(digits(u(&r["col"]) + 1));
            o.push(b';');
            o.extend(digits(u(&r["row"]) + 1));
            o.push(if r["press"].as_bool().unwrap_or(false) { b'M' } else { b'm' });
        }
        "cursor" => {
            o.extend(b"\x1b[");
            o.extend(digits(u(&r["row"]) + 1));
            o.push(b';');
            o.extend(digits(u(&r["col"]) + 1));
            o.push(b'R');
        }
        "size" => {
            let v = ulist(&r["v"]);
            o.extend(b"\x1b[8;");
            o.extend(digits(v[0]));
            o.push(b';');
            o.extend(digits(v[1]));
            o.extend(b"t\x1b[4;");
            o.extend(digits(v[2]));
            o.push(b';');
            o.extend(digits(v[3]));
            o.push(b't');
        }
        "decmode" => {
            o.extend(b"\x1b[?");
            o.extend(digits(u(&r["mode"])));
            o.push(b';');
            o.extend(digits(u(&r["status"])));
            o.extend(b"$y");
        }
        "da" => {
            o.extend(b"\x1b[?");
            o.extend(join(ulist(&r["attrs"]).into_iter().map(digits).collect(), b';'));
            o.push(b'c');
        }
        "kimg" => {
            o.extend(b"\x1b_Gi=");
            o.extend(digits(u(&r["id"])));
            if !r["p"].is_null() {
                o.extend(b",p=");
                o.extend(digits(u(&r["p"])));
            }
            o.push(b';');
            if r["err"].is_null() {
                o.extend(b"OK");
            } else {
                o.extend(vbytes(&r["err"]));
            }
            o.extend(b"\x1b\\");
        }
        "color" => {
            o.extend(b"\x1b]");
            match u(&r["name"][0]) {
                0 => o.extend(b"10"),
                1 => o.extend(b"11"),
                _ => {
                    o.extend(b"4;");
                    o.extend(digits(u(&r["name"][1])));
                }
            }
            o.push(b';');
            let c = ulist(&r["c"]);
            let form = u(&r["form"]);
            let upper = r["upper"].as_bool().unwrap_or(false);
            if form == 4 {
                o.push(b'#');
                for v in &c[..3] {
                    o.extend(chan(form, upper, *v));
                }
            } else {
                o.extend(b"rgb:");
                o.extend(join(c[..3].iter().map(|v| chan(form, upper, *v)).collect(), b'/'));
            }
            if u(&r["end"]) == 0 {
                o.extend(b"\x1b\\");
            } else {
                o.push(7);
            }
        }
        "tcok" => {
            let upper = r["upper"].as_bool().unwrap_or(false);
            o.extend(b"\x1bP1+r");
            let parts: Vec<Vec<u8>> = r["caps"]
                .as_array()
                .map(|a| {
                    a.iter()
                        .map(|kv| {
                            let mut p = hex_string(upper, &ulist(&kv[0]));
                            p.push(b'=');
                            p.extend(hex_string(upper, &ulist(&kv[1])));
                            p
                        })
                        .collect()
                })
                .unwrap_or_default();
            o.extend(join(parts, b';'));
            o.extend(b"\x1b\\");
        }
        "tcfail" => {
            let upper = r["upper"].as_bool().unwrap_or(false);
            o.extend(b"\x1bP0+r");
            let parts: Vec<Vec<u8>> = r["names"].as_array().map(|a| a.iter().map(|k| hex_string(upper, &ulist(k))).collect()).unwrap_or_default();
            o.extend(join(parts, b';'));
            o.extend(b"\x1b\\");
        }
        "sgr" => {
            o.extend(b"\x1b[");
            o.extend(r["p"].as_str().unwrap_or("").as_bytes());
            o.push(b'm');
        }
        "facerep" => {
            o.extend(b"\x1bP1$r");
            o.extend(r["p"].as_str().unwrap_or("").as_bytes());
            o.extend(b"m\x1b\\");
        }
        "paste" => {
            o.extend(b"\x1b[200~");
            o.extend(vbytes(&r["text"]));
            o.extend(b"\x1b[201~");
        }
        _ => {}
    }
    o
}

fn c_key(k: &Value) -> String {
    match u(&k[0]) {
        0 => "KEsc".into(),
        1 => "KEnter".into(),
        2 => "KTab".into(),
        3 => "KBackspace".into(),
        4 => format!("(KF {})", u(&k[1])),
        5 => format!("(KChar {})", u(&k[1])),
        6 => "KDelete".into(),
        7 => "KInsert".into(),
        8 => "KDown".into(),
        9 => "KEnd".into(),
        10 => "KHome".into(),
        11 => "KLeft".into(),
        12 => "KPageDown".into(),
        13 => "KPageUp".into(),
        14 => "KRight".into(),
        _ => "KUp".into(),
    }
}

/// mirror of Printer.xterm_seq (xterm PC-style / VT220-style key encodings)
fn xterm_seq(k: &Value, mods: u64, alt: bool) -> Option<Vec<u8>> {
    if mods >= 256 {
        return None;
    }
    let (kind, arg) = (u(&k[0]), u(&k[1]));
    if kind == 3 {
        return if mods == 0 { Some(vec![127]) } else { None };
    }
    if kind == 5 {
        let c = arg;
        if mods == 2 && (33..=126).contains(&c) && !(65..=90).contains(&c) && ![91, 93, 95].contains(&c) {
            return Some(vec![27, c as u8]);
        }
        if mods == 3 && (97..=122).contains(&c) && c != 111 && c != 112 {
            return Some(vec![27, (c - 32) as u8]);
        }
        if mods == 4 && (97..=122).contains(&c) {
            return Some(vec![(c - 96) as u8]);
        }
        if mods == 4 && c == 32 {
            return Some(vec![0]);
        }
        return None;
    }
    let fin: Option<u64> = match kind {
        15 => Some(65),
        8 => Some(66),
        14 => Some(67),
        11 => Some(68),
        9 => Some(70),
        10 => Some(72),
        4 if (1..=4).contains(&arg) => Some(79 + arg),
        _ => None,
    };
    let tilde: Option<u64> = match kind {
        7 => Some(2),
        6 => Some(3),
        13 => Some(5),
        12 => Some(6),
        10 => if alt { Some(1) } else { None },
        9 => if alt { Some(4) } else { None },
        4 => {
            if (1..=5).contains(&arg) {
                if arg <= 4 && !alt { None } else { Some(10 + arg) }
            } else if (6..=10).contains(&arg) {
                Some(11 + arg)
            } else if (11..=12).contains(&arg) {
                Some(12 + arg)
            } else {
                None
            }
        }
        _ => None,
    };
    match (if alt { None } else { fin }, tilde) {
        (Some(f), _) => {
            if f == 82 && mods >= 8 {
                // CSI 1 ; n R with n > 8 is the cursor position report
                return None;
            }
            if mods == 0 {
                Some(vec![27, if (80..=83).contains(&f) { 79 } else { 91 }, f as u8])
            } else {
                let mut o = b"\x1b[1;".to_vec();
                o.extend(digits(mods + 1));
                o.push(f as u8);
                Some(o)
            }
        }
        (None, Some(n)) => {
            let mut o = b"\x1b[".to_vec();
            o.extend(digits(n));
            if mods != 0 {
                o.push(b';');
                o.extend(digits(mods + 1));
            }
            o.push(b'~');
            Some(o)
        }
        (None, None) => None,
    }
}

fn c_report(r: &Value) -> String {
    let b = |v: &Value| cbool(v.as_bool().unwrap_or(false));
    match r["t"].as_str().unwrap_or("") {
        "lit" => format!("(RLit {})", cbytes(&vbytes(&r["w"]))),
        "xterm" => format!("(RXterm {} {} {})", c_key(&r["k"]), u(&r["mods"]), b(&r["alt"])),
        "char" => format!("(RChar {})", u(&r["c"])),
        "kitty" => format!(
            "(RKittyKey {} {} {})",
            c_key(&r["k"]),
            u(&r["mods"]),
            clist(r["alts"].as_array().map(|a| a.as_slice()).unwrap_or(&[]).iter().map(|a| if a.is_null() { "None".to_string() } else { format!("(Some {})", u(a)) }))
        ),
        "level" => format!("(RKeyLevel {})", u(&r["n"])),
        "mouse" => format!("(RMouse {} {} {} {})", u(&r["code"]), b(&r["press"]), u(&r["row"]), u(&r["col"])),
        "cursor" => format!("(RCursor {} {})", u(&r["row"]), u(&r["col"])),
        "size" => {
            let v = ulist(&r["v"]);
            format!("(RSize {} {} {} {})", v[0], v[1], v[2], v[3])
        }
        "decmode" => format!("(RDecMode {} {})", u(&r["mode"]), u(&r["status"])),
        "da" => format!("(RDevAttrs {})", cnums(&ulist(&r["attrs"]))),
        "kimg" => format!(
            "(RKittyImage {} {} {})",
            u(&r["id"]),
            if r["p"].is_null() { "None".to_string() } else { format!("(Some {})", u(&r["p"])) },
            if r["err"].is_null() { "None".to_string() } else { format!("(Some {})", cbytes(&vbytes(&r["err"]))) }
        ),
        "color" => {
            let c = ulist(&r["c"]);
            format!(
                "(RColor {} {} {} {} {} {} {})",
                match u(&r["name"][0]) {
                    0 => "TFg".to_string(),
                    1 => "TBg".to_string(),
                    _ => format!("(TPalette {})", u(&r["name"][1])),
                },
                c[0],
                c[1],
                c[2],
                ["Rgb1", "Rgb2", "Rgb3", "Rgb4", "Hash2"][(u(&r["form"]) as usize).min(4)],
                b(&r["upper"]),
                if u(&r["end"]) == 0 { "EndST" } else { "EndBEL" }
            )
        }
        "tcok" => format!(
            "(RTermcapOk {} {})",
            clist(r["caps"].as_array().map(|a| a.as_slice()).unwrap_or(&[]).iter().map(|kv| format!("({}, {})", cnums(&ulist(&kv[0])), cnums(&ulist(&kv[1]))))),
            b(&r["upper"])
        ),
        "tcfail" => format!(
            "(RTermcapFail {} {})",
            clist(r["names"].as_array().map(|a| a.as_slice()).unwrap_or(&[]).iter().map(|k| cnums(&ulist(k)))),
            b(&r["upper"])
        ),
        "paste" => format!("(RPaste {})", cbytes(&vbytes(&r["text"]))),
        "sgr" => format!("(RSgr {})", cbytes(r["p"].as_str().unwrap_or("").as_bytes())),
        "facerep" => format!("(RFaceReport {})", cbytes(r["p"].as_str().unwrap_or("").as_bytes())),
        _ => "(RLit [])".to_string(),
    }
}

// ---------------------------------------------------------------- running the implementation

fn decode(bytes: &[u8], cuts: &[usize]) -> Vec<TerminalEvent> {
    let mut dec = TTYEventDecoder::new();
    let mut out = Vec::new();
    let mut rest = bytes;
    for n in cuts {
        let k = (*n).min(rest.len());
        let _ = dec.decode_into(Cursor::new(&rest[..k]), &mut out);
        rest = &rest[k..];
    }
    let _ = dec.decode_into(Cursor::new(rest), &mut out);
    out
}

pub fn run(input: &Value) -> Case {
    let mut j = input.clone();
    let cuts = vusizes(&input["cuts"]);
    if let Some(rs) = input["reports"].as_array() {
        let bytes: Vec<u8> = rs.iter().flat_map(print).collect();
        let (b2, c2) = (bytes.clone(), cuts.clone());
        let events = catch(move || decode(&b2, &c2)).unwrap_or_else(|| vec![TerminalEvent::Raw(vec![255, 255, 255])]);
        j["impl"] = json!(format!("{:?}", events));
        let mut tags: Vec<String> = rs.iter().map(|r| format!("t={}", r["t"].as_str().unwrap_or("?"))).collect();
        tags.sort();
        tags.dedup();
        tags.push(format!("len={}", rs.len().min(8)));
        if !cuts.is_empty() {
            tags.push("chunked".into());
        }
        // known classes are DERIVED from the content of the case, never taken from the input file
        if let Some(o) = j.as_object_mut() {
            o.remove("known_class");
        }
        // SGR events / face reports with an inexpressible parameter (7, 27, 39, 49 as a parameter of its own)
        let inexpr = rs.iter().any(|r| {
            matches!(r["t"].as_str(), Some("sgr") | Some("facerep"))
                && r["p"].as_str().map(|p| sgr_has_inexpressible(p)).unwrap_or(false)
        });
        if inexpr {
            let mut kc: Vec<Value> = j["known_class"].as_array().cloned().unwrap_or_default();
            kc.push(json!("sgr-inexpressible-report"));
            j["known_class"] = Value::Array(kc);
        }
        if j["known_class"].is_array() {
            tags.push("known_class".into());
        }
        Case {
            coq: format!("KSeq {} {} {}", clist(rs.iter().map(c_report)), cbytes(&bytes), clist(events.iter().map(c_tev))),
            json: j,
            tags,
            nontrivial: rs.iter().any(|r| r["t"] != "char"),
        }
    } else {
        let bytes = vbytes(&input["bytes"]);
        let (b2, c2) = (bytes.clone(), cuts.clone());
        let events = catch(move || decode(&b2, &c2)).unwrap_or_else(|| vec![TerminalEvent::Raw(vec![255, 255, 255])]);
        j["impl"] = json!(format!("{:?}", events));
        Case {
            coq: format!("KBytes {} {}", cbytes(&bytes), clist(events.iter().map(c_tev))),
            json: j,
            tags: vec!["t=bytes".into()],
            nontrivial: events.len() > 1,
        }
    }
}

// ---------------------------------------------------------------- generators

const COORDS: [u64; 12] = [0, 1, 7, 8, 9, 10, 98, 99, 254, 255, 9999, 65534];
const DECMODES: [u64; 9] = [25, 7, 80, 1000, 1003, 1006, 1049, 2026, 2004];
/// xterm ctlseqs DECSET numbers by the library's variant names (mirror of Printer.xterm_decmodes)
const DOC_DECMODES: [(&str, u64); 9] = [
    ("AutoWrap", 7),
    ("VisibleCursor", 25),
    ("SixelScrolling", 80),
    ("MouseReport", 1000),
    ("MouseMotions", 1003),
    ("MouseSGR", 1006),
    ("AltScreen", 1049),
    ("BracketedPaste", 2004),
    ("SynchronizedOutput", 2026),
];

/// "source boundary" stream: every integer constant written in the decoder's source (and its neighbours), harvested
/// at run time, so that a threshold introduced by a change is reached by the numeric parameters drawn below
fn bnd(rng: &mut Rng, cap: u64) -> u64 {
    static B: OnceLock<Vec<u64>> = OnceLock::new();
    let all = B.get_or_init(|| source_boundaries(&["src/decoder.rs", "src/keys.rs", "src/terminal.rs", "src/face.rs"], 4294967295));
    let within: Vec<u64> = all.iter().copied().filter(|v| *v <= cap).collect();
    if within.is_empty() {
        rng.below(cap + 1)
    } else {
        *rng.pick(&within)
    }
}
fn g_coord(rng: &mut Rng) -> u64 {
    if rng.chance(1, 6) {
        return bnd(rng, 65534);
    }
    if rng.chance(2, 3) {
        *rng.pick(&COORDS)
    } else {
        rng.below(65535)
    }
}
fn g_num(rng: &mut Rng) -> u64 {
    if rng.chance(1, 5) {
        return bnd(rng, 4294967295);
    }
    match rng.below(4) {
        0 => *rng.pick(&[0u64, 1, 9, 10, 99, 100, 255, 256, 65535, 65536, 4294967295]),
        1 => rng.below(100),
        _ => rng.below(4294967296),
    }
}
fn g_chan(rng: &mut Rng) -> u64 {
    if rng.chance(1, 5) {
        return bnd(rng, 255);
    }
    if rng.chance(1, 2) {
        *rng.pick(&[0u64, 1, 15, 16, 17, 127, 128, 170, 239, 240, 254, 255])
    } else {
        rng.below(256)
    }
}
fn g_text(rng: &mut Rng, max: u64) -> Vec<u8> {
    let mut out = vec![];
    for _ in 0..rng.below(max + 1) {
        let c = match rng.below(6) {
            0 => *rng.pick(&[0u64, 7, 9, 10, 13, 26, 28, 32, 59, 92, 126, 127, 0x9c]),
            1 => 0x80 + rng.below(0x780),
            2 => 0x800 + rng.below(0xd000),
            3 => 0x10000 + rng.below(0x100000),
            _ => 32 + rng.below(95),
        };
        out.extend(utf8(c));
    }
    out
}
fn g_name(rng: &mut Rng) -> Vec<u64> {
    let n = 1 + if rng.chance(1, 6) { rng.below(24) } else { rng.below(4) };
    (0..n).map(|_| if rng.chance(1, 8) { rng.below(256) } else { 32 + rng.below(95) }).collect()
}

/// does the parameter string contain 7 / 27 / 39 / 49 as a parameter of its own (not as an argument of
/// a 38 / 48 / 58 colour specification)?
fn sgr_has_inexpressible(p: &str) -> bool {
    let groups: Vec<&str> = p.split(';').collect();
    let mut i = 0;
    while i < groups.len() {
        let g = groups[i];
        if matches!(g, "38" | "48" | "58") {
            // semicolon form: 5;n or 2;r;g;b
            match groups.get(i + 1) {
                Some(&"5") => i += 3,
                Some(&"2") => i += 5,
                _ => i += 1,
            }
            continue;
        }
        if matches!(g.trim_start_matches('0'), "7" | "27" | "39" | "49") {
            return true;
        }
        i += 1;
    }
    false
}

/// a well-formed SGR parameter string (1..4 units, semicolon and colon forms)
fn g_sgr(rng: &mut Rng) -> String {
    let mut parts = vec![];
    for _ in 0..1 + rng.below(4) {
        let code = *rng.pick(&[38u64, 48, 58]);
        let c = |rng: &mut Rng| g_chan(rng);
        parts.push(match rng.below(17) {
            0 => "0".to_string(),
            1 => "".to_string(),
            2 => (*rng.pick(&["1", "22", "3", "23", "5", "25", "9", "29", "01"])).to_string(),
            3 => (*rng.pick(&["4", "21", "24"])).to_string(),
            4 => format!("4:{}", rng.below(6)),
            5 => format!("{}", 30 + rng.below(8)),
            6 => format!("{}", 40 + rng.below(8)),
            7 => format!("{}", 90 + rng.below(8)),
            8 => format!("{}", 100 + rng.below(8)),
            9 => format!("{};5;{}", code, if rng.chance(1, 3) { bnd(rng, 255) } else { rng.below(256) }),
            10 | 11 => format!("{};2;{};{};{}", code, c(rng), c(rng), c(rng)),
            12 => format!("{}:5:{}", code, if rng.chance(1, 3) { bnd(rng, 255) } else { rng.below(256) }),
            13 => format!("{}:2:{}:{}:{}", code, c(rng), c(rng), c(rng)),
            14 => format!("{}:2::{}:{}:{}", code, c(rng), c(rng), c(rng)),
            15 => (*rng.pick(&["7", "27", "39", "49"])).to_string(),
            _ => (*rng.pick(&["2", "8", "53", "59"])).to_string(),
        });
    }
    parts.join(";")
}

fn g_report(rng: &mut Rng) -> Value {
    match rng.below(20) {
        18 | 19 => {
            // a key in the xterm PC-style / VT220-style encoding, any of the 256 modifier masks
            loop {
                let k = match rng.below(4) {
                    0 => json!([*rng.pick(&[6u64, 7, 8, 9, 10, 11, 12, 13, 14, 15]), 0]),
                    1 => json!([4, 1 + rng.below(12)]),
                    2 => json!([5, 32 + rng.below(95)]),
                    _ => json!([3, 0]),
                };
                let mods = if rng.chance(1, 2) { rng.below(8) } else { rng.below(256) };
                let alt = rng.chance(1, 2);
                if let Some(w) = xterm_seq(&k, mods, alt) {
                    // not the bare ESC-prefixes
                    if !(w.len() <= 2 && w[0] == 27 && (w.len() == 1 || matches!(w[1], b'O' | b'P' | b'[' | b']' | b'_'))) {
                        return json!({"t": "xterm", "k": k, "mods": mods, "alt": alt});
                    }
                }
            }
        }
        16 => json!({"t": "sgr", "p": g_sgr(rng)}),
        17 => json!({"t": "facerep", "p": g_sgr(rng)}),
        0 => {
            let tab = literal_table();
            // terminal entries only (the others are generated by the ambiguity cases)
            loop {
                let w = rng.pick(tab);
                if w.len() > 1 && !(w.len() == 2 && matches!(w[1], b'O' | b'P' | b'[' | b']' | b'_')) || w.len() == 1 && w[0] != 27 {
                    return json!({"t": "lit", "w": w});
                }
            }
        }
        1 => {
            let c = match rng.below(5) {
                0 => *rng.pick(&[32u64, 126, 128, 0xa0, 0x7ff, 0x800, 0xd7ff, 0xe000, 0xfffd, 0xffff, 0x10000, 0x10ffff]),
                1 => 0x80 + rng.below(0x780),
                2 => 0xe000 + rng.below(0x2000),
                3 => 0x10000 + rng.below(0x100000),
                _ => 32 + rng.below(95),
            };
            json!({"t": "char", "c": c})
        }
        2 => {
            let k = match rng.below(8) {
                0 => json!([0, 0]),
                1 => json!([1, 0]),
                2 => json!([2, 0]),
                3 => json!([3, 0]),
                4 => json!([4, 13 + rng.below(23)]),
                _ => json!([5, match rng.below(4) {
                    0 => *rng.pick(&[0u64, 1, 8, 10, 26, 28, 32, 97, 126, 128, 57343, 63744, 0xd7ff, 0xe000 + 8000, 0x10ffff]),
                    1 => 0x80 + rng.below(0xd000),
                    _ => 32 + rng.below(95),
                }]),
            };
            let mods = if rng.chance(1, 3) { 0 } else if rng.chance(1, 6) { bnd(rng, 255) } else if rng.chance(1, 2) { *rng.pick(&[1u64, 2, 4, 5, 7, 8, 64, 128, 255]) } else { rng.below(256) };
            // "report alternate keys": shifted key and / or base layout key
            let alts = match rng.below(5) {
                0 => json!([65 + rng.below(26)]),
                1 => json!([Value::Null, 97 + rng.below(26)]),
                2 => json!([rng.below(0x2000), g_num(rng)]),
                _ => json!([]),
            };
            json!({"t": "kitty", "k": k, "mods": mods, "alts": alts})
        }
        3 => json!({"t": "level", "n": g_num(rng)}),
        4 | 5 => json!({"t": "mouse", "code": if rng.chance(1, 8) { bnd(rng, 255) } else if rng.chance(3, 4) { *rng.pick(&[0u64, 1, 2, 3, 64, 65]) + 4 * rng.below(8) + 32 * rng.below(2) } else { rng.below(256) },
                        "press": rng.chance(1, 2), "row": g_coord(rng), "col": g_coord(rng)}),
        6 => json!({"t": "cursor", "row": g_coord(rng), "col": g_coord(rng)}),
        7 => json!({"t": "size", "v": [g_num(rng), g_num(rng), g_num(rng), g_num(rng)]}),
        8 => json!({"t": "decmode", "mode": *rng.pick(&DECMODES), "status": rng.below(5)}),
        9 => {
            // as terminals send it: class first, any order, repetitions possible
            let mut attrs: Vec<u64> = vec![*rng.pick(&[1u64, 6, 61, 62, 63, 64, 65])];
            for _ in 0..rng.below(7) {
                attrs.push(1 + if rng.chance(2, 3) { rng.below(30) } else { g_num(rng) % 4294967295 });
            }
            if rng.chance(1, 4) {
                let d = attrs[0];
                attrs.push(d);
            }
            json!({"t": "da", "attrs": attrs})
        }
        10 => {
            let err = if rng.chance(1, 2) {
                Value::Null
            } else {
                let max = if rng.chance(1, 6) { 40 } else { 12 };
                let t: Vec<u8> = g_text(rng, max).into_iter().filter(|b| *b != 27).collect();
                if t == b"OK" { json!([69]) } else { json!(t) }
            };
            json!({"t": "kimg", "id": g_num(rng), "p": if rng.chance(1, 2) { Value::Null } else { json!(g_num(rng)) }, "err": err})
        }
        11 | 12 => {
            let form = rng.below(5);
            let bound = 1u64 << (4 * chan_digits(form));
            let c: Vec<u64> = (0..3)
                .map(|_| match rng.below(3) {
                    0 => *rng.pick(&[0u64, 1, bound / 2 - 1, bound / 2, bound - 2, bound - 1, 0x80ff % bound, 0x7f00 % bound, 255 % bound, 256 % bound]),
                    _ => rng.below(bound),
                })
                .collect();
            let name = match rng.below(3) {
                0 => json!([0, 0]),
                1 => json!([1, 0]),
                _ => json!([2, if rng.chance(1, 5) { bnd(rng, 255) } else if rng.chance(1, 2) { *rng.pick(&[0u64, 1, 9, 10, 15, 16, 99, 100, 255]) } else { rng.below(256) }]),
            };
            json!({"t": "color", "name": name, "c": c, "form": form, "upper": rng.chance(1, 2), "end": rng.below(2)})
        }
        13 => {
            let count = if rng.chance(1, 6) { rng.below(12) } else { rng.below(4) };
            let mut names: Vec<Vec<u64>> = (0..count).map(|_| g_name(rng)).collect();
            names.sort();
            names.dedup();
            if rng.chance(1, 2) {
                let caps: Vec<Value> = names.into_iter().map(|k| json!([k, g_name(rng)])).collect();
                json!({"t": "tcok", "caps": caps, "upper": rng.chance(1, 2)})
            } else {
                if names.is_empty() {
                    names.push(vec![84, 78]);
                }
                json!({"t": "tcfail", "names": names, "upper": rng.chance(1, 2)})
            }
        }
        _ => {
            let max = if rng.chance(1, 6) { 60 } else { 10 };
            let t: Vec<u8> = g_text(rng, max).into_iter().filter(|b| *b != 27).collect();
            json!({"t": "paste", "text": t})
        }
    }
}

fn rand_cuts(rng: &mut Rng, len: usize) -> Vec<usize> {
    match rng.below(4) {
        0 => vec![],
        1 => vec![1; len],
        _ => {
            let mut v = vec![];
            let mut left = len;
            while left > 0 && v.len() < 16 {
                let k = (rng.below(7) as usize).min(left);
                v.push(k);
                left -= k;
            }
            v
        }
    }
}

pub fn generate(rng: &mut Rng, n: usize, tier: &str) -> Vec<Value> {
    let thorough = tier == "thorough";
    let mut v = vec![];
    // 1. every literal key of the table, alone and followed by a character, whole and in 1-byte reads
    for w in literal_table() {
        v.push(json!({"reports": [{"t": "lit", "w": w}, {"t": "char", "c": 120}], "cuts": []}));
        if thorough || w.len() >= 3 {
            v.push(json!({"reports": [{"t": "lit", "w": w}, {"t": "lit", "w": w}], "cuts": vec![1; 2 * w.len()]}));
        }
    }
    // 1b. the xterm PC-style / VT220-style reference encoding of every key x modifier mask
    let mut xkeys: Vec<Value> = vec![json!([3, 0]), json!([6, 0]), json!([7, 0]), json!([8, 0]), json!([9, 0]), json!([10, 0]), json!([11, 0]),
                                     json!([12, 0]), json!([13, 0]), json!([14, 0]), json!([15, 0])];
    for n in 1..=12u64 {
        xkeys.push(json!([4, n]));
    }
    for c in 32..=126u64 {
        xkeys.push(json!([5, c]));
    }
    for k in &xkeys {
        for mods in 0..8u64 {
            for alt in [false, true] {
                if xterm_seq(k, mods, alt).is_some() {
                    v.push(json!({"reports": [{"t": "xterm", "k": k, "mods": mods, "alt": alt}, {"t": "char", "c": 121}], "cuts": []}));
                }
            }
        }
    }
    // 1c. the same encoding with modifier masks >= 8 (xterm meta, kitty super/hyper/meta/caps/num lock): the parsed
    //     ModifiedKeyMatcher (crate fix 8f4107f, former known finding C04-key-mask), alone and followed by a key
    for k in &xkeys {
        if u(&k[0]) == 5 || u(&k[0]) == 3 {
            continue;
        }
        for mods in [8u64, 9, 15, 16, 32, 64, 128, 129, 255] {
            for alt in [false, true] {
                if xterm_seq(k, mods, alt).is_some() {
                    v.push(json!({"reports": [{"t": "xterm", "k": k, "mods": mods, "alt": alt}], "cuts": []}));
                    v.push(json!({"reports": [{"t": "xterm", "k": k, "mods": mods, "alt": alt}, {"t": "xterm", "k": k, "mods": 255 - mods, "alt": !alt}, {"t": "char", "c": 65}],
                                  "cuts": [3, 2, 1]}));
                }
            }
        }
    }
    // 1d. the matcher outside the printer's image (model agreement only): every code 0..30 and every final byte it
    //     accepts, parameter 0 / 1 / 256 / 257, leading zeros, a third parameter's place, the neighbours of the finals
    for code in 0..=30u64 {
        for p in ["5", "1", "0", "256", "257", "05"] {
            v.push(json!({"bytes": format!("\x1b[{};{}~x", code, p).into_bytes(), "cuts": []}));
        }
    }
    for f in b"ABCDEFGHIJPQRSTZ" {
        for (code, p) in [("1", "5"), ("1", "9"), ("1", "256"), ("1", "257"), ("1", "0"), ("01", "009"), ("2", "5"), ("", "5"), ("1", "")] {
            v.push(json!({"bytes": format!("\x1b[{};{}{}x", code, p, *f as char).into_bytes(), "cuts": []}));
        }
    }
    // 2. every DEC mode x every status: the documented ones plus whatever else from_usize accepts
    let mut modes: Vec<u64> = DECMODES.to_vec();
    for code in 0..10000usize {
        if surf_n_term::terminal::DecMode::from_usize(code).is_some() && !modes.contains(&(code as u64)) {
            modes.push(code as u64);
        }
    }
    for m in modes {
        for s in 0..5u64 {
            v.push(json!({"reports": [{"t": "decmode", "mode": m, "status": s}], "cuts": []}));
        }
    }
    // 3. mouse: every raw button code 0..255 x press / release, at the origin and far away
    for code in 0..256u64 {
        for press in [true, false] {
            v.push(json!({"reports": [{"t": "mouse", "code": code, "press": press, "row": 0, "col": 65534},
                                        {"t": "mouse", "code": code, "press": press, "row": 65534, "col": 0}], "cuts": []}));
        }
    }
    // 4. cursor reports near the ambiguity with modified F3 (CSI 1 ; n R)
    for col in 0..10u64 {
        v.push(json!({"reports": [{"t": "cursor", "row": 0, "col": col}], "cuts": []}));
        v.push(json!({"reports": [{"t": "cursor", "row": 1, "col": col}, {"t": "cursor", "row": col, "col": 0}], "cuts": []}));
    }
    // 5. kitty keys: functional codes x all 8 low modifier masks
    for k in [json!([0, 0]), json!([1, 0]), json!([2, 0]), json!([3, 0]), json!([4, 13]), json!([4, 35]), json!([5, 97]), json!([5, 0x20ac])] {
        for mods in [0u64, 1, 2, 3, 4, 5, 6, 7, 8, 16, 32, 64, 128, 255] {
            v.push(json!({"reports": [{"t": "kitty", "k": k, "mods": mods, "alts": []}, {"t": "kitty", "k": k, "mods": mods, "alts": [65, 97]},
                                        {"t": "kitty", "k": k, "mods": mods, "alts": [Value::Null, 246]}], "cuts": []}));
        }
    }
    // 6. colours: every form x terminator x case, all 16 4-bit values, channel boundaries
    for form in 0..5u64 {
        for end in 0..2u64 {
            for upper in [false, true] {
                let bound = 1u64 << (4 * chan_digits(form));
                for c in [[0u64, bound - 1, bound / 2], [bound / 2 - 1, 1, bound - 2], [0x80ff % bound, 0x0100 % bound, 0xfeff % bound]] {
                    v.push(json!({"reports": [{"t": "color", "name": [form % 3, 7 + form * 50], "c": c, "form": form, "upper": upper, "end": end}], "cuts": []}));
                }
            }
        }
    }
    // 6b. every colour an SGR-bearing report can carry: all 256 palette indices x {38, 48, 58} x {';' form, ':' form},
    //     as an SGR event and as a DECRPSS face report (each report starts from an empty record, so a lost colour is
    //     never masked by an earlier one); the 16 named colours, normal and bright, foreground and background
    for i in 0..256u64 {
        let semi = format!("38;5;{};48;5;{};58;5;{}", i, i, i);
        let colon = format!("38:5:{};48:5:{};58:5:{}", i, i, i);
        v.push(json!({"reports": [{"t": "sgr", "p": semi}, {"t": "sgr", "p": colon}, {"t": "facerep", "p": semi}, {"t": "facerep", "p": colon}], "cuts": []}));
    }
    for base in [30u64, 40, 90, 100] {
        for k in 0..8u64 {
            let p = format!("{}", base + k);
            v.push(json!({"reports": [{"t": "sgr", "p": p}, {"t": "facerep", "p": p}], "cuts": []}));
        }
    }
    // 7. ambiguous legacy encodings: a bare ESC-prefixed key followed by more input
    for tail in [vec![120u8], vec![27, 91, 65], vec![79, 80], vec![91, 49, 59, 53, 82], vec![195, 169], vec![27]] {
        for head in [vec![27u8], vec![27, 79], vec![27, 91], vec![27, 93], vec![27, 80], vec![27, 95]] {
            let mut b = head.clone();
            b.extend(&tail);
            v.push(json!({"bytes": b, "cuts": []}));
            v.push(json!({"bytes": b, "cuts": vec![1; b.len()]}));
        }
    }
    // 7b. a sequence that breaks off: an ESC-prefixed key that is a proper prefix of a longer grammar, 1..3 continuing
    //     bytes, then a byte (or a whole key) that fits no grammar -- the bytes come back as keys in their order
    for head in [vec![27u8, 91], vec![27, 79], vec![27, 93], vec![27, 80], vec![27, 95], vec![27]] {
        for mid in [&b"1"[..], b"12", b"1:2", b"<1", b"?25", b"200", b"4", b"G", b"+q", b"1$", b"11"] {
            for brk in [&b"x"[..], b"\x1b[Ay", b"\xc3\xa9", b"\x1bOP", b"\x1b", b"\x00z"] {
                let mut b = head.clone();
                b.extend_from_slice(mid);
                b.extend_from_slice(brk);
                v.push(json!({"bytes": b, "cuts": []}));
                if thorough || mid.len() == 2 {
                    v.push(json!({"bytes": b, "cuts": vec![1; b.len()]}));
                }
            }
        }
    }
    let fixed = v.len();
    while v.len() < fixed + n {
        let k = 1 + rng.below(8) as usize;
        let reports: Vec<Value> = (0..k).map(|_| g_report(rng)).collect();
        let len: usize = reports.iter().map(|r| print(r).len()).sum();
        if rng.chance(1, 12) {
            // a stream with one byte damaged: model agreement only
            let mut bytes: Vec<u8> = reports.iter().flat_map(print).collect();
            if !bytes.is_empty() {
                let i = rng.below(bytes.len() as u64) as usize;
                bytes[i] = *rng.pick(&[27u8, b';', b'0', b'x', b'm', 7, b'~', b'R']);
            }
            // keep clear of byte sequences whose decoding belongs to C02 (invalid UTF-8 scalars), and of
            // kitty replies whose message is not UTF-8 (String::from_utf8_lossy is not modelled)
            let lossy_kitty = std::str::from_utf8(&bytes).is_err() && bytes.windows(3).any(|w| w == [27, 95, 71]);
            if !bytes.iter().any(|b| *b >= 0xed) && !lossy_kitty {
                v.push(json!({"bytes": bytes, "cuts": rand_cuts(rng, len)}));
                continue;
            }
        }
        v.push(json!({"reports": reports, "cuts": rand_cuts(rng, len)}));
    }
    v
}

pub fn batch(inputs: &[Value]) -> Batch {
    Batch {
        prop: "C04",
        coq_import: "Corr.C04Corr",
        case_type: "c04_case",
        report_fn: "c04_report",
        rule: "a sequence containing at least one report other than a plain character; distinct by (reports, chunking)",
        cases: inputs.iter().map(run).collect(),
        preamble: String::new(),
    }
}
