//! `snt_harness tool srgb`: the library's sRGB -> linear conversion for the 256 channel values,
//! observed through the public API (LinColor::from(RGBA)), one f32 bit pattern per line.
use surf_n_term::{LinColor, RGBA};

pub fn main(_args: &[String]) -> i32 {
    for v in 0..=255u8 {
        let lin = LinColor::from(RGBA::new(v, v, v, 255));
        let (r, g, b, a) = (lin.red(), lin.green(), lin.blue(), lin.alpha());
        if r.to_bits() != g.to_bits() || g.to_bits() != b.to_bits() || a != 1.0 {
            eprintln!("channels are not converted independently / alpha is not 1 at {}", v);
            return 1;
        }
        println!("{}", r.to_bits());
    }
    0
}
