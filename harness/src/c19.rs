//! C19: serialised forms (Face, Size, KeyChord, Image) round-trip; Image / Glyph / Text / view-tree
//! deserialisation of arbitrary JSON documents never crashes; what deserialises can be laid out and rendered.
use crate::util::*;
use serde::de::DeserializeSeed;
use serde_json::{json, Value};
use std::io::{BufRead, BufReader, Write};
use std::process::{Command, Stdio};
use std::str::FromStr;
use surf_n_term::view::{
    Align, ArcView, Axis, BoxConstraint, Container, Justify, Margins, Text, Tree, View, ViewCache, ViewContext, ViewDeserializer,
    ViewLayout, ViewLayoutStore,
};
use surf_n_term::{
    Cell, Error, Face, FaceAttrs, Glyph, Image, Key, KeyChord, KeyMod, KeyName, Position, Size, Surface, SurfaceMut, SurfaceOwned,
    Terminal, TerminalCaps, TerminalCommand, TerminalEvent, TerminalSize, TerminalWaker, UnderlineStyle, RGBA,
};

// ---------------------------------------------------------------- JSON documents with repeats and number classes

#[derive(Clone, Debug)]
pub enum J {
    Null,
    Bool(bool),
    U(u64),
    I(i64),
    F(f64),
    S(String),
    A(Vec<J>),
    O(Vec<(String, J)>),
}

/// case-file encoding: objects as {"o":[[k,v],..]}, numbers as {"u":"1"} / {"i":"-1"} / {"f":1.5}
pub fn j_from_spec(v: &Value) -> J {
    match v {
        Value::Null => J::Null,
        Value::Bool(b) => J::Bool(*b),
        Value::String(s) => J::S(s.clone()),
        Value::Array(a) => J::A(a.iter().map(j_from_spec).collect()),
        Value::Number(n) => j_from_value(&Value::Number(n.clone())),
        Value::Object(m) => {
            if let Some(u) = m.get("u") {
                J::U(u.as_str().and_then(|s| s.parse().ok()).unwrap_or(0))
            } else if let Some(i) = m.get("i") {
                J::I(i.as_str().and_then(|s| s.parse().ok()).unwrap_or(-1))
            } else if let Some(f) = m.get("f") {
                J::F(f.as_f64().unwrap_or(0.5))
            } else {
                let pairs = m.get("o").and_then(|o| o.as_array()).cloned().unwrap_or_default();
                J::O(pairs.iter().map(|p| (p[0].as_str().unwrap_or("").to_string(), j_from_spec(&p[1]))).collect())
            }
        }
    }
}

pub fn j_to_spec(j: &J) -> Value {
    match j {
        J::Null => Value::Null,
        J::Bool(b) => json!(b),
        J::U(u) => json!({"u": u.to_string()}),
        J::I(i) => json!({"i": i.to_string()}),
        J::F(f) => json!({ "f": f }),
        J::S(s) => json!(s),
        J::A(a) => Value::Array(a.iter().map(j_to_spec).collect()),
        J::O(o) => json!({"o": o.iter().map(|(k, v)| json!([k, j_to_spec(v)])).collect::<Vec<_>>()}),
    }
}

/// the document as serde_json would hold it (keys unique and sorted, last repeat wins)
pub fn j_from_value(v: &Value) -> J {
    match v {
        Value::Null => J::Null,
        Value::Bool(b) => J::Bool(*b),
        Value::String(s) => J::S(s.clone()),
        Value::Array(a) => J::A(a.iter().map(j_from_value).collect()),
        Value::Number(n) => {
            if let Some(u) = n.as_u64() {
                J::U(u)
            } else if let Some(i) = n.as_i64() {
                J::I(i)
            } else {
                J::F(n.as_f64().unwrap_or(0.5))
            }
        }
        Value::Object(m) => J::O(m.iter().map(|(k, v)| (k.clone(), j_from_value(v))).collect()),
    }
}

pub fn j_text(j: &J) -> String {
    match j {
        J::Null => "null".to_string(),
        J::Bool(b) => b.to_string(),
        J::U(u) => u.to_string(),
        J::I(i) => i.to_string(),
        J::F(f) => {
            let s = serde_json::Number::from_f64(*f).map(|n| n.to_string()).unwrap_or("0.5".to_string());
            if s.contains('.') || s.contains('e') || s.contains('E') {
                s
            } else {
                format!("{}.0", s)
            }
        }
        J::S(s) => Value::String(s.clone()).to_string(),
        J::A(a) => format!("[{}]", a.iter().map(j_text).collect::<Vec<_>>().join(",")),
        J::O(o) => format!(
            "{{{}}}",
            o.iter().map(|(k, v)| format!("{}:{}", Value::String(k.clone()), j_text(v))).collect::<Vec<_>>().join(",")
        ),
    }
}

pub fn coq_str(s: &str) -> String {
    clist(s.chars().map(|c| (c as u32).to_string()))
}

pub fn j_coq(j: &J) -> String {
    match j {
        J::Null => "JNull".to_string(),
        J::Bool(b) => format!("(JBool {})", cbool(*b)),
        J::U(u) => format!("(JNum (NU {}))", u),
        J::I(i) => format!("(JNum (NI ({})%Z))", i),
        J::F(_) => "(JNum (NF 0))".to_string(),
        J::S(s) => format!("(JStr {})", coq_str(s)),
        J::A(a) => format!("(JArr {})", clist(a.iter().map(j_coq))),
        J::O(o) => format!("(JObj {})", clist(o.iter().map(|(k, v)| format!("({}, {})", coq_str(k), j_coq(v))))),
    }
}

fn obj(pairs: Vec<(&str, J)>) -> J {
    J::O(pairs.into_iter().map(|(k, v)| (k.to_string(), v)).collect())
}

fn js(s: &str) -> J {
    J::S(s.to_string())
}

// ---------------------------------------------------------------- base64 (RFC 4648, for building documents)

fn b64(data: &[u8]) -> String {
    const T: &[u8; 64] = b"ABCDEFGHIJKLMNOPQRSTUVWXYZabcdefghijklmnopqrstuvwxyz0123456789+/";
    let mut s = String::new();
    for ch in data.chunks(3) {
        let b = [ch[0], *ch.get(1).unwrap_or(&0), *ch.get(2).unwrap_or(&0)];
        let n = ((b[0] as u32) << 16) | ((b[1] as u32) << 8) | b[2] as u32;
        s.push(T[(n >> 18) as usize & 63] as char);
        s.push(T[(n >> 12) as usize & 63] as char);
        s.push(if ch.len() > 1 { T[(n >> 6) as usize & 63] as char } else { '=' });
        s.push(if ch.len() > 2 { T[n as usize & 63] as char } else { '=' });
    }
    s
}

// ---------------------------------------------------------------- images

fn coq_rgba(c: RGBA) -> String {
    format!("({}, {}, {}, {})", c.red(), c.green(), c.blue(), c.alpha())
}

fn coq_ires(r: &Option<Result<Image, String>>) -> (String, Value) {
    match r {
        None => ("IPanic".to_string(), json!("panic")),
        Some(Err(e)) => ("IErr".to_string(), json!({"err": e.chars().take(80).collect::<String>()})),
        Some(Ok(img)) => {
            // reading the pixels goes through the crate (iter over the shape): also an observation
            let img = img.clone();
            let read = catch(move || {
                let pix: Vec<String> = img.iter().map(|p| coq_rgba(*p)).collect();
                (img.height(), img.width(), pix)
            });
            match read {
                Some((h, w, pix)) => {
                    let n = pix.len();
                    (format!("(IOk {} {} {})", h, w, clist(pix)), json!({"ok": [h, w, n]}))
                }
                None => ("IPanic".to_string(), json!("panic reading the pixels")),
            }
        }
    }
}

/// the document as the visitor sees it: in document order with repeats when streamed from text, as the
/// serde_json::Value map (unique sorted keys) otherwise
fn image_seen(doc: &J, stream: bool) -> J {
    if stream {
        doc.clone()
    } else {
        serde_json::from_str::<Value>(&j_text(doc)).map(|v| j_from_value(&v)).unwrap_or(J::Null)
    }
}

/// parse the child's answer
fn ires_of_line(l: &Option<String>) -> (String, Value, &'static str) {
    match l.as_deref() {
        Some("err") => ("IErr".to_string(), json!("err"), "err"),
        Some("panic") => ("IPanic".to_string(), json!("panic"), "panic"),
        Some(line) if line.starts_with("ok ") => {
            let parts: Vec<&str> = line.split(' ').collect();
            let (h, w, hex) = (parts.get(1).copied().unwrap_or("0"), parts.get(2).copied().unwrap_or("0"), parts.get(3).copied().unwrap_or(""));
            let b: Vec<u8> = (0..hex.len() / 2).map(|i| u8::from_str_radix(&hex[2 * i..2 * i + 2], 16).unwrap_or(0)).collect();
            let pix: Vec<String> = b.chunks(4).map(|c| format!("({}, {}, {}, {})", c[0], c[1], c[2], c[3])).collect();
            let n = pix.len();
            (format!("(IOk {} {} {})", h, w, clist(pix)), json!({"ok": [h, w, n]}), "ok")
        }
        _ => ("IPanic".to_string(), json!("abort-or-hang"), "abort"),
    }
}

fn run_image(input: &Value, line: &Option<String>) -> Case {
    let doc = j_from_spec(&input["doc"]);
    let stream = input["stream"].as_bool().unwrap_or(false);
    let seen = image_seen(&doc, stream);
    let (rc, rj, res) = ires_of_line(line);
    let mut j = input.clone();
    j["impl"] = rj;
    j["text"] = json!(j_text(&doc).chars().take(300).collect::<String>());
    Case {
        coq: format!("CImage {} {}", j_coq(&seen), rc),
        json: j,
        tags: vec!["kind=image".to_string(), format!("image={}", res), format!("stream={}", stream)],
        nontrivial: true,
    }
}

/// Image::deserialize on JSON text through one of serde_json's three text entry points (all of them hand the
/// visitor the keys in document order, repeats included)
fn de_image_text(doc: &J, mode: &str) -> Option<Result<Image, String>> {
    let t = j_text(doc);
    let mode = mode.to_string();
    catch(move || match mode.as_str() {
        "slice" => serde_json::from_slice::<Image>(t.as_bytes()).map_err(|e| e.to_string()),
        "reader" => serde_json::from_reader::<_, Image>(std::io::Cursor::new(t.into_bytes())).map_err(|e| e.to_string()),
        _ => serde_json::from_str::<Image>(&t).map_err(|e| e.to_string()),
    })
}

fn run_image_rt(input: &Value) -> Case {
    // a base image bh x bw with the given pixels, cropped to rows r0..r1, cols c0..c1
    let bh = input["bh"].as_u64().unwrap_or(1) as usize;
    let bw = input["bw"].as_u64().unwrap_or(1) as usize;
    let px: Vec<u8> = vbytes(&input["px"]);
    let get = |i: usize| *px.get(i).unwrap_or(&0);
    let base = Image::from(SurfaceOwned::new_with(Size::new(bh, bw), |p| {
        let o = 4 * (p.row * bw + p.col);
        RGBA::new(get(o), get(o + 1), get(o + 2), get(o + 3))
    }));
    let (r0, r1) = (input["r0"].as_u64().unwrap_or(0) as usize, input["r1"].as_u64().unwrap_or(bh as u64) as usize);
    let (c0, c1) = (input["c0"].as_u64().unwrap_or(0) as usize, input["c1"].as_u64().unwrap_or(bw as u64) as usize);
    let img = if input["crop"].as_bool().unwrap_or(false) { base.crop(r0..r1, c0..c1) } else { base };
    // a crop of the crop (selectors relative to the first window)
    let img = match input["crop2"].as_array() {
        Some(a) if a.len() == 4 => {
            let g = |i: usize| a[i].as_u64().unwrap_or(0) as usize;
            img.crop(g(0)..g(1), g(2)..g(3))
        }
        _ => img,
    };
    let pix: Vec<String> = img.iter().map(|p| coq_rgba(*p)).collect();
    let (h, w) = (img.height(), img.width());
    let img2 = img.clone();
    let ser = catch(move || serde_json::to_value(&img2).ok()).flatten();
    let (ser_c, back) = match &ser {
        Some(v) => {
            let v2 = v.clone();
            (j_coq(&j_from_value_ser(v)), catch(move || serde_json::from_value::<Image>(v2).map_err(|e| e.to_string())))
        }
        None => ("JNull".to_string(), None),
    };
    let (bc, bj) = coq_ires(&back);
    let mut j = input.clone();
    j["impl"] = json!({"size": [h, w], "back": bj});
    Case {
        coq: format!("CImageRT {} {} {} {} {}", h, w, clist(pix), ser_c, bc),
        json: j,
        tags: vec!["kind=image_rt".to_string(), format!("crop={}", input["crop"].as_bool().unwrap_or(false))],
        nontrivial: h * w > 0,
    }
}

/// to_value of a struct serialises fields in declaration order, but a serde_json map sorts them; the
/// model's serialiser lists size, channels, data: print the object in that order
fn j_from_value_ser(v: &Value) -> J {
    match v {
        Value::Object(m) if m.contains_key("size") && m.contains_key("channels") && m.contains_key("data") && m.len() == 3 => J::O(vec![
            ("size".to_string(), j_from_value(&m["size"])),
            ("channels".to_string(), j_from_value(&m["channels"])),
            ("data".to_string(), j_from_value(&m["data"])),
        ]),
        _ => j_from_value(v),
    }
}

fn run_image_ch(input: &Value) -> Case {
    let c = input["c"].as_u64().unwrap_or(4);
    let h = input["h"].as_u64().unwrap_or(1);
    let w = input["w"].as_u64().unwrap_or(1);
    let mode = input["mode"].as_str().unwrap_or("str").to_string();
    // either an explicit document with its data parts (repeated keys), or the three fields in one of six orders
    let (parts, doc): (Vec<Vec<u8>>, J) = if input.get("doc").is_some() {
        (input["parts"].as_array().map(|a| a.iter().map(vbytes).collect()).unwrap_or_default(), j_from_spec(&input["doc"]))
    } else {
        let data = vbytes(&input["data"]);
        let order = input["order"].as_u64().unwrap_or(0);
        let mut fields = vec![
            ("size", obj(vec![("height", J::U(h)), ("width", J::U(w))])),
            ("channels", J::U(c)),
            ("data", js(&b64(&data))),
        ];
        fields.rotate_left((order % 3) as usize);
        if order >= 3 {
            fields.swap(0, 1);
        }
        (vec![data], obj(fields))
    };
    let r = de_image_text(&doc, &mode);
    let (rc, rj) = coq_ires(&r);
    let mut j = input.clone();
    j["impl"] = rj;
    j["text"] = json!(j_text(&doc).chars().take(300).collect::<String>());
    let ndata = match &doc {
        J::O(f) => f.iter().filter(|(k, _)| k == "data").count(),
        _ => 0,
    };
    Case {
        coq: format!("CImageCh {} {} {} {} {} {}", c, h, w, clist(parts.iter().map(|p| cbytes(p))), j_coq(&doc), rc),
        json: j,
        tags: vec![
            "kind=image_ch".to_string(),
            format!("channels={}", c),
            format!("image_ch.data_keys={}", ndata.min(4)),
            format!("image_ch.mode={}", mode),
        ],
        nontrivial: parts.iter().any(|p| !p.is_empty()),
    }
}

/// a document in the c-channel layout whose keys are repeated: `data` split into parts (appended in document
/// order), earlier `size` / `channels` entries overridden by the last one; `bad` puts one invalid duplicate in
fn image_dup_doc(rng: &mut Rng, c: u64, h: u64, w: u64, parts: &[Vec<u8>], bad: bool) -> J {
    let size_j = |rng: &mut Rng, h: u64, w: u64| -> J {
        if rng.chance(1, 2) { J::A(vec![J::U(h), J::U(w)]) } else { obj(vec![("height", J::U(h)), ("width", J::U(w))]) }
    };
    // the three groups, each in its own order (the last size / channels entry is the true one)
    let mut sizes: Vec<J> = vec![];
    for _ in 0..rng.below(3) {
        let (oh, ow) = if rng.chance(1, 2) { (h, w) } else { (rng.below(5), rng.below(5)) };
        sizes.push(size_j(rng, oh, ow));
    }
    sizes.push(size_j(rng, h, w));
    let mut chans: Vec<J> = vec![];
    for _ in 0..rng.below(3) {
        chans.push(J::U(*rng.pick(&[1u64, 3, 4, c])));
    }
    if c != 3 || !chans.is_empty() || rng.chance(2, 3) {
        chans.push(J::U(c));
    }
    let mut datas: Vec<J> = parts.iter().map(|p| js(&b64(p))).collect();
    if bad {
        let v = match rng.below(6) {
            0 => J::Null,
            1 => js("A"),
            2 => js("A!=="),
            3 => J::U(7),
            4 => J::A(vec![]),
            _ => js("===="),
        };
        match rng.below(3) {
            0 => sizes.insert(rng.below(sizes.len() as u64 + 1) as usize, v),
            1 => chans.insert(rng.below(chans.len() as u64 + 1) as usize, if rng.chance(1, 2) { J::U(*rng.pick(&[0u64, 2, 5, 255])) } else { v }),
            _ => datas.insert(rng.below(datas.len() as u64 + 1) as usize, v),
        }
    }
    // random merge of the three groups, each keeping its own order
    let mut groups: Vec<(&str, std::collections::VecDeque<J>)> =
        vec![("size", sizes.into()), ("channels", chans.into()), ("data", datas.into())];
    let mut out: Vec<(String, J)> = vec![];
    loop {
        groups.retain(|(_, q)| !q.is_empty());
        if groups.is_empty() {
            break;
        }
        let i = rng.below(groups.len() as u64) as usize;
        let v = groups[i].1.pop_front().unwrap();
        out.push((groups[i].0.to_string(), v));
        if rng.chance(1, 12) {
            out.push(("extra".to_string(), gen_scalar(rng)));
        }
    }
    J::O(out)
}

/// repeat keys of an object: each key, with probability 1/2, gets one or two more entries at random
/// positions, carrying the same value, another entry's value, an ill-typed scalar or an empty string
fn dup_keys(rng: &mut Rng, fields: &mut Vec<(String, J)>) {
    let original = fields.clone();
    for (k, v) in original.iter() {
        if !rng.chance(1, 2) {
            continue;
        }
        for _ in 0..(1 + rng.below(2)) {
            let nv = match rng.below(4) {
                0 => v.clone(),
                1 => original[rng.below(original.len() as u64) as usize].1.clone(),
                2 => gen_scalar(rng),
                _ => js(""),
            };
            let at = rng.below(fields.len() as u64 + 1) as usize;
            fields.insert(at, (k.clone(), nv));
        }
    }
}

/// split a byte string into k parts at random points (empty parts included)
fn split_parts(rng: &mut Rng, data: &[u8], k: usize) -> Vec<Vec<u8>> {
    let mut cuts: Vec<usize> = (0..k.saturating_sub(1)).map(|_| rng.below(data.len() as u64 + 1) as usize).collect();
    cuts.sort_unstable();
    let mut parts = vec![];
    let mut prev = 0;
    for c in cuts {
        parts.push(data[prev..c].to_vec());
        prev = c;
    }
    parts.push(data[prev..].to_vec());
    parts
}

// ---------------------------------------------------------------- faces

fn attrs_of(bits: u64) -> FaceAttrs {
    let mut a = match bits & 7 {
        1 => FaceAttrs::UNDERLINE,
        2 => FaceAttrs::UNDERLINE_DOUBLE,
        3 => FaceAttrs::UNDERLINE_CURLY,
        4 => FaceAttrs::UNDERLINE_DOTTED,
        5 => FaceAttrs::UNDERLINE_DASHED,
        _ => FaceAttrs::EMPTY,
    };
    for (b, f) in [(8, FaceAttrs::BOLD), (16, FaceAttrs::ITALIC), (32, FaceAttrs::BLINK), (64, FaceAttrs::REVERSE), (128, FaceAttrs::STRIKE)] {
        if bits & b != 0 {
            a = a | f;
        }
    }
    a
}

/// the bits of a FaceAttrs, observed through the public API; None if the value is not an underline style plus flags
fn attr_bits(a: FaceAttrs) -> Option<u64> {
    let u = match a.underline() {
        UnderlineStyle::None => 0,
        UnderlineStyle::Straight => 1,
        UnderlineStyle::Double => 2,
        UnderlineStyle::Curly => 3,
        UnderlineStyle::Dotted => 4,
        UnderlineStyle::Dashed => 5,
    };
    let mut bits = u;
    for (b, f) in [(8, FaceAttrs::BOLD), (16, FaceAttrs::ITALIC), (32, FaceAttrs::BLINK), (64, FaceAttrs::REVERSE), (128, FaceAttrs::STRIKE)] {
        if a.contains(f) {
            bits |= b;
        }
    }
    if attrs_of(bits) == a {
        Some(bits)
    } else {
        None
    }
}

fn rgba_of(v: &Value) -> Option<RGBA> {
    let a = v.as_array()?;
    Some(RGBA::new(a[0].as_u64()? as u8, a[1].as_u64()? as u8, a[2].as_u64()? as u8, a[3].as_u64()? as u8))
}

fn coq_orgba(c: Option<RGBA>) -> String {
    match c {
        None => "None".to_string(),
        Some(c) => format!("(Some {})", coq_rgba(c)),
    }
}

fn coq_face(f: &Face) -> String {
    // an attribute value outside underline+flags cannot be written in the model's terms: 65535 never matches
    let bits = attr_bits(f.attrs).unwrap_or(65535);
    format!("{{| f_fg := {}; f_bg := {}; f_attrs := {} |}}", coq_orgba(f.fg), coq_orgba(f.bg), bits)
}

fn coq_fres(r: &Option<Result<Face, String>>) -> (String, Value) {
    match r {
        None => ("FPanic".to_string(), json!("panic")),
        Some(Err(e)) => ("FErr".to_string(), json!({"err": e.chars().take(60).collect::<String>()})),
        Some(Ok(f)) => (format!("(FOk {})", coq_face(f)), json!({"ok": coq_face(f)})),
    }
}

/// Display of a face, as an observation: None = it panicked
fn print_face(f: &Face) -> Option<String> {
    let f = *f;
    catch(move || f.to_string())
}

fn run_face(input: &Value) -> Case {
    let f = Face::new(rgba_of(&input["fg"]), rgba_of(&input["bg"]), attrs_of(input["attrs"].as_u64().unwrap_or(0)));
    // Display, FromStr of it; a panic of Display shows as an empty text whose re-parse "panicked"
    let printed_opt = print_face(&f);
    let printed = printed_opt.clone().unwrap_or_default();
    let reparsed = match &printed_opt {
        Some(p) => {
            let p2 = p.clone();
            catch(move || Face::from_str(&p2).map_err(|e| e.to_string()))
        }
        None => None,
    };
    // Serialize, Deserialize; likewise
    let ser_opt = catch(move || serde_json::to_value(f).ok()).flatten();
    let ser = ser_opt.clone().unwrap_or(Value::Null);
    let back = match ser_opt {
        Some(s2) => catch(move || serde_json::from_value::<Face>(s2).map_err(|e| e.to_string())),
        None => None,
    };
    let (rc, rj) = coq_fres(&reparsed);
    let (bc, bj) = coq_fres(&back);
    let mut j = input.clone();
    j["impl"] = json!({"printed": printed_opt, "reparsed": rj, "back": bj});
    Case {
        coq: format!("CFace {} {} {} {} {}", coq_face(&f), coq_str(&printed), rc, j_coq(&j_from_value(&ser)), bc),
        json: j,
        tags: vec!["kind=face".to_string(), format!("face.display={}", if printed_opt.is_some() { "ok" } else { "panic" })],
        nontrivial: !printed.is_empty(),
    }
}

/// answers of the external RGBA parser for the colour values inside a face string
fn face_oracle(s: &str, out: &mut Vec<(String, Option<RGBA>)>) {
    for piece in s.split(',') {
        let mut it = piece.splitn(2, '=');
        let _ = it.next();
        let value = it.next().unwrap_or_default().trim();
        color_oracle(value, out);
    }
}

fn color_oracle(value: &str, out: &mut Vec<(String, Option<RGBA>)>) {
    if !out.iter().any(|(v, _)| v == value) {
        let v2 = value.to_string();
        let r = catch(move || RGBA::from_str(&v2).ok()).flatten();
        out.push((value.to_string(), r));
    }
}

fn coq_ftbl(tbl: &[(String, Option<RGBA>)]) -> String {
    clist(tbl.iter().map(|(s, r)| format!("({}, {})", coq_str(s), coq_orgba(*r))))
}

fn run_face_parse(input: &Value) -> Case {
    let s = input["s"].as_str().unwrap_or("").to_string();
    let s2 = s.clone();
    let r = catch(move || Face::from_str(&s2).map_err(|e| e.to_string()));
    let mut tbl = vec![];
    face_oracle(&s, &mut tbl);
    // what the parser produced, printed and parsed again
    let (printed, reparsed) = match &r {
        Some(Ok(f)) => match print_face(f) {
            Some(p) => {
                face_oracle(&p, &mut tbl);
                let p2 = p.clone();
                (p, catch(move || Face::from_str(&p2).map_err(|e| e.to_string())))
            }
            // Display panicked: an observation (empty text, "re-parse" panicked)
            None => (String::new(), None),
        },
        _ => (String::new(), Some(Err(String::new()))),
    };
    let (rc, rj) = coq_fres(&r);
    let (pc, pj) = coq_fres(&reparsed);
    let mut j = input.clone();
    j["impl"] = json!({"parsed": rj, "printed": printed, "reparsed": pj});
    let res = match &r {
        None => "panic",
        Some(Err(_)) => "err",
        Some(Ok(_)) => "ok",
    };
    Case {
        coq: format!("CFaceParse {} {} {} {} {}", coq_str(&s), coq_ftbl(&tbl), rc, coq_str(&printed), pc),
        json: j,
        tags: vec!["kind=face_parse".to_string(), format!("face_parse={}", res)],
        nontrivial: s.len() > 1,
    }
}

// ---------------------------------------------------------------- sizes and chords

fn coq_sres(r: &Option<Result<Size, String>>) -> (String, Value) {
    match r {
        None => ("SPanic".to_string(), json!("panic")),
        Some(Err(_)) => ("SErr".to_string(), json!("err")),
        Some(Ok(s)) => (format!("(SOk {} {})", s.height, s.width), json!([s.height.to_string(), s.width.to_string()])),
    }
}

fn run_size(input: &Value) -> Case {
    let h: usize = input["h"].as_str().and_then(|s| s.parse().ok()).unwrap_or(0);
    let w: usize = input["w"].as_str().and_then(|s| s.parse().ok()).unwrap_or(0);
    let ser_opt = catch(move || serde_json::to_value(Size::new(h, w)).ok()).flatten();
    let ser = ser_opt.clone().unwrap_or(Value::Null);
    let back = match ser_opt {
        Some(s2) => catch(move || serde_json::from_value::<Size>(s2).map_err(|e| e.to_string())),
        None => None,
    };
    let (bc, bj) = coq_sres(&back);
    let mut j = input.clone();
    j["impl"] = bj;
    Case {
        coq: format!("CSize {} {} {} {}", h, w, j_coq(&j_from_value(&ser)), bc),
        json: j,
        tags: vec!["kind=size".to_string()],
        nontrivial: true,
    }
}

fn run_size_de(input: &Value) -> Case {
    let doc = j_from_spec(&input["doc"]);
    let text = j_text(&doc);
    let stream = input["stream"].as_bool().unwrap_or(true);
    let (r, seen) = if stream {
        (catch(move || serde_json::from_str::<Size>(&text).map_err(|e| e.to_string())), doc.clone())
    } else {
        match serde_json::from_str::<Value>(&text) {
            Ok(v) => {
                let seen = j_from_value(&v);
                (catch(move || serde_json::from_value::<Size>(v).map_err(|e| e.to_string())), seen)
            }
            Err(e) => (Some(Err(e.to_string())), J::Null),
        }
    };
    let (rc, rj) = coq_sres(&r);
    let mut j = input.clone();
    j["impl"] = rj;
    Case {
        coq: format!("CSizeDe {} {}", j_coq(&seen), rc),
        json: j,
        tags: vec!["kind=size_de".to_string(), format!("size_de={}", if rc.starts_with("(SOk") { "ok" } else { "err" })],
        nontrivial: true,
    }
}

const MOD_BITS: [(u32, KeyMod); 9] = [
    (1, KeyMod::SHIFT),
    (2, KeyMod::ALT),
    (4, KeyMod::CTRL),
    (8, KeyMod::SUPER),
    (16, KeyMod::HYPER),
    (32, KeyMod::META),
    (64, KeyMod::CAPSLOCK),
    (128, KeyMod::NUMLOCK),
    (256, KeyMod::PRESS),
];

fn coq_key(k: &Key) -> String {
    let bits: u32 = MOD_BITS.iter().filter(|(_, f)| k.mode.contains(*f)).map(|(b, _)| *b).sum();
    let name = match k.name {
        KeyName::Char(c) => format!("(KChar {})", c as u32),
        KeyName::F(i) => format!("(KF {})", i),
        KeyName::Backspace => "KBackspace".to_string(),
        KeyName::Delete => "KDelete".to_string(),
        KeyName::Insert => "KInsert".to_string(),
        KeyName::Down => "KDown".to_string(),
        KeyName::End => "KEnd".to_string(),
        KeyName::Enter => "KEnter".to_string(),
        KeyName::Esc => "KEsc".to_string(),
        KeyName::Home => "KHome".to_string(),
        KeyName::Left => "KLeft".to_string(),
        KeyName::PageDown => "KPageDown".to_string(),
        KeyName::PageUp => "KPageUp".to_string(),
        KeyName::Right => "KRight".to_string(),
        KeyName::Tab => "KTab".to_string(),
        KeyName::Up => "KUp".to_string(),
        KeyName::MouseLeft => "KMouseLeft".to_string(),
        KeyName::MouseMiddle => "KMouseMiddle".to_string(),
        KeyName::MouseMove => "KMouseMove".to_string(),
        KeyName::MouseRight => "KMouseRight".to_string(),
        KeyName::MouseWheelDown => "KMouseWheelDown".to_string(),
        KeyName::MouseWheelUp => "KMouseWheelUp".to_string(),
    };
    format!("(Key {} {})", name, bits)
}

fn coq_cres(r: &Option<Result<KeyChord, String>>) -> (String, Value) {
    match r {
        None => ("CPanic".to_string(), json!("panic")),
        Some(Err(_)) => ("CErr".to_string(), json!("err")),
        Some(Ok(c)) => {
            let keys = clist(c.keys().iter().map(coq_key));
            (format!("(COk {})", keys), json!({ "ok": keys }))
        }
    }
}

fn lower_pairs(s: &str, out: &mut Vec<(String, String)>) {
    let mut push = |a: &str| {
        let l = a.to_lowercase();
        let ll = l.to_lowercase();
        if !out.iter().any(|(x, _)| x == a) {
            out.push((a.to_string(), l.clone()));
        }
        if !out.iter().any(|(x, _)| *x == l) {
            out.push((l, ll));
        }
    };
    for tok in s.split(' ') {
        for a in tok.split('+') {
            push(a);
        }
    }
}

fn coq_ltbl(tbl: &[(String, String)]) -> String {
    clist(tbl.iter().map(|(a, b)| format!("({}, {})", coq_str(a), coq_str(b))))
}

fn run_chord(input: &Value) -> Case {
    // a chord is obtained by parsing the input string; strings that do not parse are cases of CChordDe
    let s = input["s"].as_str().unwrap_or("").to_string();
    let parsed = {
        let s2 = s.clone();
        catch(move || KeyChord::from_str(&s2).ok()).flatten()
    };
    let mut tbl = vec![];
    match parsed {
        Some(chord) => {
            // Display and Serialize are observations too: a panic shows as an empty text / a null document
            // whose deserialisation "panicked"
            let c2 = chord.clone();
            let printed = catch(move || c2.to_string()).unwrap_or_default();
            lower_pairs(&printed, &mut tbl);
            let c3 = chord.clone();
            let ser_opt = catch(move || serde_json::to_value(&c3).ok()).flatten();
            let ser = ser_opt.clone().unwrap_or(Value::Null);
            let back = match ser_opt {
                Some(s2) => catch(move || serde_json::from_value::<KeyChord>(s2).map_err(|e| e.to_string())),
                None => None,
            };
            let (bc, bj) = coq_cres(&back);
            let mut j = input.clone();
            j["impl"] = json!({"printed": printed, "back": bj});
            Case {
                coq: format!(
                    "CChord {} {} {} {} {}",
                    clist(chord.keys().iter().map(coq_key)),
                    coq_ltbl(&tbl),
                    coq_str(&printed),
                    j_coq(&j_from_value(&ser)),
                    bc
                ),
                json: j,
                tags: vec!["kind=chord".to_string()],
                nontrivial: chord.keys().len() > 1,
            }
        }
        None => {
            lower_pairs(&s, &mut tbl);
            let doc = Value::String(s.clone());
            let d2 = doc.clone();
            let r = catch(move || serde_json::from_value::<KeyChord>(d2).map_err(|e| e.to_string()));
            let (rc, rj) = coq_cres(&r);
            let mut j = input.clone();
            j["impl"] = rj;
            Case {
                coq: format!("CChordDe {} {} {}", j_coq(&j_from_value(&doc)), coq_ltbl(&tbl), rc),
                json: j,
                tags: vec!["kind=chord_de".to_string()],
                nontrivial: false,
            }
        }
    }
}

fn run_chord_de(input: &Value) -> Case {
    let doc = j_from_spec(&input["doc"]);
    let text = j_text(&doc);
    let mut tbl = vec![];
    if let J::S(s) = &doc {
        lower_pairs(s, &mut tbl);
    }
    let r = catch(move || serde_json::from_str::<KeyChord>(&text).map_err(|e| e.to_string()));
    let (rc, rj) = coq_cres(&r);
    let mut j = input.clone();
    j["impl"] = rj;
    Case {
        coq: format!("CChordDe {} {} {}", j_coq(&doc), coq_ltbl(&tbl), rc),
        json: j,
        tags: vec!["kind=chord_de".to_string()],
        nontrivial: false,
    }
}

// ---------------------------------------------------------------- views (child process)

/// what the child reports for one document
#[derive(Clone, Debug, PartialEq)]
pub enum VRes {
    Ok(bool),
    Err,
    Panic,
    Abort,
}

/// a terminal that only answers size and capabilities: the way to a ViewContext without glyph support
struct NullTerm {
    caps: TerminalCaps,
}

impl std::io::Write for NullTerm {
    fn write(&mut self, buf: &[u8]) -> std::io::Result<usize> {
        Ok(buf.len())
    }
    fn flush(&mut self) -> std::io::Result<()> {
        Ok(())
    }
}

impl Terminal for NullTerm {
    fn execute(&mut self, _cmd: TerminalCommand) -> Result<(), Error> {
        Ok(())
    }
    fn waker(&self) -> TerminalWaker {
        TerminalWaker::new(|| Ok(()))
    }
    fn poll(&mut self, _timeout: Option<std::time::Duration>) -> Result<Option<TerminalEvent>, Error> {
        Ok(None)
    }
    fn dyn_ref(&mut self) -> &mut dyn Terminal {
        self
    }
    fn size(&self) -> Result<TerminalSize, Error> {
        Ok(term_size())
    }
    fn position(&mut self) -> Result<Position, Error> {
        Ok(Position::origin())
    }
    fn frames_pending(&self) -> usize {
        0
    }
    fn frames_drop(&mut self) {}
    fn capabilities(&self) -> &TerminalCaps {
        &self.caps
    }
}

fn term_size() -> TerminalSize {
    TerminalSize { cells: Size::new(24, 80), pixels: Size::new(24 * 20, 80 * 10) }
}

/// Lay out under loose, tight and unbounded constraints, with and without glyph support, and render with
/// the layout obtained.  Layout and render of the view's own layout tree must complete: an `Err`
/// (InvalidLayout ...) counts as a failure just like a panic does.
fn layout_render(view: &dyn View) -> bool {
    let no_glyphs = NullTerm { caps: TerminalCaps { glyphs: false, ..TerminalCaps::default() } };
    let contexts = [ViewContext::dummy(), ViewContext::new(&no_glyphs).expect("context")];
    let mut ok = true;
    for ctx in contexts.iter() {
        let mut cts: Vec<BoxConstraint> = vec![];
        for size in [Size::new(5, 20), Size::new(0, 0), Size::new(1, 1), Size::new(3, 200)] {
            cts.push(BoxConstraint::loose(size));
            cts.push(BoxConstraint::tight(size));
        }
        // unbounded: usize::MAX itself (flex_layout adds with saturation since 3921a30), and 2^40
        let big = 1usize << 40;
        cts.push(BoxConstraint::loose(Size::new(usize::MAX, usize::MAX)));
        cts.push(BoxConstraint::new(Size::new(0, 3), Size::new(usize::MAX, 7)));
        cts.push(BoxConstraint::new(Size::new(2, 0), Size::new(2, usize::MAX)));
        cts.push(BoxConstraint::loose(Size::new(big, big)));
        for ct in cts {
            let mut surf = SurfaceOwned::<Cell>::new(Size::new(5, 20));
            let mut store = ViewLayoutStore::new();
            match view.layout_new(ctx, ct, &mut store) {
                Ok(layout) => ok &= view.render(ctx, surf.as_mut(), layout.view()).is_ok(),
                Err(_) => ok = false,
            }
        }
    }
    ok
}

/// rasterisation of an accepted glyph document (it happens in the terminal renderer, after View::render):
/// Some(true) completed, Some(false) panicked, None not tried.  It is tried for glyphs of a moderate cell
/// size (a big one legitimately needs a big bitmap) and for those whose pixel size does not even fit usize.
fn raster_probe(g: &Glyph) -> Option<bool> {
    let size = g.size();
    let overflow = size.height.checked_mul(20).is_none() || size.width.checked_mul(10).is_none();
    if !overflow && (size.height > 8 || size.width > 16) {
        return None;
    }
    let r = std::panic::catch_unwind(std::panic::AssertUnwindSafe(|| {
        let _ = g.rasterize(Face::default(), term_size());
        let _ = g.rasterize(Face::new(Some(RGBA::new(1, 2, 3, 255)), Some(RGBA::new(9, 8, 7, 100)), FaceAttrs::EMPTY), term_size());
    }));
    Some(r.is_ok())
}

/// the cache the deserialiser is given in the `+cfg` runs: uid 7 is a container around a text
struct TestCache;

impl ViewCache for TestCache {
    fn get(&self, uid: i64) -> Option<ArcView<'static>> {
        if uid == 7 {
            Some(Container::new(Text::from("cached")).arc())
        } else {
            None
        }
    }
}

/// the shape of a layout tree: one pair of parentheses per node
fn layout_skeleton(l: ViewLayout<'_>) -> String {
    let mut s = String::from("(");
    for c in l.children() {
        s.push_str(&layout_skeleton(c));
    }
    s.push(')');
    s
}

/// what the child found out about one document
pub struct ViewObs {
    pub res: VRes,
    pub raster: Option<bool>,
    pub skeleton: Option<String>,
}

/// executed inside the child: deserialise as `kind` (`+cfg`: with a cache and a handler), then lay out and render
pub fn view_one(kind: &str, text: &str) -> ViewObs {
    let mut probe: Option<bool> = None;
    let (kind, cfg) = match kind.strip_suffix("+cfg") {
        Some(k) => (k.to_string(), true),
        None => (kind.to_string(), false),
    };
    let text = text.to_string();
    let de = std::panic::catch_unwind(std::panic::AssertUnwindSafe(|| -> Result<Box<dyn View>, String> {
        if kind == "glyph_stream" {
            // straight from text: the hand-written visitors see the keys in document order, repeats included
            return serde_json::from_str::<Glyph>(&text)
                .map(|g| {
                    probe = raster_probe(&g);
                    Box::new(g) as Box<dyn View>
                })
                .map_err(|e| e.to_string());
        }
        let value: Value = serde_json::from_str(&text).map_err(|e| e.to_string())?;
        match kind.as_str() {
            "text" => serde_json::from_value::<Text>(value).map(|t| Box::new(t) as Box<dyn View>).map_err(|e| e.to_string()),
            "glyph" => serde_json::from_value::<Glyph>(value)
                .map(|g| {
                    probe = raster_probe(&g);
                    Box::new(g) as Box<dyn View>
                })
                .map_err(|e| e.to_string()),
            _ => {
                let mut seed = if cfg {
                    ViewDeserializer::new(None, Some(std::sync::Arc::new(TestCache)))
                } else {
                    ViewDeserializer::new(None, None)
                };
                if cfg {
                    seed.register("custom", |_seed, _value| Text::from("custom").arc());
                }
                (&seed).deserialize(value).map(|t| Box::new(t) as Box<dyn View>).map_err(|e| e.to_string())
            }
        }
    }));
    match de {
        Err(_) => ViewObs { res: VRes::Panic, raster: probe, skeleton: None },
        Ok(Err(_)) => ViewObs { res: VRes::Err, raster: probe, skeleton: None },
        Ok(Ok(view)) => {
            let ok = std::panic::catch_unwind(std::panic::AssertUnwindSafe(|| layout_render(view.as_ref()))).unwrap_or(false);
            let skeleton = std::panic::catch_unwind(std::panic::AssertUnwindSafe(|| {
                let ctx = ViewContext::dummy();
                let mut store = ViewLayoutStore::new();
                view.layout_new(&ctx, BoxConstraint::loose(Size::new(5, 20)), &mut store).ok().map(|l| layout_skeleton(l.view()))
            }))
            .ok()
            .flatten();
            ViewObs { res: VRes::Ok(ok), raster: probe, skeleton }
        }
    }
}

/// Run the documents in child processes (one child handles many).  Each answer is one line.  A child
/// that dies, or does not answer within the time limit, marks the document it was working on as `None`
/// (abort / hang) and the rest continue in a fresh child.
fn run_in_children(docs: &[(String, String)]) -> Vec<Option<String>> {
    use std::sync::mpsc;
    use std::time::Duration;
    let mut out: Vec<Option<String>> = vec![];
    let exe = match std::env::current_exe() {
        Ok(e) => e,
        Err(_) => return docs.iter().map(|_| None).collect(),
    };
    let limit = Duration::from_secs(30);
    while out.len() < docs.len() {
        let start = out.len();
        // the child may use 4 GiB of address space: a document that makes the crate allocate without bound
        // kills the child (an abort, judged like a panic) instead of exhausting the machine for 30 s
        let child = Command::new("sh").arg("-c").arg("ulimit -v 4194304 2>/dev/null; exec \"$0\" tool c19view").arg(&exe).stdin(Stdio::piped()).stdout(Stdio::piped()).stderr(Stdio::null()).spawn();
        let mut child = match child {
            Ok(c) => c,
            Err(_) => {
                out.push(None);
                continue;
            }
        };
        {
            let mut stdin = child.stdin.take().unwrap();
            let batch: Vec<(String, String)> = docs[start..].to_vec();
            // feed from a thread so that a dying child cannot block us
            std::thread::spawn(move || {
                for (kind, text) in batch {
                    if writeln!(stdin, "{}\t{}", kind, text).is_err() {
                        break;
                    }
                }
            });
        }
        let (tx, rx) = mpsc::channel::<String>();
        let stdout = child.stdout.take().unwrap();
        std::thread::spawn(move || {
            for line in BufReader::new(stdout).lines() {
                match line {
                    Ok(l) => {
                        if tx.send(l).is_err() {
                            break;
                        }
                    }
                    Err(_) => break,
                }
            }
        });
        loop {
            match rx.recv_timeout(limit) {
                Ok(line) => {
                    out.push(Some(line));
                    if out.len() == docs.len() {
                        break;
                    }
                }
                Err(_) => {
                    // died or hung on the document after the last answer
                    out.push(None);
                    break;
                }
            }
        }
        let _ = child.kill();
        let _ = child.wait();
    }
    out.truncate(docs.len());
    out
}

fn vres_of_line(l: &Option<String>) -> VRes {
    match l.as_deref() {
        Some(l) if l.starts_with("ok1") => VRes::Ok(true),
        Some(l) if l.starts_with("ok0") => VRes::Ok(false),
        Some(l) if l.starts_with("err") => VRes::Err,
        Some(l) if l.starts_with("panic") => VRes::Panic,
        _ => VRes::Abort,
    }
}

fn number_of(j: &J) -> Option<f64> {
    match j {
        J::U(u) => Some(*u as f64),
        J::I(i) => Some(*i as f64),
        J::F(f) => Some(*f),
        _ => None,
    }
}

/// Decided on the DOCUMENT: the glyph cannot be rasterised by any arithmetic — its pixel size does not fit
/// usize, or its geometry is degenerate (a view box that is empty, negative or beyond 1e30; a path number
/// beyond 1e30, which the path parser reads as infinite or which overflows the f32 pipeline).
/// These are the classes of the known finding C19-glyph-rasterize.
fn glyph_raster_class(doc: &J) -> Option<&'static str> {
    let fields = match doc {
        J::O(f) => f,
        _ => return None,
    };
    let mut class = None;
    for (k, v) in fields.iter() {
        match (k.as_str(), v) {
            ("size", J::A(a)) if a.len() == 2 => {
                if let (Some(J::U(h)), Some(J::U(w))) = (a.first(), a.get(1)) {
                    if h.checked_mul(20).is_none() || w.checked_mul(10).is_none() {
                        class = Some("glyph-size-overflow");
                    }
                }
            }
            ("size", J::O(o)) => {
                for (kk, vv) in o.iter() {
                    if let J::U(x) = vv {
                        if (kk == "height" && x.checked_mul(20).is_none()) || (kk == "width" && x.checked_mul(10).is_none()) {
                            class = Some("glyph-size-overflow");
                        }
                    }
                }
            }
            ("view_box", J::A(a)) if a.len() == 4 => {
                let n: Vec<Option<f64>> = a.iter().map(number_of).collect();
                if let (Some(x), Some(y), Some(w), Some(h)) = (n[0], n[1], n[2], n[3]) {
                    if !(w > 0.0 && h > 0.0) || [x, y, w, h].iter().any(|v| !v.is_finite() || v.abs() > 1e30) {
                        class = class.or(Some("glyph-degenerate-geometry"));
                    }
                }
            }
            ("path", J::S(p)) => {
                let mut tok = String::new();
                let mut big = false;
                for ch in p.chars().chain(std::iter::once(' ')) {
                    let cont = ch.is_ascii_digit() || ch == '.' || ((ch == 'e' || ch == 'E') && !tok.is_empty()) || ((ch == '-' || ch == '+') && (tok.ends_with('e') || tok.ends_with('E')));
                    if cont {
                        tok.push(ch);
                    } else {
                        if let Ok(x) = tok.parse::<f64>() {
                            big |= !x.is_finite() || x.abs() > 1e30;
                        }
                        tok.clear();
                    }
                }
                if big {
                    class = class.or(Some("glyph-degenerate-geometry"));
                }
            }
            _ => {}
        }
    }
    class
}

/// executed inside the child: Image::deserialize, answer `ok H W rrggbbaa...` | `err` | `panic`
pub fn image_one(stream: bool, text: &str) -> String {
    let t = text.to_string();
    let r = std::panic::catch_unwind(move || {
        if stream {
            // the three text entry points must agree; the answer is that of from_str
            let a = serde_json::from_str::<Image>(&t).map_err(|e| e.to_string());
            let b = serde_json::from_slice::<Image>(t.as_bytes()).map(|_| ()).map_err(|_| ());
            let c = serde_json::from_reader::<_, Image>(std::io::Cursor::new(t.clone().into_bytes())).map(|_| ()).map_err(|_| ());
            if a.is_ok() != b.is_ok() || a.is_ok() != c.is_ok() {
                panic!("from_str / from_slice / from_reader disagree");
            }
            a
        } else {
            match serde_json::from_str::<Value>(&t) {
                Ok(v) => serde_json::from_value::<Image>(v).map_err(|e| e.to_string()),
                Err(e) => Err(e.to_string()),
            }
        }
    });
    match r {
        Err(_) => "panic".to_string(),
        Ok(Err(_)) => "err".to_string(),
        Ok(Ok(img)) => {
            let mut hex = String::new();
            for p in img.iter() {
                hex.push_str(&format!("{:02x}{:02x}{:02x}{:02x}", p.red(), p.green(), p.blue(), p.alpha()));
            }
            format!("ok {} {} {}", img.height(), img.width(), hex)
        }
    }
}

const ORC_KEYS: [(&str, u32); 13] = [
    ("scene", 1),
    ("path", 2),
    ("view_box", 3),
    ("fill_rule", 4),
    ("margin", 6),
    ("border_width", 6),
    ("border_radius", 6),
    ("padding", 6),
    ("direction", 7),
    ("justify", 8),
    ("align", 9),
    ("vertical", 9),
    ("margins", 10),
];

fn orc_answer(kind: u32, v: &Value) -> bool {
    use surf_n_term::rasterize::{Scalar, Scene};
    use surf_n_term::{BBox, FillRule, Path};
    let v = v.clone();
    catch(move || match kind {
        1 => serde_json::from_value::<Scene>(v).is_ok(),
        2 => serde_json::from_value::<Path>(v).is_ok(),
        3 => serde_json::from_value::<BBox>(v).is_ok(),
        4 => serde_json::from_value::<FillRule>(v).is_ok(),
        6 => serde_json::from_value::<[Scalar; 4]>(v).is_ok(),
        7 => serde_json::from_value::<Axis>(v).is_ok(),
        8 => serde_json::from_value::<Justify>(v).is_ok(),
        9 => serde_json::from_value::<Align>(v).is_ok(),
        _ => serde_json::from_value::<Margins>(v).is_ok(),
    })
    .unwrap_or(false)
}

fn j_to_value(j: &J) -> Value {
    serde_json::from_str(&j_text(j)).unwrap_or(Value::Null)
}

/// answers of the external deserialisers for every sub-value found under one of their keys (all occurrences
/// of a repeated key included)
fn collect_oracles(v: &J, orc: &mut Vec<(u32, J, bool)>, ftbl: &mut Vec<(String, Option<RGBA>)>) {
    match v {
        J::A(a) => a.iter().for_each(|x| collect_oracles(x, orc, ftbl)),
        J::O(m) => {
            for (k, x) in m.iter() {
                for (key, kind) in ORC_KEYS.iter() {
                    if k == key {
                        orc.push((*kind, x.clone(), orc_answer(*kind, &j_to_value(x))));
                    }
                }
                if k == "horizontal" {
                    orc.push((9, x.clone(), orc_answer(9, &j_to_value(x))));
                }
                if let J::S(s) = x {
                    if k == "face" {
                        face_oracle(s, ftbl);
                    }
                    if k == "border_color" || k == "fill_color" {
                        color_oracle(s, ftbl);
                    }
                }
                collect_oracles(x, orc, ftbl);
            }
        }
        _ => {}
    }
}

fn view_case(input: &Value, res: &VRes, line: &Option<String>) -> Case {
    let doc = j_from_spec(&input["doc"]);
    let kind = input["what"].as_str().unwrap_or("view");
    let text = j_text(&doc);
    // what the deserialiser was handed: the Value serde_json built (unique sorted keys), or, streamed, the
    // document itself
    let seen = if kind == "glyph_stream" {
        if serde_json::from_str::<Value>(&text).is_ok() { doc.clone() } else { J::Null }
    } else {
        j_from_value(&serde_json::from_str::<Value>(&text).unwrap_or(Value::Null))
    };
    let mut orc = vec![];
    let mut ftbl = vec![];
    collect_oracles(&seen, &mut orc, &mut ftbl);
    let orc_c = clist(orc.iter().map(|(k, j, b)| format!("({}, {}, {})", k, j_coq(j), cbool(*b))));
    // tokens of the child's answer: `sk=<layout skeleton>`, `raster=ok|panic`
    let token = |name: &str| -> Option<String> {
        line.as_deref().and_then(|l| l.split(' ').find_map(|t| t.strip_prefix(name).map(|x| x.to_string())))
    };
    let raster_panic = token("raster=").as_deref() == Some("panic");
    // rasterisation of a stand-alone glyph is part of "can be rendered" in the wide sense: a panic there makes
    // the case fail; the documents that cannot be rasterised by any arithmetic are the known-finding classes
    let res = match res {
        VRes::Ok(true) if raster_panic => &VRes::Ok(false),
        other => other,
    };
    let (rc, rj) = match res {
        // `ok` = the deserialised view could be laid out, rendered and (a small stand-alone glyph) rasterised
        VRes::Ok(true) => ("(VOk true)".to_string(), json!({ "ok": true, "deserialised": true })),
        VRes::Ok(false) => (
            "(VOk false)".to_string(),
            json!({ "ok": false, "deserialised": true, "failed_in": if raster_panic { "Glyph::rasterize" } else { "View::layout / View::render" } }),
        ),
        VRes::Err => ("VErr".to_string(), json!("err")),
        VRes::Panic => ("VPanic".to_string(), json!("panic")),
        VRes::Abort => ("VPanic".to_string(), json!("abort")),
    };
    let cfg = input["cfg"].as_bool().unwrap_or(false);
    let k = match kind {
        "text" => "KText",
        "glyph" | "glyph_stream" => "KGlyph",
        _ => "KView",
    };
    let raster = token("raster=").map(|r| format!("glyph.rasterize={}", r));
    let skel_c = match token("sk=") {
        Some(sk) => {
            // "(()(()))" -> SK [SK []; SK [SK []]]
            let mut out = String::new();
            let cs: Vec<char> = sk.chars().collect();
            for (i, c) in cs.iter().enumerate() {
                match c {
                    '(' => {
                        if i > 0 && cs[i - 1] == ')' {
                            out.push_str("; ");
                        }
                        out.push_str("SK [");
                    }
                    _ => out.push(']'),
                }
            }
            format!("(Some ({}))", out)
        }
        None => "None".to_string(),
    };
    let mut j = input.clone();
    j["impl"] = rj.clone();
    j["text"] = json!(text.chars().take(300).collect::<String>());
    if raster_panic {
        j["raster"] = json!("panic");
        if let Some(c) = glyph_raster_class(&doc) {
            j["known_class"] = json!([c]);
        }
    }
    Case {
        coq: format!("CView {} {} {} {} {} {} {}", k, cbool(cfg), j_coq(&seen), orc_c, coq_ftbl(&ftbl), rc, skel_c),
        json: j,
        tags: {
            let mut t = vec![format!("kind=view.{}", kind), format!("view={}", rj.as_str().unwrap_or("ok"))];
            if let Some(r) = raster {
                t.push(r);
            }
            if cfg {
                t.push("view.cfg=cache+handler".to_string());
            }
            t
        },
        nontrivial: matches!(seen, J::O(_)),
    }
}

// ---------------------------------------------------------------- generators

const EXTREME: [u64; 12] = [0, 1, 2, 3, 255, 65536, 1 << 31, 1 << 32, (1 << 32) + 1, 1 << 62, 1 << 63, u64::MAX];

fn gen_scalar(rng: &mut Rng) -> J {
    match rng.below(10) {
        0 => J::Null,
        1 => J::Bool(rng.chance(1, 2)),
        2 => J::U(*rng.pick(&EXTREME)),
        3 => J::I(-(rng.below(1000) as i64) - 1),
        4 => J::F(*rng.pick(&[0.5, 1.0, -1.5, 1e300, 3.25])),
        5 => js(""),
        6 => js("x"),
        7 => J::A(vec![]),
        8 => J::O(vec![]),
        _ => J::U(rng.below(6)),
    }
}

fn gen_size_j(rng: &mut Rng) -> J {
    let pick = |rng: &mut Rng| -> J {
        match rng.below(8) {
            0 => gen_scalar(rng),
            1..=3 => J::U(*rng.pick(&EXTREME)),
            _ => J::U(rng.below(5)),
        }
    };
    match rng.below(10) {
        0 => J::A(vec![pick(rng), pick(rng)]),
        1 => J::A(vec![pick(rng)]),
        2 => J::A(vec![pick(rng), pick(rng), pick(rng)]),
        3 => obj(vec![("height", pick(rng))]),
        4 => obj(vec![("height", pick(rng)), ("width", pick(rng)), ("height", pick(rng))]),
        5 => obj(vec![("width", pick(rng)), ("depth", gen_scalar(rng)), ("height", pick(rng))]),
        6 => gen_scalar(rng),
        _ => obj(vec![("height", pick(rng)), ("width", pick(rng))]),
    }
}

fn gen_b64_text(rng: &mut Rng, want: usize) -> J {
    match rng.below(12) {
        0 => js(""),
        1 => js(&b64(&rng.bytes(want + 1))),
        2 => js(&b64(&rng.bytes(want.saturating_sub(1)))),
        3 => js("A"),
        4 => js("AQI"),
        5 => js("A!=="),
        6 => js("\u{e9}AAA"),
        7 => js("===="),
        8 => gen_scalar(rng),
        _ => js(&b64(&rng.bytes(want))),
    }
}

/// every integer constant the anchored sources mention, with its neighbours (harvested at run time)
fn src_bounds() -> &'static Vec<u64> {
    static B: std::sync::OnceLock<Vec<u64>> = std::sync::OnceLock::new();
    B.get_or_init(|| {
        let mut b = source_boundaries(
            &["src/image.rs", "src/surface.rs", "src/terminal.rs", "src/glyph.rs", "src/view/mod.rs", "src/view/flex.rs", "src/view/container.rs"],
            u64::MAX,
        );
        if b.is_empty() {
            b.push(0);
        }
        b
    })
}

/// total data lengths worth a well-formed image each: around the integer constants of decoder.rs / image.rs as
/// they are NOW and around the powers of two, up to 4100 bytes
fn data_length_bounds() -> Vec<u64> {
    let mut b: Vec<u64> = source_boundaries(&["src/decoder.rs", "src/image.rs"], 4100).into_iter().filter(|&v| v >= 1).collect();
    for k in 1..=12u32 {
        let p = 1u64 << k;
        b.extend([p - 1, p, p + 1]);
    }
    b.sort_unstable();
    b.dedup();
    b
}

/// h x w = n with h the largest divisor of n not above its square root (1 x n for a prime)
fn factor_pair(n: u64) -> (u64, u64) {
    let mut h = 1;
    let mut d = 1;
    while d * d <= n {
        if n % d == 0 {
            h = d;
        }
        d += 1;
    }
    (h, n / h.max(1))
}

fn gen_image_doc(rng: &mut Rng) -> J {
    let pick = |rng: &mut Rng| -> u64 {
        match rng.below(6) {
            0 | 1 => *rng.pick(&EXTREME),
            2 => *rng.pick(src_bounds()),
            _ => rng.below(4),
        }
    };
    let h = pick(rng);
    let w = pick(rng);
    let c = match rng.below(9) {
        0 => *rng.pick(&EXTREME),
        8 => *rng.pick(src_bounds()),
        1 => 0,
        2 => 2,
        3 => 1,
        4 => 4,
        _ => 3,
    };
    let want = (c as u128).saturating_mul(h as u128).saturating_mul(w as u128).min(64) as usize;
    let size = if rng.chance(1, 4) { gen_size_j(rng) } else if rng.chance(1, 2) { J::A(vec![J::U(h), J::U(w)]) } else { obj(vec![("height", J::U(h)), ("width", J::U(w))]) };
    let mut fields: Vec<(String, J)> = vec![];
    if !rng.chance(1, 12) {
        fields.push(("size".to_string(), size));
    }
    if !rng.chance(1, 4) {
        fields.push(("channels".to_string(), if rng.chance(1, 10) { gen_scalar(rng) } else { J::U(c) }));
    }
    if !rng.chance(1, 12) {
        fields.push(("data".to_string(), gen_b64_text(rng, want)));
    }
    if rng.chance(1, 5) {
        fields.push(("extra".to_string(), gen_scalar(rng)));
    }
    if rng.chance(1, 6) {
        // a repeated key
        let i = rng.below(fields.len().max(1) as u64) as usize;
        if let Some(f) = fields.get(i).cloned() {
            let v = match f.0.as_str() {
                "data" => gen_b64_text(rng, want),
                "size" => gen_size_j(rng),
                _ => J::U(*rng.pick(&[1, 3, 4, 7])),
            };
            fields.push((f.0, v));
        }
    }
    // any key order
    for i in (1..fields.len()).rev() {
        let k = rng.below(i as u64 + 1) as usize;
        fields.swap(i, k);
    }
    if rng.chance(1, 25) {
        return gen_scalar(rng);
    }
    J::O(fields)
}

const PATHS: [&str; 6] = ["M0,0L1,1Z", "M0,0 L10,0 L10,10 Z", "", "M", "garbage", "M0,0L1e400,1Z"];
const COLORS: [&str; 8] = ["red", "#ff0000", "#00ff0080", "#fff", "nocolor", "", "#GG0000", "blue/0.5"];

fn gen_face_str(rng: &mut Rng) -> String {
    let mut parts: Vec<String> = vec![];
    let n = rng.below(6);
    for _ in 0..n {
        let c: &str = *rng.pick(&COLORS[..]);
        parts.push(match rng.below(14) {
            0 => format!("fg={}", c),
            1 => format!("bg={}", c),
            2 => format!(" fg = {} ", c),
            3 => "bold".to_string(),
            4 => "underline".to_string(),
            5 => (*rng.pick(&["underline_double", "underline_curly", "underline_dotted", "underline_dashed", "blink", "reverse"])).to_string(),
            6 => " italic ".to_string(),
            7 => String::new(),
            8 => "strike".to_string(),
            9 => "unknown".to_string(),
            10 => "fg".to_string(),
            11 => format!("fg=#{:02X}{:02x}{:02x}", rng.byte(), rng.byte(), rng.byte()),
            12 => format!("bg=#{:02x}{:02x}{:02x}{:02x}", rng.byte(), rng.byte(), rng.byte(), rng.byte()),
            _ => "=".to_string(),
        });
    }
    parts.join(",")
}

fn gen_glyph_fields(rng: &mut Rng) -> Vec<(String, J)> {
    let mut f: Vec<(String, J)> = vec![];
    if !rng.chance(1, 8) {
        let p: &str = *rng.pick(&PATHS[..]);
        f.push(("path".to_string(), if rng.chance(1, 12) { gen_scalar(rng) } else { js(p) }));
    }
    if rng.chance(1, 5) {
        if rng.chance(1, 3) {
            f.push(("scene".to_string(), gen_scalar(rng)));
        } else {
            // a valid rasterize scene; half of the time without a competing path
            if rng.chance(1, 2) {
                f.retain(|(k, _)| k != "path");
            }
            let fill = obj(vec![("type", js("fill")), ("paint", js("#ff0000")), ("path", js("M0,0L1,1L0,1Z"))]);
            let scene = if rng.chance(1, 3) { obj(vec![("type", js("group")), ("children", J::A(vec![fill.clone(), fill]))]) } else { fill };
            f.push(("scene".to_string(), scene));
        }
    }
    if rng.chance(1, 3) {
        f.push(("size".to_string(), if rng.chance(1, 3) { gen_size_j(rng) } else { J::A(vec![J::U(rng.below(3)), J::U(rng.below(5))]) }));
    }
    if rng.chance(1, 4) {
        f.push((
            "view_box".to_string(),
            match rng.below(5) {
                0 => gen_scalar(rng),
                1 => J::A(vec![J::U(0), J::U(0), J::U(0), J::U(0)]),
                2 => J::A(vec![J::F(-1e308), J::F(5.0), J::F(1e308), J::F(-5.0)]),
                _ => J::A(vec![J::F(0.0), J::F(0.0), J::F(10.0), J::F(10.0)]),
            },
        ));
    }
    if rng.chance(1, 5) {
        f.push(("fill_rule".to_string(), js(*rng.pick(&["nonzero", "evenodd", "bad"]))));
    }
    if rng.chance(1, 5) {
        f.push(("fallback".to_string(), if rng.chance(1, 4) { gen_scalar(rng) } else { js("fb") }));
    }
    if rng.chance(1, 3) {
        let mut fr: Vec<(String, J)> = vec![];
        for k in ["margin", "border_width", "border_radius", "padding"] {
            if rng.chance(1, 3) {
                fr.push((
                    k.to_string(),
                    match rng.below(6) {
                        0 => gen_scalar(rng),
                        1 => J::A(vec![J::F(1.0), J::F(1.0)]),
                        2 => {
                            // extreme numbers: negative, huge, tiny
                            let pick = |rng: &mut Rng| -> J {
                                match rng.below(8) {
                                    0 => J::F(-1.0),
                                    7 => J::F(*rng.pick(&[1e18, 1e155, 1e300])),
                                    1 => J::F(1e308),
                                    2 => J::F(-1e308),
                                    3 => J::F(1e-300),
                                    4 => J::U(*rng.pick(&EXTREME)),
                                    5 => J::I(-(rng.below(100) as i64) - 1),
                                    _ => J::F(*rng.pick(&[0.0, 0.5, 3.0, 40.0, 1000.0])),
                                }
                            };
                            J::A(vec![pick(rng), pick(rng), pick(rng), pick(rng)])
                        }
                        _ => J::A(vec![J::F(1.0), J::F(2.0), J::F(0.5), J::U(0)]),
                    },
                ));
            }
        }
        for k in ["border_color", "fill_color"] {
            if rng.chance(1, 3) {
                let c: &str = *rng.pick(&COLORS[..]);
                fr.push((k.to_string(), if rng.chance(1, 6) { gen_scalar(rng) } else { js(c) }));
            }
        }
        f.push(("frame".to_string(), if rng.chance(1, 8) { gen_scalar(rng) } else { J::O(fr) }));
    }
    f
}

fn gen_text(rng: &mut Rng, depth: u32) -> J {
    match rng.below(if depth == 0 { 3 } else { 8 }) {
        0 => js(if rng.chance(1, 4) { "0123456789012345678901234567890123456789 a long line of text that does not fit" } else { "hello \u{4e16}\u{754c}" }),
        1 => js(""),
        2 => js("a\tb\n"),
        3 => J::A((0..rng.below(4)).map(|_| gen_text(rng, depth - 1)).collect()),
        4 => {
            let mut f: Vec<(String, J)> = vec![];
            if rng.chance(1, 2) {
                f.push(("face".to_string(), if rng.chance(1, 10) { gen_scalar(rng) } else { js(&gen_face_str(rng)) }));
            }
            if rng.chance(1, 4) {
                f.push(("wraps".to_string(), if rng.chance(1, 4) { gen_scalar(rng) } else { J::Bool(rng.chance(1, 2)) }));
            }
            if rng.chance(1, 4) {
                f.push(("glyph".to_string(), if rng.chance(1, 8) { gen_scalar(rng) } else { J::O(gen_glyph_fields(rng)) }));
            }
            if rng.chance(3, 4) {
                f.push(("text".to_string(), gen_text(rng, depth - 1)));
            }
            J::O(f)
        }
        5 => gen_scalar(rng),
        _ => js("text"),
    }
}

fn gen_small_image_fields(rng: &mut Rng) -> Vec<(String, J)> {
    if rng.chance(1, 4) {
        if let J::O(f) = gen_image_doc(rng) {
            return f;
        }
    }
    let (h, w) = (rng.below(3), rng.below(4));
    let c = *rng.pick(&[1u64, 3, 4]);
    vec![
        ("size".to_string(), J::A(vec![J::U(h), J::U(w)])),
        ("channels".to_string(), J::U(c)),
        ("data".to_string(), js(&b64(&rng.bytes((c * h * w) as usize)))),
    ]
}

fn gen_view(rng: &mut Rng, depth: u32) -> J {
    let leaf = depth == 0;
    let t = if leaf { rng.below(5) } else { rng.below(14) };
    let mut f: Vec<(String, J)> = vec![];
    match t {
        0 => {
            f.push(("type".to_string(), js("text")));
            if let J::O(g) = gen_text(rng, 2) {
                f.extend(g);
            } else {
                f.push(("text".to_string(), gen_text(rng, 2)));
            }
        }
        1 => {
            f.push(("type".to_string(), js("glyph")));
            f.extend(gen_glyph_fields(rng));
        }
        2 => {
            f.push(("type".to_string(), js(if rng.chance(1, 3) { "image_ascii" } else { "image" })));
            f.extend(gen_small_image_fields(rng));
        }
        3 => {
            f.push(("type".to_string(), js("ref")));
            f.push(("ref".to_string(), match rng.below(4) { 0 => gen_scalar(rng), 1 => J::U(u64::MAX), 2 => J::I(-5), _ => J::U(7) }));
        }
        4 => {
            let ty: &str = *rng.pick(&["color", "unknown", "", "Text", "custom", "custom"]);
            f.push(("type".to_string(), if rng.chance(1, 3) { gen_scalar(rng) } else { js(ty) }));
            f.push(("color".to_string(), js("red")));
        }
        5..=8 => {
            f.push(("type".to_string(), js("flex")));
            if rng.chance(1, 2) {
                f.push(("direction".to_string(), js(*rng.pick(&["horizontal", "vertical", "diagonal"]))));
            }
            if rng.chance(2, 3) {
                f.push(("justify".to_string(), js(*rng.pick(&["start", "center", "end", "space-between", "space-around", "space-evenly", "bad"]))));
            }
            match rng.below(10) {
                0 => {}
                1 => f.push(("children".to_string(), gen_scalar(rng))),
                _ => {
                    // a single child is the case the spacing arithmetic treats apart: a third of the flexes
                    let n = if rng.chance(1, 3) { 1 } else { rng.below(4) };
                    let ch: Vec<J> = (0..n)
                        .map(|_| {
                            if rng.chance(1, 2) {
                                gen_view(rng, depth - 1)
                            } else {
                                let mut c: Vec<(String, J)> = vec![];
                                if rng.chance(2, 3) {
                                    // any factor: negative, zero, huge, integer, ill-typed
                                    c.push(("flex".to_string(), match rng.below(8) {
                                        0 => gen_scalar(rng),
                                        1 => J::U(*rng.pick(&EXTREME)),
                                        2 => J::F(*rng.pick(&[-1.0, -0.5, 0.0, -3.0, 1e308, -1e308, 1e-300])),
                                        3 => J::I(-(rng.below(5) as i64) - 1),
                                        _ => J::F(*rng.pick(&[0.5, 1.0, 2.0, 3.5])),
                                    }));
                                }
                                if rng.chance(1, 3) {
                                    c.push(("align".to_string(), js(*rng.pick(&["start", "center", "end", "expand", "shrink", "bad"]))));
                                }
                                if rng.chance(1, 3) {
                                    c.push(("face".to_string(), js(&gen_face_str(rng))));
                                }
                                if !rng.chance(1, 10) {
                                    c.push(("view".to_string(), gen_view(rng, depth - 1)));
                                }
                                J::O(c)
                            }
                        })
                        .collect();
                    f.push(("children".to_string(), J::A(ch)));
                }
            }
        }
        9 | 10 => {
            f.push(("type".to_string(), js("container")));
            if rng.chance(1, 3) {
                f.push(("face".to_string(), js(&gen_face_str(rng))));
            }
            // the offset of the last positive {"offset": n} chosen: margins are then drawn around usize::MAX - n
            let mut edge_n: u64 = 1;
            for k in ["vertical", "horizontal"] {
                if rng.chance(1, 2) {
                    if rng.chance(2, 5) {
                        let n: i64 = *rng.pick(&[1i64, 2, 5, -1, -4, i32::MAX as i64, -(i32::MAX as i64), i32::MIN as i64, 0, 1 << 31, -(1 << 32)]);
                        if n > 0 && n <= i32::MAX as i64 {
                            edge_n = n as u64;
                        }
                        f.push((k.to_string(), obj(vec![("offset", J::I(n))])));
                    } else {
                        f.push((k.to_string(), js(*rng.pick(&["start", "center", "end", "expand", "shrink", "bad"]))));
                    }
                }
            }
            if rng.chance(1, 2) {
                let mut m: Vec<(String, J)> = vec![];
                for k in ["left", "right", "top", "bottom"] {
                    if rng.chance(1, 2) {
                        m.push((k.to_string(), match rng.below(6) {
                            0 | 1 => J::U(*rng.pick(&EXTREME)),
                            // around the point where margin + offset passes usize::MAX
                            2 => J::U((u64::MAX - edge_n).wrapping_add(rng.below(4)).wrapping_sub(1).max(1 << 63)),
                            _ => J::U(rng.below(4)),
                        }));
                    }
                }
                f.push(("margins".to_string(), if rng.chance(1, 8) { gen_scalar(rng) } else { J::O(m) }));
            }
            if rng.chance(1, 2) {
                f.push(("size".to_string(), gen_size_j(rng)));
            }
            if !rng.chance(1, 10) {
                f.push(("child".to_string(), gen_view(rng, depth - 1)));
            }
        }
        11 => {
            f.push(("type".to_string(), js("tag")));
            if !rng.chance(1, 8) {
                f.push(("tag".to_string(), gen_scalar(rng)));
            }
            if !rng.chance(1, 8) {
                f.push(("view".to_string(), gen_view(rng, depth - 1)));
            }
        }
        12 => {
            f.push(("type".to_string(), js("trace-layout")));
            if rng.chance(1, 2) {
                f.push(("msg".to_string(), gen_scalar(rng)));
            }
            if !rng.chance(1, 8) {
                f.push(("view".to_string(), gen_view(rng, depth - 1)));
            }
        }
        _ => return gen_scalar(rng),
    }
    if rng.chance(1, 25) {
        // ill-typed mutation: replace one attribute by a random scalar
        let i = rng.below(f.len() as u64) as usize;
        f[i].1 = gen_scalar(rng);
    }
    if rng.chance(1, 30) {
        f.retain(|(k, _)| k != "type");
    }
    J::O(f)
}

fn nest(mut inner: J, depth: usize, how: u64) -> J {
    for _ in 0..depth {
        inner = match how {
            0 => J::A(vec![inner]),
            1 => obj(vec![("text", inner)]),
            2 => obj(vec![("type", js("tag")), ("tag", J::Null), ("view", inner)]),
            3 => obj(vec![("type", js("container")), ("child", inner)]),
            _ => obj(vec![("type", js("flex")), ("children", J::A(vec![inner]))]),
        };
    }
    inner
}

fn gen_chord_str(rng: &mut Rng) -> String {
    const NAMES: [&str; 12] = ["a", "z", "0", "/", "f1", "f12", "up", "esc", "space", "enter", "backspace", "pagedown"];
    const MODS: [&str; 8] = ["ctrl", "alt", "shift", "super", "hyper", "meta", "press", "capslock"];
    let n = 1 + rng.below(4);
    let mut keys: Vec<String> = vec![];
    for _ in 0..n {
        let mut parts: Vec<String> = vec![];
        for _ in 0..rng.below(3) {
            let m: &str = *rng.pick(&MODS[..]);
            parts.push(m.to_string());
        }
        let nm: &str = *rng.pick(&NAMES[..]);
        parts.push(if rng.chance(1, 5) { nm.to_uppercase() } else { nm.to_string() });
        keys.push(parts.join("+"));
    }
    if rng.chance(1, 10) {
        keys.push("nokey".to_string());
    }
    keys.join(if rng.chance(1, 6) { "  " } else { " " })
}

pub fn generate(rng: &mut Rng, n: usize, tier: &str) -> Vec<Value> {
    let _ = tier;
    let mut v: Vec<Value> = vec![];
    // fixed part -------------------------------------------------------------
    // every attribute set (6 underline styles x 32 flag sets) with three colour situations
    for bits in 0..256u64 {
        if bits & 7 > 5 {
            continue;
        }
        let (fg, bg) = match bits % 3 {
            0 => (Value::Null, Value::Null),
            1 => (json!([bits as u8, 0, 255, 255]), Value::Null),
            _ => (json!([1, 2, 3, 255]), json!([255 - bits as u8, 16, 15, bits as u8])),
        };
        v.push(json!({"kind": "face", "fg": fg, "bg": bg, "attrs": bits}));
    }
    for (h, w) in [(0u64, 0u64), (1, 1), (3, 4), (u64::MAX, 0), (u64::MAX, u64::MAX), (1 << 32, 1 << 32)] {
        v.push(json!({"kind": "size", "h": h.to_string(), "w": w.to_string()}));
    }
    // the multiplication in the image visitor, in both delivery modes
    for (h, w, c) in [(u64::MAX, 2u64, 3u64), (1 << 63, 0, 4), (0, 1 << 63, 4), (1 << 32, 1 << 32, 1), (1 << 62, 1, 4), (1 << 31, 1 << 31, 4), (3, 1 << 62, 3), (1 << 62, 0, 1), (1 << 40, 0, 3), (0, 1 << 62, 1)] {
        for stream in [true, false] {
            let doc = obj(vec![("size", J::A(vec![J::U(h), J::U(w)])), ("channels", J::U(c)), ("data", js(""))]);
            v.push(json!({"kind": "image", "stream": stream, "doc": j_to_spec(&doc)}));
        }
    }
    // deep nesting (serde_json refuses text nested deeper than 128)
    for how in 0..5u64 {
        for depth in [20usize, 60, 120, 125, 126, 127, 128, 129, 140] {
            let inner = if how <= 1 { js("x") } else { obj(vec![("type", js("text")), ("text", js("x"))]) };
            let doc = nest(inner, depth, how);
            let doc = if how <= 1 { obj(vec![("type", js("text")), ("text", doc)]) } else { doc };
            v.push(json!({"kind": "view", "what": "view", "doc": j_to_spec(&doc)}));
        }
    }
    // the flex documents that used to divide by zero
    for justify in ["space-around", "space-between", "space-evenly", "center"] {
        let doc = obj(vec![("type", js("flex")), ("justify", js(justify)), ("children", J::A(vec![]))]);
        v.push(json!({"kind": "view", "what": "view", "doc": j_to_spec(&doc)}));
        let doc = obj(vec![("type", js("flex")), ("justify", js(justify))]);
        v.push(json!({"kind": "view", "what": "view", "doc": j_to_spec(&doc)}));
    }
    // a flex child with a factor next to a sibling that takes the whole main axis (an empty flex with a
    // spreading justification does): the flex child is not laid out, its layout node keeps no children
    for justify in ["start", "center", "end", "space-between", "space-around", "space-evenly"] {
        for direction in ["horizontal", "vertical"] {
            let eater = obj(vec![("type", js("flex")), ("direction", js(direction)), ("justify", js(justify))]);
            let inner = obj(vec![("type", js("container")), ("child", obj(vec![("type", js("text")), ("text", js("ab"))]))]);
            let kids = vec![obj(vec![("flex", J::F(0.5)), ("view", inner.clone())]), eater, obj(vec![("flex", J::U(2)), ("view", inner)])];
            let doc = obj(vec![("type", js("flex")), ("direction", js(direction)), ("children", J::A(kids))]);
            v.push(json!({"kind": "view", "what": "view", "doc": j_to_spec(&doc)}));
        }
    }
    // a glyph with a zero extent (0 x 0, 0 x n, n x 0), path or scene, bare / framed with a fill / a border / margins:
    // it deserialises and rasterises to an empty image (the frame and the scene used to index the empty rows)
    for (bi, body) in [("path", js("")), ("path", js("M0,0L1,1Z")), ("scene", obj(vec![("type", js("fill")), ("paint", js("#ff0000")), ("path", js("M0,0L1,1L0,1Z"))]))].into_iter().enumerate() {
        for fi in 0..4usize {
            for (h, w) in [(0u64, 0u64), (0, 3), (2, 0), (1, 0)] {
                let mut f = vec![(body.0, body.1.clone()), ("size", J::A(vec![J::U(h), J::U(w)]))];
                match fi {
                    1 => f.push(("frame", obj(vec![("fill_color", js("red"))]))),
                    2 => f.push(("frame", obj(vec![("border_color", js("red")), ("border_width", J::A(vec![J::U(1), J::U(1), J::U(1), J::U(1)]))]))),
                    3 => f.push(("frame", obj(vec![("margin", J::A(vec![J::U(1), J::U(1), J::U(1), J::U(1)]))]))),
                    _ => {}
                }
                v.push(json!({"kind": "view", "what": if (bi + fi) % 2 == 0 { "glyph" } else { "glyph_stream" }, "doc": j_to_spec(&obj(f))}));
            }
        }
    }
    // a framed glyph whose border is far wider than any surface, in every regime of the unclamped arithmetic
    // (slow, memory exhausted, f64 overflow), on each side, with and without a fill; value and text delivery
    for (side, bw) in [(0usize, J::F(1e308)), (1, J::U(u64::MAX)), (2, J::F(1e18)), (3, J::F(1e155)), (2, J::F(1e308))] {
        let mut widths = vec![J::F(1000.0), J::F(0.0), J::F(0.0), J::F(-1e308)];
        widths[side] = bw;
        let mut frame = vec![("border_width", J::A(widths)), ("border_color", js("#00ff0080"))];
        if side % 2 == 0 {
            frame.push(("fill_color", js("#102030")));
            frame.push(("border_radius", J::A(vec![J::F(50.0), J::F(1e308), J::F(0.0), J::F(3.0)])));
        }
        let doc = obj(vec![("frame", obj(frame)), ("path", js("M0,0L1,1Z"))]);
        v.push(json!({"kind": "view", "what": if side % 2 == 0 { "glyph_stream" } else { "glyph" }, "doc": j_to_spec(&doc)}));
    }
    // the spacing block of flex_layout: every justify value x 0..3 children x the three forms of a child (bare view,
    // {view}, {view, flex}) x both directions; layout_render lays each out under constraints with leftover space
    // along the main axis (loose 5x20, 3x200, unbounded) and without (0x0, 1x1, tight)
    for justify in ["start", "center", "end", "space-between", "space-around", "space-evenly"] {
        for direction in ["horizontal", "vertical"] {
            for n in 0..4usize {
                for form in 0..3u32 {
                    if n == 0 && form > 0 {
                        continue;
                    }
                    let leaf = |i: usize| obj(vec![("type", js("text")), ("text", js(["ab", "c", "xyz"][i % 3]))]);
                    let kids: Vec<J> = (0..n)
                        .map(|i| match form {
                            0 => leaf(i),
                            1 => obj(vec![("view", leaf(i))]),
                            // the factor on the first child only, so that flex and non-flex children mix
                            _ => {
                                if i == 0 {
                                    obj(vec![("view", leaf(i)), ("flex", J::F(1.0))])
                                } else {
                                    obj(vec![("view", leaf(i))])
                                }
                            }
                        })
                        .collect();
                    let flex = obj(vec![("type", js("flex")), ("direction", js(direction)), ("justify", js(justify)), ("children", J::A(kids))]);
                    v.push(json!({"kind": "view", "what": "view", "doc": j_to_spec(&flex)}));
                    if n == 1 {
                        // and below a container / a tag, where the constraint is the parent's
                        let boxed = obj(vec![("type", js("container")), ("child", flex.clone())]);
                        v.push(json!({"kind": "view", "what": "view", "doc": j_to_spec(&boxed)}));
                        let tagged = obj(vec![("type", js("tag")), ("tag", J::Null), ("view", flex)]);
                        v.push(json!({"kind": "view", "what": "view", "doc": j_to_spec(&tagged)}));
                    }
                }
            }
        }
    }
    // Container: where two numbers of the document meet in one addition.  Child position = alignment offset +
    // leading margin (top for vertical, left for horizontal); shrunk extent = child + leading + trailing margin.
    // Every alignment form on each axis with margins around every boundary: for a positive offset n the
    // sum passes usize::MAX between margin = MAX - n and MAX - n + 1.
    {
        let aligns: Vec<(J, u64)> = vec![
            (js("start"), 1),
            (js("center"), 1),
            (js("end"), 1),
            (js("expand"), 1),
            (js("shrink"), 1),
            (obj(vec![("offset", J::I(1))]), 1),
            (obj(vec![("offset", J::I(3))]), 3),
            (obj(vec![("offset", J::I(i32::MAX as i64))]), i32::MAX as u64),
            (obj(vec![("offset", J::I(-1))]), 1),
            (obj(vec![("offset", J::I(-3))]), 3),
            (obj(vec![("offset", J::I(-(i32::MAX as i64)))]), i32::MAX as u64),
            (obj(vec![("offset", J::I(i32::MIN as i64))]), 1u64 << 31),
        ];
        let leaf = || obj(vec![("type", js("text")), ("text", js("ab"))]);
        for (axis, lead, trail) in [("vertical", "top", "bottom"), ("horizontal", "left", "right")] {
            for (a, n) in aligns.iter() {
                let edge = u64::MAX - n;
                let margins: Vec<u64> = vec![0, 1, 1 << 31, 1 << 32, 1 << 62, 1 << 63, edge - 1, edge, edge + 1, edge.saturating_add(2), u64::MAX];
                for (mi, m) in margins.iter().enumerate() {
                    for which in 0..3u32 {
                        let ms: Vec<(&str, J)> = match which {
                            0 => vec![(lead, J::U(*m))],
                            1 => vec![(trail, J::U(*m))],
                            _ => vec![(lead, J::U(*m)), (trail, J::U(*m))],
                        };
                        let c = obj(vec![("type", js("container")), (axis, a.clone()), ("margins", obj(ms)), ("child", leaf())]);
                        v.push(json!({"kind": "view", "what": "view", "doc": j_to_spec(&c)}));
                        // around the boundary also below a flex (bare and wrapped; no flex factor: a child that is offered
                        // no space is never laid out and has no subtree to compare) and a tag
                        if which == 0 && mi >= 6 {
                            let in_flex = obj(vec![("type", js("flex")), ("children", J::A(vec![c.clone(), obj(vec![("view", c.clone())])]))]);
                            v.push(json!({"kind": "view", "what": "view", "doc": j_to_spec(&in_flex)}));
                            let tagged = obj(vec![("type", js("tag")), ("tag", J::Null), ("view", c)]);
                            v.push(json!({"kind": "view", "what": "view", "doc": j_to_spec(&tagged)}));
                        }
                    }
                }
            }
        }
        // both axes at once, an explicit size, and all four margins at the maximum
        for a in [obj(vec![("offset", J::I(2))]), obj(vec![("offset", J::I(-2))]), js("center"), js("end")] {
            for m in [u64::MAX, u64::MAX - 1, u64::MAX - 2, 1 << 63] {
                let ms = obj(vec![("left", J::U(m)), ("right", J::U(m)), ("top", J::U(m)), ("bottom", J::U(m))]);
                for size in [None, Some((2u64, 3u64)), Some((u64::MAX, u64::MAX))] {
                    let mut f = vec![("type", js("container")), ("vertical", a.clone()), ("horizontal", a.clone()), ("margins", ms.clone()), ("child", leaf())];
                    if let Some((h, w)) = size {
                        f.push(("size", obj(vec![("height", J::U(h)), ("width", J::U(w))])));
                    }
                    v.push(json!({"kind": "view", "what": "view", "doc": j_to_spec(&obj(f))}));
                }
            }
        }
    }
    // glyphs that cannot be rasterised (known finding C19-glyph-rasterize), and the cache / handler configuration
    for doc in [
        obj(vec![("path", js("M0,0L1,1Z")), ("size", J::A(vec![J::U(1 << 62), J::U(1)]))]),
        obj(vec![("path", js("M0,0L1,1Z")), ("view_box", J::A(vec![J::U(0), J::U(0), J::U(0), J::U(0)]))]),
        obj(vec![("path", js("M0,0L1e400,1Z"))]),
    ] {
        v.push(json!({"kind": "view", "what": "glyph", "doc": j_to_spec(&doc)}));
    }
    for cfg in [false, true] {
        let r = obj(vec![("type", js("ref")), ("ref", J::U(7))]);
        let c = obj(vec![("type", js("custom")), ("anything", J::Null)]);
        let doc = obj(vec![("type", js("flex")), ("children", J::A(vec![r, c.clone(), obj(vec![("view", c)])]))]);
        v.push(json!({"kind": "view", "what": "view", "cfg": cfg, "doc": j_to_spec(&doc)}));
    }
    // repeated `data` keys, exhaustively on a small image: 1 x 2, one channel, every split of the two bytes into
    // two and three parts, size and channels at every position among them, through the three text entry points
    {
        let data = [7u8, 200u8];
        let mut splits: Vec<Vec<Vec<u8>>> = vec![];
        for a in 0..=2usize {
            splits.push(vec![data[..a].to_vec(), data[a..].to_vec()]);
            for b in a..=2usize {
                splits.push(vec![data[..a].to_vec(), data[a..b].to_vec(), data[b..].to_vec()]);
            }
        }
        let mut k = 0usize;
        for parts in splits.iter() {
            let n = parts.len();
            for ps in 0..=n {
                for pc in 0..=n {
                    let mut fields: Vec<(String, J)> = vec![];
                    for (i, p) in parts.iter().enumerate() {
                        if ps == i {
                            fields.push(("size".to_string(), J::A(vec![J::U(1), J::U(2)])));
                        }
                        if pc == i {
                            fields.push(("channels".to_string(), J::U(1)));
                        }
                        fields.push(("data".to_string(), js(&b64(p))));
                    }
                    if ps == n {
                        fields.push(("size".to_string(), J::A(vec![J::U(1), J::U(2)])));
                    }
                    if pc == n {
                        fields.push(("channels".to_string(), J::U(1)));
                    }
                    let mode = ["str", "slice", "reader"][k % 3];
                    k += 1;
                    v.push(json!({"kind": "image_ch", "c": 1, "h": 1, "w": 2, "mode": mode,
                                  "parts": parts.iter().map(|p| jbytes(p)).collect::<Vec<_>>(), "doc": j_to_spec(&J::O(fields))}));
                }
            }
        }
    }
    // sizes and counts the anchored sources mention (and their neighbours), small enough to carry data
    let bounds: Vec<u64> = source_boundaries(&["src/image.rs", "src/surface.rs", "src/terminal.rs", "src/glyph.rs"], 40);
    // DATA LENGTHS: the base64 payload is decoded through buffers and read calls of some size, so the lengths around
    // the integer constants of the decoder and the image code, and around the powers of two (the growth schedule of
    // Vec / read_to_end), each as a well-formed greyscale image h x w = length; key orders and entry points rotate
    let len_bounds = data_length_bounds();
    for (i, &len) in len_bounds.iter().enumerate() {
        let (h, w) = factor_pair(len);
        let data = rng.bytes(len as usize);
        let mode = ["str", "slice", "reader"][i % 3];
        v.push(json!({"kind": "image_ch", "c": 1, "h": h, "w": w, "data": jbytes(&data), "order": (i % 6) as u64, "mode": mode}));
    }
    let fixed = v.len();
    // random part ------------------------------------------------------------
    while v.len() < fixed + n {
        match rng.below(100) {
            0..=17 => {
                let doc = gen_image_doc(rng);
                v.push(json!({"kind": "image", "stream": rng.chance(1, 2), "doc": j_to_spec(&doc)}));
            }
            18..=27 => {
                let (bh, bw) = if rng.chance(1, 4) { (rng.below(13), rng.below(13)) } else { (rng.below(6), rng.below(6)) };
                let px = rng.bytes((4 * bh * bw) as usize);
                let crop = rng.chance(1, 2);
                let (r0, c0) = (rng.below(bh + 1), rng.below(bw + 1));
                let (r1, c1) = (r0 + rng.below(bh + 1 - r0), c0 + rng.below(bw + 1 - c0));
                let mut case = json!({"kind": "image_rt", "bh": bh, "bw": bw, "px": jbytes(&px), "crop": crop, "r0": r0, "r1": r1, "c0": c0, "c1": c1});
                if crop && rng.chance(1, 3) {
                    let (h1, w1) = (r1 - r0, c1 - c0);
                    let (a, c) = (rng.below(h1 + 1), rng.below(w1 + 1));
                    case["crop2"] = json!([a, a + rng.below(h1 + 1 - a), c, c + rng.below(w1 + 1 - c)]);
                }
                v.push(case);
            }
            28..=35 => {
                let c = *rng.pick(&[1u64, 3, 4]);
                // small sizes, or a boundary the image / surface / size code mentions (capped so that the data stays small)
                let dim = |rng: &mut Rng| -> u64 {
                    if !bounds.is_empty() && rng.chance(1, 5) { *rng.pick(&bounds) } else { rng.below(5) }
                };
                let (mut h, mut w) = (dim(rng), dim(rng));
                if c * h * w > 4096 {
                    h = h.min(4);
                    w = w.min(4);
                }
                // or a total data length at a boundary, in the layout that divides it
                let mut c = c;
                if rng.chance(1, 6) {
                    let len = *rng.pick(&len_bounds);
                    c = *[4u64, 3, 1].iter().find(|&&k| len % k == 0 && rng.chance(2, 3)).unwrap_or(&1);
                    let (a, b) = factor_pair(len / c);
                    if rng.chance(1, 2) { h = a; w = b } else { h = b; w = a }
                }
                let len = (c * h * w) as usize;
                let len = if rng.chance(1, 8) { len + 1 } else { len };
                let data = rng.bytes(len);
                if rng.chance(1, 3) {
                    v.push(json!({"kind": "image_ch", "c": c, "h": h, "w": w, "data": jbytes(&data), "order": rng.below(6)}));
                } else {
                    // repeated keys: data in 1..4 parts, size and channels overridden, sometimes an invalid duplicate
                    let k = 1 + rng.below(4) as usize;
                    let parts = split_parts(rng, &data, k);
                    let bad = rng.chance(1, 5);
                    let doc = image_dup_doc(rng, c, h, w, &parts, bad);
                    let mode = *rng.pick(&["str", "slice", "reader"]);
                    v.push(json!({"kind": "image_ch", "c": c, "h": h, "w": w, "mode": mode,
                                  "parts": parts.iter().map(|p| jbytes(p)).collect::<Vec<_>>(), "doc": j_to_spec(&doc)}));
                }
            }
            36..=41 => {
                let col = |rng: &mut Rng| -> Value {
                    match rng.below(4) {
                        0 => Value::Null,
                        1 => json!([rng.byte(), rng.byte(), rng.byte(), 255]),
                        _ => json!([rng.byte(), rng.byte(), rng.byte(), rng.byte()]),
                    }
                };
                let bits = (rng.below(6)) | (rng.below(32) << 3);
                v.push(json!({"kind": "face", "fg": col(rng), "bg": col(rng), "attrs": bits}));
            }
            42..=49 => v.push(json!({"kind": "face_parse", "s": gen_face_str(rng)})),
            50..=52 => {
                let h = *rng.pick(&EXTREME);
                let w = if rng.chance(1, 2) { *rng.pick(&EXTREME) } else { rng.below(100) };
                v.push(json!({"kind": "size", "h": h.to_string(), "w": w.to_string()}));
            }
            53..=58 => {
                let mut doc = gen_size_j(rng);
                // repeated keys in every position, with equal / different / ill-typed / empty values (the derived
                // visitor answers `duplicate field`; through a Value the last one wins)
                if let J::O(f) = &mut doc {
                    dup_keys(rng, f);
                }
                v.push(json!({"kind": "size_de", "stream": rng.chance(2, 3), "doc": j_to_spec(&doc)}));
            }
            59..=64 => v.push(json!({"kind": "chord", "s": gen_chord_str(rng)})),
            65..=66 => v.push(json!({"kind": "chord_de", "doc": j_to_spec(&gen_scalar(rng))})),
            67..=72 => v.push(json!({"kind": "view", "what": "text", "doc": j_to_spec(&gen_text(rng, 3))})),
            73..=78 => {
                let doc = if rng.chance(1, 10) { gen_scalar(rng) } else { J::O(gen_glyph_fields(rng)) };
                if rng.chance(1, 2) {
                    v.push(json!({"kind": "view", "what": "glyph", "doc": j_to_spec(&doc)}));
                } else {
                    // streamed from text, with repeated and shuffled keys: the Glyph / GlyphFrame visitors
                    // themselves see the repeats
                    let doc = match doc {
                        J::O(mut f) => {
                            let more = gen_glyph_fields(rng);
                            for (k, x) in more {
                                if rng.chance(1, 3) {
                                    f.push((k, x));
                                }
                            }
                            for i in (1..f.len()).rev() {
                                let k = rng.below(i as u64 + 1) as usize;
                                f.swap(i, k);
                            }
                            if rng.chance(1, 2) {
                                dup_keys(rng, &mut f);
                            }
                            // repeats inside the frame too
                            for (k, x) in f.iter_mut() {
                                if k == "frame" {
                                    if let J::O(fr) = x {
                                        if let Some(first) = fr.first().cloned() {
                                            if rng.chance(1, 2) {
                                                fr.push(first);
                                            }
                                        }
                                    }
                                }
                            }
                            J::O(f)
                        }
                        other => other,
                    };
                    v.push(json!({"kind": "view", "what": "glyph_stream", "doc": j_to_spec(&doc)}));
                }
            }
            _ => {
                let d = 1 + rng.below(3) as u32;
                // one in three with a cache (uid 7) and a handler "custom" given to the deserialiser
                v.push(json!({"kind": "view", "what": "view", "cfg": rng.chance(1, 3), "doc": j_to_spec(&gen_view(rng, d))}));
            }
        }
    }
    v
}

pub fn batch(inputs: &[Value]) -> Batch {
    // the view and image documents run in child processes, in one go
    let is_child = |i: &Value| i["kind"] == "view" || i["kind"] == "image";
    let docs: Vec<(String, String)> = inputs
        .iter()
        .filter(|i| is_child(i))
        .map(|i| {
            let kind = if i["kind"] == "image" {
                if i["stream"].as_bool().unwrap_or(false) { "image_stream" } else { "image_value" }.to_string()
            } else {
                format!("{}{}", i["what"].as_str().unwrap_or("view"), if i["cfg"].as_bool().unwrap_or(false) { "+cfg" } else { "" })
            };
            (kind, j_text(&j_from_spec(&i["doc"])))
        })
        .collect();
    let results = run_in_children(&docs);
    let mut next = 0usize;
    // Every case runs under a guard: the in-flight input is written to current_case.json first (so that an
    // abort still yields a replay) and a panic anywhere in the harness-side use of the crate (building test
    // values, reading results, printing observations) becomes a failing case instead of killing the run.
    let dir = std::env::var("SNT_HARNESS_OUT").ok();
    let cases: Vec<Case> = inputs
        .iter()
        .map(|input| {
            if let Some(d) = &dir {
                let _ = std::fs::write(format!("{}/current_case.json", d), input.to_string());
            }
            let kind = input["kind"].as_str().unwrap_or("");
            let child_line = if kind == "image" || kind == "view" {
                let r = results.get(next).cloned().unwrap_or(None);
                next += 1;
                r
            } else {
                None
            };
            let run = || match kind {
                "image" => run_image(input, &child_line),
                "image_rt" => run_image_rt(input),
                "image_ch" => run_image_ch(input),
                "face" => run_face(input),
                "face_parse" => run_face_parse(input),
                "size" => run_size(input),
                "size_de" => run_size_de(input),
                "chord" => run_chord(input),
                "chord_de" => run_chord_de(input),
                _ => view_case(input, &vres_of_line(&child_line), &child_line),
            };
            match std::panic::catch_unwind(std::panic::AssertUnwindSafe(run)) {
                Ok(case) => case,
                Err(_) => {
                    let mut j = input.clone();
                    j["impl"] = json!("panic in a crate call outside the observed ones (building the test value, reading or printing a result)");
                    // a case that fails both components: the model never panics
                    Case {
                        coq: "CImage JNull IPanic".to_string(),
                        json: j,
                        tags: vec![format!("kind={}", kind), "harness.guard=panic".to_string()],
                        nontrivial: true,
                    }
                }
            }
        })
        .collect();
    if let Some(d) = &dir {
        let _ = std::fs::remove_file(format!("{}/current_case.json", d));
    }
    Batch {
        prop: "C19",
        coq_import: "Corr.C19Corr",
        case_type: "c19_case",
        report_fn: "c19_report",
        rule: "image / view / text / glyph document that is a JSON object, image round trip with at least one pixel, face with at least one attribute or colour, chord of at least two keys; distinct by input",
        cases,
        preamble: String::new(),
    }
}
