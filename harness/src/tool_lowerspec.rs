//! `snt_harness tool lowerspec`: exhaustive check of the two facts about `to_lowercase` that the C18/C19
//! parser theorems assume (Keys/KeyParseProofs.v `lower_spec`), over every Unicode scalar value:
//!  1. an ASCII character that is not a capital letter is its own lower case (as char and as 1-char str),
//!  2. a character whose lower case begins with 'f' is 'f' or 'F' (as char, as 1-char str, and followed by text).
//! Prints `lowerspec ok <n>` and returns 0, or prints the offending scalar and returns 1.
pub fn main(_args: &[String]) -> i32 {
    let mut n = 0u32;
    for u in 0..=0x10FFFFu32 {
        let c = match char::from_u32(u) {
            Some(c) => c,
            None => continue,
        };
        n += 1;
        let s = c.to_string();
        let l = s.to_lowercase();
        let l2 = format!("{}1a", c).to_lowercase();
        let lc: String = c.to_lowercase().collect();
        if u < 128 && !c.is_ascii_uppercase() && (l != s || lc != s) {
            println!("lowerspec FAIL ascii U+{:04X}", u);
            return 1;
        }
        let begins_f = l.starts_with('f') || l2.starts_with('f') || lc.starts_with('f');
        if begins_f && c != 'f' && c != 'F' {
            println!("lowerspec FAIL f U+{:04X}", u);
            return 1;
        }
    }
    println!("lowerspec ok {}", n);
    0
}
