//! C15: expressions built through the public NFA API, compiled, and observed:
//! NFA graph (from the Debug/DOT output), DFA (breadth-first through
//! start/transition/info), acceptance/terminal/tags after every short string.
use crate::util::*;
use serde_json::{json, Value};
use std::collections::{BTreeMap, BTreeSet, VecDeque};
use surf_n_term::automata::{DFAState, DFA, NFA};

type Tag = u32;

// ---------------------------------------------------------------- expressions

fn mk(k: &str) -> Value {
    json!({ "k": k })
}
fn lit(bs: &[u8]) -> Value {
    json!({"k": "lit", "bs": jbytes(bs)})
}
fn pred(set: &[u8]) -> Value {
    json!({"k": "pred", "set": jbytes(set)})
}
fn un(k: &str, e: Value) -> Value {
    json!({"k": k, "e": e})
}
fn nary(k: &str, es: Vec<Value>) -> Value {
    json!({"k": k, "es": es})
}
fn tag(t: u32, e: Value) -> Value {
    json!({"k": "tag", "t": t, "e": e})
}

fn kind(e: &Value) -> &str {
    e["k"].as_str().unwrap_or("nothing")
}

fn subs(e: &Value) -> Vec<&Value> {
    match kind(e) {
        "seq" | "choice" => e["es"].as_array().map(|a| a.iter().collect()).unwrap_or_default(),
        "plus" | "opt" | "many" | "tag" | "tagmap" => vec![&e["e"]],
        _ => vec![],
    }
}

/// build through the public API only
fn build(e: &Value) -> NFA<Tag> {
    match kind(e) {
        "pred" => {
            let set: BTreeSet<u8> = vbytes(&e["set"]).into_iter().collect();
            NFA::predicate(move |b| set.contains(&b))
        }
        "lit" => {
            let bs = vbytes(&e["bs"]);
            let s = String::from_utf8(bs).expect("literal must be utf-8");
            NFA::from(s.as_str())
        }
        "empty" => NFA::empty(),
        // two operands: through the operators `+` and `|`
        "seq" | "choice" => {
            let mut ns: Vec<NFA<Tag>> = subs(e).into_iter().map(build).collect();
            if ns.len() == 2 {
                let b = ns.pop().unwrap();
                let a = ns.pop().unwrap();
                if kind(e) == "seq" {
                    a + b
                } else {
                    a | b
                }
            } else if kind(e) == "seq" {
                NFA::sequence(ns)
            } else {
                NFA::choice(ns)
            }
        }
        "digit" => NFA::digit(),
        "number" => NFA::number(),
        // tags_map: "shift" adds t to every tag; "const" maps every tag to t (the decoder's
        // `tags_map(|_| MatcherTag::Matcher(index))`, which collapses tags)
        "tagmap" => {
            let k = e["t"].as_u64().unwrap_or(0) as u32;
            if e["mode"].as_str() == Some("const") {
                build(&e["e"]).tags_map(move |_| k)
            } else {
                build(&e["e"]).tags_map(move |t| t + k)
            }
        }
        "plus" => build(&e["e"]).some(),
        "opt" => build(&e["e"]).optional(),
        "many" => build(&e["e"]).many(),
        "tag" => build(&e["e"]).tag_stop_state(e["t"].as_u64().unwrap_or(0) as u32),
        _ => NFA::nothing(),
    }
}

fn coq_regex(e: &Value) -> String {
    coq_regex_map(e, TagFn::Shift(0))
}

#[derive(Clone, Copy)]
enum TagFn {
    Shift(u64),
    Const(u64),
}

impl TagFn {
    fn apply(self, t: u64) -> u64 {
        match self {
            TagFn::Shift(k) => t + k,
            TagFn::Const(k) => k,
        }
    }
    /// self after the inner map g (tags_map composes: the outer map sees the inner one's results)
    fn after(self, g: TagFn) -> TagFn {
        match (self, g) {
            (TagFn::Const(k), _) => TagFn::Const(k),
            (TagFn::Shift(a), TagFn::Shift(b)) => TagFn::Shift(a + b),
            (TagFn::Shift(a), TagFn::Const(b)) => TagFn::Const(a + b),
        }
    }
}

/// the expression with the tag map applied to every tag (what tags_map does to the automaton)
fn coq_regex_map(e: &Value, f: TagFn) -> String {
    let coq_regex = |e: &Value| coq_regex_map(e, f);
    match kind(e) {
        "digit" => format!("(Pred {})", cbytes(b"0123456789")),
        "number" => format!("(Plus (Pred {}))", cbytes(b"0123456789")),
        "tagmap" => {
            let k = e["t"].as_u64().unwrap_or(0);
            let g = if e["mode"].as_str() == Some("const") { TagFn::Const(k) } else { TagFn::Shift(k) };
            coq_regex_map(&e["e"], f.after(g))
        }
        "pred" => format!("(Pred {})", cbytes(&vbytes(&e["set"]))),
        "lit" => format!("(Lit {})", cbytes(&vbytes(&e["bs"]))),
        "empty" => "Empty".into(),
        "seq" => format!("(Seq {})", clist(subs(e).into_iter().map(coq_regex))),
        "choice" => format!("(Choice {})", clist(subs(e).into_iter().map(coq_regex))),
        "plus" => format!("(Plus {})", coq_regex(&e["e"])),
        "opt" => format!("(Opt {})", coq_regex(&e["e"])),
        "many" => format!("(Many {})", coq_regex(&e["e"])),
        "tag" => format!("(Tag {} {})", f.apply(e["t"].as_u64().unwrap_or(0)), coq_regex(&e["e"])),
        _ => "Nothing".into(),
    }
}

fn alphabet(e: &Value, out: &mut BTreeSet<u8>) {
    match kind(e) {
        "pred" => out.extend(vbytes(&e["set"])),
        "lit" => out.extend(vbytes(&e["bs"])),
        "digit" | "number" => out.extend(b"0123456789".iter().copied()),
        _ => {
            for s in subs(e) {
                alphabet(s, out)
            }
        }
    }
}

fn depth(e: &Value) -> usize {
    1 + subs(e).into_iter().map(depth).max().unwrap_or(0)
}

/// first / last position of the expression can be a loop
fn loop_edge(e: &Value, first: bool) -> bool {
    match kind(e) {
        "plus" | "many" | "number" => true,
        "opt" | "tag" | "tagmap" => loop_edge(&e["e"], first),
        "choice" => subs(e).into_iter().any(|s| loop_edge(s, first)),
        "seq" => {
            let ss = subs(e);
            let pick = if first { ss.first() } else { ss.last() };
            pick.map(|s| loop_edge(s, first)).unwrap_or(false)
        }
        _ => false,
    }
}

/// the class named by the quantifier: optional / one-or-more applied to an operand
/// that begins or ends with a loop
fn named_class(e: &Value) -> bool {
    let here = matches!(kind(e), "opt" | "plus") && (loop_edge(&e["e"], true) || loop_edge(&e["e"], false));
    here || subs(e).into_iter().any(named_class)
}

fn has_kind(e: &Value, k: &str) -> bool {
    kind(e) == k || subs(e).into_iter().any(|s| has_kind(s, k))
}

// ---------------------------------------------------------------- DOT parsing

pub struct St<T = u64> {
    pub edges: Vec<(u8, usize)>,
    pub eps: Vec<usize>,
    pub tag: Option<T>,
}

fn unescape(s: &str) -> Option<u8> {
    let cs: Vec<char> = s.chars().collect();
    match cs.as_slice() {
        [c] => u8::try_from(*c as u32).ok(),
        ['\\', 't'] => Some(b'\t'),
        ['\\', 'r'] => Some(b'\r'),
        ['\\', 'n'] => Some(b'\n'),
        ['\\', '\''] => Some(b'\''),
        ['\\', '"'] => Some(b'"'),
        ['\\', '\\'] => Some(b'\\'),
        ['\\', 'u', '{', hex @ .., '}'] => {
            let h: String = hex.iter().collect();
            u32::from_str_radix(&h, 16).ok().and_then(|v| u8::try_from(v).ok())
        }
        _ => None,
    }
}

/// (stop, states with dense ids in order) parsed from `format!("{:?}", nfa)`, numeric tags
fn parse_dot(dot: &str) -> Option<(usize, Vec<St>)> {
    let (stop, states) = parse_dot_text(dot)?;
    let mut out = vec![];
    for s in states {
        let tag = match s.tag {
            None => None,
            Some(t) => Some(t.parse::<u64>().ok()?),
        };
        out.push(St { edges: s.edges, eps: s.eps, tag });
    }
    Some((stop, out))
}

/// the same with the tag as the text between the braces of the label
pub fn parse_dot_text(dot: &str) -> Option<(usize, Vec<St<String>>)> {
    let mut stop = None;
    let mut states: Vec<St<String>> = vec![];
    for line in dot.lines() {
        let l = line.trim();
        if l.is_empty() || l.starts_with("digraph") || l.starts_with("rankdir") || l == "}" {
            continue;
        }
        if let Some(pos) = l.find(" -> ") {
            let from: usize = l[..pos].parse().ok()?;
            let rest = &l[pos + 4..];
            let sp = rest.find(' ')?;
            let to: usize = rest[..sp].parse().ok()?;
            let attr = &rest[sp + 1..];
            if from + 1 != states.len() {
                return None; // edges are printed right after their node
            }
            let st = states.last_mut()?;
            if attr == "[color=red]" {
                st.eps.push(to);
            } else {
                let body = attr.strip_prefix("[label=\"")?.strip_suffix("\"]")?;
                st.edges.push((unescape(body)?, to));
            }
        } else {
            let sp = l.find(' ')?;
            let id: usize = l[..sp].parse().ok()?;
            if id != states.len() {
                return None; // ids are dense and increasing
            }
            let attr = &l[sp + 1..];
            if attr.starts_with("[shape=doublecircle") {
                if stop.is_some() {
                    return None;
                }
                stop = Some(id);
            } else if !attr.starts_with("[shape=circle") {
                return None;
            }
            let tag = match attr.find(",label=\"") {
                None => None,
                Some(p) => {
                    let body = attr[p + 8..].strip_suffix("\"]")?;
                    let body = body.strip_prefix(&format!("{} {{", id))?.strip_suffix('}')?;
                    Some(body.to_string())
                }
            };
            states.push(St { edges: vec![], eps: vec![], tag });
        }
    }
    Some((stop?, states))
}

fn coq_nfa(start: usize, stop: usize, states: &[St]) -> String {
    let sts = states.iter().map(|s| {
        format!(
            "mkst {} {} {}",
            clist(s.edges.iter().map(|(c, q)| format!("({},{})", c, cnat(*q)))),
            clist(s.eps.iter().map(|q| cnat(*q))),
            match s.tag {
                None => "None".to_string(),
                Some(t) => format!("(Some {})", t),
            }
        )
    });
    format!("(mknfa {} {} {})", cnat(start), cnat(stop), clist(sts))
}

// ---------------------------------------------------------------- DFA observation

fn coq_tags(tags: &BTreeSet<Tag>) -> String {
    clist(tags.iter().map(|t| t.to_string()))
}

/// breadth-first canonical enumeration through the public API
fn coq_dfa(dfa: &DFA<Tag>) -> Option<(String, usize)> {
    let mut index: BTreeMap<DFAState, usize> = BTreeMap::new();
    let mut order: Vec<DFAState> = vec![];
    let mut queue = VecDeque::new();
    index.insert(dfa.start(), 0);
    order.push(dfa.start());
    queue.push_back(dfa.start());
    let mut rows: Vec<Vec<(u8, usize)>> = vec![];
    while let Some(q) = queue.pop_front() {
        let mut row = vec![];
        for c in 0..=255u8 {
            if let Some(t) = dfa.transition(q, c) {
                let k = match index.get(&t) {
                    Some(k) => *k,
                    None => {
                        let k = order.len();
                        index.insert(t, k);
                        order.push(t);
                        queue.push_back(t);
                        k
                    }
                };
                row.push((c, k));
            }
        }
        rows.push(row);
        if order.len() > 3000 {
            return None;
        }
    }
    let sts = order.iter().zip(rows.iter()).map(|(q, row)| {
        let i = dfa.info(*q);
        format!(
            "CS {} {} {} {}",
            cbool(i.is_accepting),
            cbool(i.is_terminal),
            coq_tags(&i.tags),
            clist(row.iter().map(|(c, k)| format!("({},{})", c, cnat(*k))))
        )
    });
    Some((clist(sts), order.len()))
}

struct Walk<'a> {
    dfa: &'a DFA<Tag>,
    sigma: Vec<u8>,
    consistent: bool,
    nodes: usize,
    live: usize,
    accepted: Vec<Vec<u8>>,
    rejected: usize,
}

impl<'a> Walk<'a> {
    /// what the public API says about the string: transition_many(start, s), info of that state,
    /// matches(s); `stepped` (the state reached by single transitions) is only compared
    fn node(&mut self, stepped: Option<DFAState>, prefix: &[u8]) -> (Option<(bool, bool, String)>, bool) {
        let many = self.dfa.transition_many(self.dfa.start(), prefix.iter().copied());
        if many != stepped {
            self.consistent = false;
        }
        let m = self.dfa.matches(prefix.iter().copied());
        match many {
            None => (None, m),
            Some(q) => {
                let i = self.dfa.info(q);
                (Some((i.is_accepting, i.is_terminal, coq_tags(&i.tags))), m)
            }
        }
    }

    fn obs(&mut self, state: Option<DFAState>, prefix: &mut Vec<u8>, depth: usize) -> String {
        self.nodes += 1;
        match self.node(state, prefix) {
            (None, m) => {
                self.rejected += 1;
                format!("(Dead {})", cbool(m))
            }
            (Some((acc, term, tags)), m) => {
                self.live += 1;
                if m {
                    if self.accepted.len() < 12 {
                        self.accepted.push(prefix.clone());
                    }
                } else {
                    self.rejected += 1;
                }
                let kids: Vec<String> = match state {
                    Some(q) if depth > 0 => {
                        let sigma = self.sigma.clone();
                        sigma
                            .iter()
                            .map(|c| {
                                prefix.push(*c);
                                let k = self.obs(self.dfa.transition(q, *c), prefix, depth - 1);
                                prefix.pop();
                                k
                            })
                            .collect()
                    }
                    _ => vec![],
                };
                format!("(Live {} {} {} {} {})", cbool(acc), cbool(term), cbool(m), tags, clist(kids))
            }
        }
    }

    fn probe(&mut self, s: &[u8]) -> String {
        let mut state = Some(self.dfa.start());
        for c in s {
            state = state.and_then(|q| self.dfa.transition(q, *c));
        }
        let o = match self.node(state, s) {
            (None, m) => format!("(Dead {})", cbool(m)),
            (Some((acc, term, tags)), m) => {
                if m && self.accepted.len() < 16 {
                    self.accepted.push(s.to_vec());
                }
                format!("(Live {} {} {} {} [])", cbool(acc), cbool(term), cbool(m), tags)
            }
        };
        format!("({}, {})", cbytes(s), o)
    }
}

/// the shortest string (smallest bytes first) leading to every state of the DFA
fn shortest_per_state(dfa: &DFA<Tag>, limit: usize) -> Vec<Vec<u8>> {
    let mut seen: BTreeMap<DFAState, Vec<u8>> = BTreeMap::new();
    let mut queue = VecDeque::new();
    seen.insert(dfa.start(), vec![]);
    queue.push_back(dfa.start());
    let mut out = vec![];
    while let Some(q) = queue.pop_front() {
        let s = seen[&q].clone();
        out.push(s.clone());
        if out.len() >= limit {
            break;
        }
        for c in 0..=255u8 {
            if let Some(t) = dfa.transition(q, c) {
                if !seen.contains_key(&t) {
                    let mut s2 = s.clone();
                    s2.push(c);
                    seen.insert(t, s2);
                    queue.push_back(t);
                }
            }
        }
    }
    out
}

fn str_hash(s: &str) -> u64 {
    let mut h: u64 = 0xcbf29ce484222325;
    for b in s.bytes() {
        h ^= b as u64;
        h = h.wrapping_mul(0x100000001b3);
    }
    h
}

/// random walks that prefer live transitions (reach deep accepting states)
fn guided(dfa: &DFA<Tag>, rng: &mut Rng, sigma: &[u8], max: usize) -> Vec<u8> {
    let mut s = vec![];
    let mut q = dfa.start();
    let steps = 1 + rng.below(max as u64) as usize;
    for _ in 0..steps {
        let live: Vec<u8> = (0..=255u8).filter(|c| dfa.transition(q, *c).is_some()).collect();
        let c = if live.is_empty() || rng.chance(1, 8) {
            if sigma.is_empty() {
                rng.byte()
            } else {
                *rng.pick(sigma)
            }
        } else {
            // prefer symbols of sigma among the live ones, so that predicates with many bytes stay readable
            let pref: Vec<u8> = live.iter().copied().filter(|c| sigma.contains(c)).collect();
            if !pref.is_empty() && rng.chance(3, 4) {
                *rng.pick(&pref)
            } else {
                *rng.pick(&live)
            }
        };
        s.push(c);
        match dfa.transition(q, c) {
            Some(t) => q = t,
            None => break,
        }
    }
    s
}

struct Observed {
    coq: String,
    nfa_size: usize,
    dfa_size: usize,
    nodes: usize,
    live: usize,
    accepted: Vec<Vec<u8>>,
    rejected: usize,
}

enum Obs {
    Built(Observed),
    TooBig,
}

fn observe(e: &Value, sigma: &[u8], len: usize, given: &[Vec<u8>], seed: u64) -> Obs {
    let nfa = build(e);
    let dot = format!("{:?}", nfa);
    let (start, stop_hook) = nfa.verif_ends();
    // an unparsable graph or ids that are not 0..size-1 in order is a disagreement with the
    // model (agree = false), not a crash: the language may still be right
    let (stop, states) = match parse_dot(&dot) {
        Some(x) if x.1.len() == nfa.size() && x.0 == stop_hook => x,
        _ => (0, vec![]),
    };
    let dfa = nfa.compile();
    let (cd, dfa_size) = match coq_dfa(&dfa) {
        Some(x) => x,
        None => return Obs::TooBig,
    };
    // the deepest tree (at most `len`) within the node budget
    let mut depth = len;
    let (mut w, tree) = loop {
        let mut w = Walk { dfa: &dfa, sigma: sigma.to_vec(), consistent: true, nodes: 0, live: 0, accepted: vec![], rejected: 0 };
        let tree = w.obs(Some(dfa.start()), &mut vec![], depth);
        if w.nodes <= 700 || depth <= 1 {
            break (w, tree);
        }
        depth -= 1;
    };
    let mut rng = Rng::new(seed);
    let mut probes: Vec<String> = given.iter().map(|s| w.probe(s)).collect();
    // every state of the DFA is visited: the shortest string to it, and that string extended by
    // one symbol of sigma
    for s in shortest_per_state(&dfa, 48) {
        // states the tree cannot reach: deeper than it, or behind a byte outside sigma
        if s.len() > depth || s.iter().any(|c| !sigma.contains(c)) {
            probes.push(w.probe(&s));
            if !sigma.is_empty() {
                let mut s2 = s.clone();
                s2.push(*rng.pick(sigma));
                probes.push(w.probe(&s2));
            }
        }
    }
    for _ in 0..8 {
        let s = guided(&dfa, &mut rng, sigma, 14);
        probes.push(w.probe(&s));
    }
    // every state of the table is reachable from the start state (compared with the model only)
    let size_ok = dfa.size() == dfa_size;
    let coq = format!(
        "Expr (Built {} {} {} {} {} {} {} {})",
        coq_regex(e),
        cbytes(sigma),
        coq_nfa(start, stop, &states),
        cd,
        tree,
        clist(probes),
        cbool(w.consistent),
        cbool(size_ok)
    );
    Obs::Built(Observed { coq, nfa_size: states.len(), dfa_size, nodes: w.nodes, live: w.live, accepted: w.accepted, rejected: w.rejected })
}

fn choose_sigma(e: &Value, seed: u64) -> Vec<u8> {
    let mut al = BTreeSet::new();
    alphabet(e, &mut al);
    let all: Vec<u8> = al.iter().copied().collect();
    let mut sigma: Vec<u8> = if all.len() <= 4 {
        all.clone()
    } else {
        // the extreme bytes of the alphabet, then a few others
        let mut rng = Rng::new(seed ^ 0x5151);
        let mut pick = BTreeSet::new();
        pick.insert(all[0]);
        pick.insert(all[all.len() - 1]);
        while pick.len() < 4 {
            pick.insert(*rng.pick(&all));
        }
        pick.into_iter().collect()
    };
    // one byte outside the alphabet
    if let Some(o) = [b'z', b'!', 0u8, 255u8, b'y', b'x'].iter().find(|c| !al.contains(c)) {
        sigma.push(*o);
    }
    sigma
}

fn choose_len(_k: usize) -> usize {
    // `observe` reduces the depth until the tree fits the node budget
    6
}

// ---------------------------------------------------------------- production automata

const PROD: [&str; 3] = ["event", "command", "utf8"];

struct ProdDfa {
    start: usize,
    delta: Vec<BTreeMap<u8, usize>>,
    /// (accepting, tags as (is_item, index) in the numbering of Gen/ProdDFA.v / ProdNFA.v)
    infos: Vec<(bool, Vec<(bool, usize)>)>,
}

fn prod_dfa(which: &str) -> Option<ProdDfa> {
    use crate::registry::tool_dfa::{tag_of, Items};
    let d = surf_n_term::decoder::verif::dump_dfa(which)?;
    let mut delta: Vec<BTreeMap<u8, usize>> = vec![BTreeMap::new(); d.size];
    for (from, sym, to) in d.transitions.iter() {
        delta[*from].insert(*sym, *to);
    }
    let mut items = Items::new();
    let infos = d
        .infos
        .iter()
        .map(|(acc, _, tags)| (*acc, tags.iter().map(|t| tag_of(&mut items, t)).collect()))
        .collect();
    Some(ProdDfa { start: d.start, delta, infos })
}

/// a byte string stepped through a production DFA of the crate (dump of the real table)
fn run_prod(input: &Value) -> Case {
    let which = input["automaton"].as_str().unwrap_or("event").to_string();
    let bytes = vbytes(&input["bytes"]);
    let idx = PROD.iter().position(|w| *w == which).unwrap_or(0);
    let w2 = which.clone();
    let b2 = bytes.clone();
    let r = catch(move || {
        let d = prod_dfa(&w2)?;
        let mut q = Some(d.start);
        for c in b2.iter() {
            q = q.and_then(|k| d.delta[k].get(c).copied());
        }
        Some(q.map(|k| d.infos[k].clone()))
    })
    .flatten();
    let mut j = input.clone();
    let tags = vec![format!("production={}", which)];
    match r {
        None => {
            j["impl"] = json!("panic");
            Case { coq: "Expr (Crashed Nothing)".into(), json: j, tags, nontrivial: true }
        }
        Some(None) => {
            j["impl"] = json!({"dead": true});
            Case { coq: format!("Prod {} {} true false []", idx, cbytes(&bytes)), json: j, tags, nontrivial: false }
        }
        Some(Some((acc, ts))) => {
            j["impl"] = json!({"dead": false, "accepting": acc, "tags": ts.iter().map(|(i, k)| json!([i, k])).collect::<Vec<_>>()});
            let ct = clist(ts.iter().map(|(i, k)| format!("({}, {})", cbool(*i), k)));
            Case {
                coq: format!("Prod {} {} false {} {}", idx, cbytes(&bytes), cbool(acc), ct),
                json: j,
                tags,
                nontrivial: !bytes.is_empty(),
            }
        }
    }
}

/// random walks over a production DFA (mostly along live transitions)
fn prod_probes(rng: &mut Rng, n: usize) -> Vec<Value> {
    let mut v = vec![];
    for which in PROD {
        let d = match catch(move || prod_dfa(which)).flatten() {
            Some(d) => d,
            None => continue,
        };
        let count = if which == "event" { n } else { n / 4 + 2 };
        for _ in 0..count {
            let mut s: Vec<u8> = vec![];
            let mut q = d.start;
            let steps = 1 + rng.below(16) as usize;
            for _ in 0..steps {
                let live: Vec<u8> = d.delta[q].keys().copied().collect();
                let c = if live.is_empty() || rng.chance(1, 10) { rng.byte() } else { *rng.pick(&live) };
                s.push(c);
                match d.delta[q].get(&c) {
                    Some(t) => q = *t,
                    None => break,
                }
            }
            v.push(json!({"automaton": which, "bytes": jbytes(&s)}));
        }
    }
    v
}

pub fn run(input: &Value) -> Case {
    if input.get("automaton").is_some() {
        return run_prod(input);
    }
    let e = input["e"].clone();
    let key = e.to_string();
    let seed = str_hash(&key);
    let sigma = match input.get("sigma") {
        Some(v) if v.is_array() => vbytes(v),
        _ => choose_sigma(&e, seed),
    };
    let len = input.get("len").and_then(|v| v.as_u64()).map(|v| v as usize).unwrap_or_else(|| choose_len(sigma.len()));
    let given: Vec<Vec<u8>> = input.get("probes").and_then(|v| v.as_array()).map(|a| a.iter().map(vbytes).collect()).unwrap_or_default();
    let (e2, s2, g2) = (e.clone(), sigma.clone(), given.clone());
    let r = catch(move || observe(&e2, &s2, len, &g2, seed));
    let mut j = input.clone();
    let named = named_class(&e);
    let mut tags = vec![
        format!("depth={}", depth(&e).min(7)),
        format!("named_class={}", named),
        format!("tagged={}", has_kind(&e, "tag")),
    ];
    for k in ["opt", "plus", "many", "seq", "choice", "pred"] {
        if has_kind(&e, k) {
            tags.push(format!("has={}", k));
        }
    }
    match r {
        None => {
            j["impl"] = json!("panic");
            tags.push("res=panic".into());
            Case { coq: format!("Expr (Crashed {})", coq_regex(&e)), json: j, tags, nontrivial: true }
        }
        Some(Obs::TooBig) => {
            j["impl"] = json!("skipped: more than 3000 DFA states");
            tags.push("res=skipped".into());
            Case { coq: format!("Expr (Skipped {})", coq_regex(&e)), json: j, tags, nontrivial: false }
        }
        Some(Obs::Built(o)) => {
            j["impl"] = json!({
                "nfa_states": o.nfa_size, "dfa_states": o.dfa_size, "strings": o.nodes, "live": o.live,
                "accepted": o.accepted.iter().map(|s| jbytes(s)).collect::<Vec<_>>(),
            });
            tags.push(format!("dfa_states={}", if o.dfa_size < 4 { "1-3" } else if o.dfa_size < 10 { "4-9" } else { "10+" }));
            let loops = has_kind(&e, "opt") || has_kind(&e, "plus") || has_kind(&e, "many");
            let nontrivial = loops && !o.accepted.is_empty() && o.rejected > 0;
            Case { coq: o.coq, json: j, tags, nontrivial }
        }
    }
}

// ---------------------------------------------------------------- generators

fn rand_set(rng: &mut Rng, al: &[u8]) -> Vec<u8> {
    if rng.chance(1, 12) {
        // a big predicate: everything but one or two bytes (like `|b| b != ESC`)
        let ex = [*rng.pick(al), 0x1b];
        return (0..=255u8).filter(|b| !ex.contains(b)).collect();
    }
    if rng.chance(1, 10) {
        return (b'0'..=b'9').collect();
    }
    let n = 1 + rng.below(3) as usize;
    let mut s = BTreeSet::new();
    for _ in 0..n {
        s.insert(*rng.pick(al));
    }
    s.into_iter().collect()
}

/// a literal when the bytes are a str, otherwise the same language as a sequence of one-byte predicates
fn lit_safe(bs: &[u8]) -> Value {
    if std::str::from_utf8(bs).is_ok() {
        lit(bs)
    } else {
        nary("seq", bs.iter().map(|b| pred(&[*b])).collect())
    }
}

/// literals that are not a str become sequences of one-byte predicates (same language)
fn relit(e: &Value) -> Value {
    match kind(e) {
        "lit" => lit_safe(&vbytes(&e["bs"])),
        "seq" | "choice" => nary(kind(e), subs(e).into_iter().map(relit).collect()),
        "plus" | "opt" | "many" => un(kind(e), relit(&e["e"])),
        _ => e.clone(),
    }
}

fn rand_leaf(rng: &mut Rng, al: &[u8]) -> Value {
    match rng.below(12) {
        0 => {
            if rng.chance(1, 3) {
                mk(if rng.chance(1, 2) { "digit" } else { "number" })
            } else {
                mk("empty")
            }
        }
        1 => mk("nothing"),
        2 | 3 | 4 => pred(&rand_set(rng, al)),
        5 => {
            if rng.chance(1, 2) {
                lit(&[])
            } else {
                // a literal with multi-byte characters (From<&str> walks bytes, not chars)
                lit(rng.pick(&["\u{e9}", "a\u{e9}", "\u{2192}", "\u{7f}\u{80}"]).as_bytes())
            }
        }
        6 | 7 => {
            let n = 2 + rng.below(2) as usize;
            let bs: Vec<u8> = (0..n).map(|_| *rng.pick(al)).collect();
            lit_safe(&bs)
        }
        _ => lit_safe(&[*rng.pick(al)]),
    }
}

fn rand_expr(rng: &mut Rng, al: &[u8], d: usize, tags: bool) -> Value {
    if d == 0 || rng.chance(1, 6) {
        return rand_leaf(rng, al);
    }
    match rng.below(if tags { 13 } else { 12 }) {
        0 | 1 | 2 => {
            let n = match rng.below(10) {
                0 => 0,
                1 => 1,
                2 | 3 => 3,
                _ => 2,
            };
            nary("seq", (0..n).map(|_| rand_expr(rng, al, d - 1, tags)).collect())
        }
        3 | 4 => {
            let n = match rng.below(10) {
                0 => 0,
                1 => 1,
                2 | 3 => 3,
                _ => 2,
            };
            nary("choice", (0..n).map(|_| rand_expr(rng, al, d - 1, tags)).collect())
        }
        5 | 6 => un("plus", rand_expr(rng, al, d - 1, tags)),
        7 | 8 => un("opt", rand_expr(rng, al, d - 1, tags)),
        9 | 10 => un("many", rand_expr(rng, al, d - 1, tags)),
        11 => named_shape(rng, al, d - 1, tags),
        _ => tag(rng.below(5) as u32, rand_expr(rng, al, d - 1, tags)),
    }
}

/// optional / one-or-more over an operand that begins or ends with a loop
fn named_shape(rng: &mut Rng, al: &[u8], d: usize, tags: bool) -> Value {
    let d1 = d.saturating_sub(1);
    let lp = |rng: &mut Rng| {
        let inner = rand_expr(rng, al, d1.min(1), false);
        un(if rng.chance(1, 2) { "plus" } else { "many" }, inner)
    };
    let x = rand_expr(rng, al, d1, tags);
    let body = match rng.below(5) {
        0 => nary("seq", vec![lp(rng), x]),
        1 => nary("seq", vec![x, lp(rng)]),
        2 => nary("seq", vec![lp(rng), x, lp(rng)]),
        3 => nary("choice", vec![nary("seq", vec![lp(rng), x]), rand_leaf(rng, al)]),
        _ => lp(rng),
    };
    un(if rng.chance(2, 3) { "opt" } else { "plus" }, body)
}

/// all expressions with exactly `size` nodes over the leaves {a, b, empty, nothing}
fn enumerate(size: usize, memo: &mut BTreeMap<usize, Vec<Value>>) -> Vec<Value> {
    if let Some(v) = memo.get(&size) {
        return v.clone();
    }
    let mut out = vec![];
    if size == 1 {
        out = vec![lit(b"a"), lit(b"b"), mk("empty"), mk("nothing")];
    } else if size > 1 {
        for e in enumerate(size - 1, memo) {
            for k in ["plus", "opt", "many"] {
                out.push(un(k, e.clone()));
            }
        }
        for l in 1..size - 1 {
            let r = size - 1 - l;
            let ls = enumerate(l, memo);
            let rs = enumerate(r, memo);
            for a in &ls {
                for b in &rs {
                    for k in ["seq", "choice"] {
                        out.push(nary(k, vec![a.clone(), b.clone()]));
                    }
                }
            }
        }
    }
    memo.insert(size, out.clone());
    out
}

pub fn generate(rng: &mut Rng, n: usize, tier: &str) -> Vec<Value> {
    let thorough = tier == "thorough";
    let mut v = vec![];
    // exhaustive small part
    let mut memo = BTreeMap::new();
    let max_size = if thorough { 6 } else { 5 };
    for size in 1..=max_size {
        for e in enumerate(size, &mut memo) {
            // size 6 (23k expressions) is sampled; so is size 5 in the quick tier (wall time under load)
            if size == 6 && str_hash(&e.to_string()) % 4 != 0 {
                continue;
            }
            if size == 5 && !thorough && str_hash(&e.to_string()) % 2 != 0 {
                continue;
            }
            v.push(json!({"e": e, "sigma": [97, 98, 122], "len": 6}));
        }
    }
    // small expressions over predicates and tags (not in the enumeration above)
    {
        let leaves = [pred(b"ab"), pred(b"b"), lit(b"a"), lit(b"ab"), mk("empty")];
        let mut small: Vec<Value> = leaves.to_vec();
        for a in leaves.iter() {
            for k in ["plus", "opt", "many"] {
                small.push(un(k, a.clone()));
            }
            for b in leaves.iter() {
                small.push(nary("seq", vec![a.clone(), b.clone()]));
            }
        }
        let n_small = small.len();
        for i in 0..n_small {
            for j in 0..n_small {
                if (i * 31 + j * 17) % (if thorough { 3 } else { 11 }) != 0 {
                    continue;
                }
                let (a, b) = (small[i].clone(), small[j].clone());
                v.push(json!({"e": nary("choice", vec![tag(1, a.clone()), tag(2, b.clone())]), "sigma": [97, 98, 122]}));
                v.push(json!({"e": un("opt", nary("seq", vec![a, b])), "sigma": [97, 98, 122]}));
            }
        }
    }
    // opt / plus over every expression of size <= 3 wrapped in a context that exposes a wrong loop
    for size in 1..=3 {
        for e in enumerate(size, &mut memo) {
            if thorough || str_hash(&e.to_string()) % 3 == 0 {
                v.push(json!({"e": nary("seq", vec![lit(b"b"), un("opt", nary("seq", vec![un("plus", lit(b"a")), e.clone()])), lit(b"a")])}));
                v.push(json!({"e": un("opt", nary("seq", vec![e.clone(), un("many", lit(b"b"))]))}));
            }
        }
    }
    // tags: overriding, tags on operands edited in place, nested tagged tables
    for e in [
        tag(1, tag(2, lit(b"ab"))),
        tag(1, un("plus", tag(2, lit(b"a")))),
        nary("choice", vec![tag(1, un("plus", lit(b"a"))), tag(2, un("opt", lit(b"a"))), tag(3, un("many", lit(b"ab")))]),
        nary("choice", vec![tag(1, lit(b"abc")), tag(2, lit(b"abd")), tag(1, lit(b"ab")), nary("choice", vec![tag(4, lit(b"a")), tag(5, pred(b"ab"))])]),
        nary("seq", vec![nary("choice", vec![tag(1, lit(b"a")), tag(2, lit(b"b"))]), lit(b"c")]),
        nary("choice", vec![tag(7, nary("seq", vec![lit(b"a"), un("opt", nary("seq", vec![un("plus", lit(b"b")), lit(b"a")]))])), tag(8, un("many", pred(b"ab")))]),
        pred(&(0..=255u8).collect::<Vec<u8>>()),
        pred(&[0, 255]),
        un("many", pred(&(0..=255u8).filter(|b| *b != 0x1b).collect::<Vec<u8>>())),
    ] {
        v.push(json!({ "e": e }));
    }
    // large automata (hundreds of NFA states, like the decoder's key table and parameter lists)
    {
        let keys: Vec<Value> = (0..48u32)
            .map(|i| tag(i, lit(format!("\x1b[{};{}~", i * 7 % 40, i).as_bytes())))
            .collect();
        v.push(json!({"e": nary("choice", keys), "sigma": [27, 91, 49, 59, 126], "len": 3,
                      "probes": [b"\x1b[7;1~".to_vec(), b"\x1b[14;2~".to_vec(), b"\x1b[14;2".to_vec(), b"\x1b[9;47~".to_vec()]}));
        let opts: Vec<Value> = (0..40u32)
            .map(|i| {
                let c = [b'a' + (i % 3) as u8];
                if i % 2 == 0 { un("opt", lit(&c)) } else { un("many", lit(&c)) }
            })
            .collect();
        v.push(json!({"e": nary("seq", opts), "sigma": [97, 98, 99], "len": 3}));
        let params = nary("seq", vec![
            lit(b"\x1b["),
            un("plus", nary("seq", vec![un("many", pred(b"0123456789:")), un("opt", lit(b";"))])),
            un("many", nary("choice", (0..30u8).map(|i| lit(&[b'A' + i % 26, b'a' + i % 7])).collect())),
            lit(b"m"),
        ]);
        v.push(json!({"e": params, "sigma": [27, 91, 48, 59, 109], "len": 4,
                      "probes": [b"\x1b[0;38:5:1;mAaBbm".to_vec(), b"\x1b[m".to_vec(), b"\x1b[;;m".to_vec(), b"\x1b[1Aam".to_vec()]}));
    }
    // the exhaustive small expressions once more over bytes that are not letters (ESC, 0xff)
    for size in 1..=3 {
        for e in enumerate(size, &mut memo) {
            let txt = e.to_string().replace("[97]", "[27]").replace("[98]", "[255]");
            if let Ok(e2) = serde_json::from_str::<Value>(&txt) {
                // literals must be str: 0xff alone is not, use one-byte predicates there
                v.push(json!({"e": relit(&e2), "sigma": [27, 255, 0], "len": 6}));
            }
        }
    }
    // the production automata themselves: byte strings walked through the real DFAs
    v.extend(prod_probes(rng, if thorough { 400 } else { 80 }));
    let fixed = v.len();
    let als: [&[u8]; 8] = [b"ab", b"abc", b"a", b"ab;0", b"\x1b[0;", &[0, 255, 128], &[0xc3, 0xa9, b'a'], &[0x1b, 0x7f, 0x80, 0xff]];
    while v.len() < fixed + n {
        let al = *rng.pick(&als);
        let d = 2 + rng.below(4) as usize; // depth <= 5 below the root
        let e = match rng.below(10) {
            // tagged alternatives of a top-level choice (the shape of the decoder's automata)
            0 | 1 | 2 => {
                let k = 2 + rng.below(3) as usize;
                let mut alts = vec![];
                for i in 0..k {
                    let a = rand_expr(rng, al, d - 1, false);
                    if rng.chance(1, 6) {
                        // nested tagged table (like the key table beside the matchers)
                        let t1 = tag(10 + i as u32, rand_expr(rng, al, 1, false));
                        let t2 = tag(20 + i as u32, rand_expr(rng, al, 2, false));
                        alts.push(nary("choice", vec![t1, t2]));
                    } else if rng.chance(1, 8) {
                        alts.push(a); // an untagged alternative
                    } else if rng.chance(1, 4) {
                        // the decoder's shape: .tags_map(|_| Matcher(i)).tag_stop_state(Matcher(i)),
                        // here over an operand that may itself carry tags (they collapse to i)
                        let inner = if rng.chance(1, 2) { rand_expr(rng, al, d - 1, true) } else { a };
                        alts.push(tag(i as u32, json!({"k": "tagmap", "mode": "const", "t": i, "e": inner})));
                    } else {
                        alts.push(tag(if rng.chance(1, 5) { 0 } else { i as u32 }, a));
                    }
                }
                let c = nary("choice", alts);
                if rng.chance(1, 4) {
                    // the decoder retags every matcher with tags_map
                    json!({"k": "tagmap", "t": 1 + rng.below(3), "e": c})
                } else {
                    c
                }
            }
            3 => rand_expr(rng, al, d, true), // tags anywhere
            4 => named_shape(rng, al, d, false),
            5 => named_shape(rng, al, d, true), // tags inside the class named by the quantifier
            _ => rand_expr(rng, al, d, false),
        };
        v.push(json!({ "e": e }));
    }
    v
}

pub fn batch(inputs: &[Value]) -> Batch {
    Batch {
        prop: "C15",
        coq_import: "Corr.C15All",
        case_type: "c15_any",
        report_fn: "c15_any_report",
        rule: "expression with a loop or an optional part whose compiled automaton both accepts and rejects enumerated strings; distinct by expression",
        cases: inputs.iter().map(run).collect(),
        preamble: String::new(),
    }
}
