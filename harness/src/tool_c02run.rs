// requires: c02
//! `snt_harness tool c02run`: child process of the C02 harness (see c02.rs): runs cases read from
//! stdin on the real decoders so that an abort or a hang only kills this process.
pub fn main(_args: &[String]) -> i32 {
    crate::registry::c02::child_main()
}
