//! `snt_harness tool c20sweep <tables.json> <stride> [threads]`: sweep of the colour space in exact integer
//! arithmetic (i128), independent of Coq.  For every visited opaque colour c the real encoder is asked for
//! FaceModify { fg: c, bg: rot(c), underline_color: rot(rot(c)) } (rot (r,g,b) = (g,b,r), so with stride 1 each
//! role sees all 2^24 colours) under each ColorDepth, and every role's answer is compared with the exact
//! optimum for that role's colour: EightBit against the xterm palette placed by the library's own
//! sRGB->linear conversion (tolerance 1e-6 in distance) and against the exact model over the typed tables;
//! Gray against the nearest of the four levels by luma (no underline colour may be emitted); TrueColor
//! channel by channel.  A panic of the encoder is a violation.  tables.json = the numbers of
//! Gen/TabColor.v as extracted by the translator.  Prints one JSON object.
use serde_json::{json, Value};
use surf_n_term::encoder::{ColorDepth, Encoder, TTYEncoder};
use surf_n_term::{FaceModify, TerminalCaps, TerminalCommand, RGBA};

fn ints(v: &Value) -> Vec<i128> {
    v.as_array()
        .map(|a| a.iter().map(|x| x.as_str().and_then(|s| s.parse().ok()).unwrap_or(0)).collect())
        .unwrap_or_default()
}

fn params(out: &[u8]) -> Option<Vec<u64>> {
    let s = std::str::from_utf8(out).ok()?;
    let body = s.strip_prefix("\x1b[")?.strip_suffix('m')?;
    body.split(';').map(|p| p.parse().ok()).collect()
}

#[derive(Clone)]
struct Tables {
    den: i128,
    luma_den: i128,
    cube: Vec<i128>,
    greys: Vec<i128>,
    srgb: Vec<i128>,
    levels: Vec<i128>,
    xcube: Vec<i128>,
    xgreys: Vec<i128>,
}

#[derive(Default)]
struct Acc {
    checked: u64,
    near: u64,
    model_diff: u64,
    worst: f64,
    worst_at: Option<[u64; 4]>,
    violations: Vec<Value>,
    near_list: Vec<Value>,
}

const TOL: f64 = 1e-6;
const ROLES: [&str; 3] = ["fg", "bg", "underline"];

fn sq(x: i128) -> i128 {
    x * x
}

fn encode(enc: &mut TTYEncoder, out: &mut Vec<u8>, cols: [[u8; 3]; 3]) -> bool {
    out.clear();
    let c = |k: usize| Some(RGBA::new(cols[k][0], cols[k][1], cols[k][2], 255));
    let cmd = TerminalCommand::FaceModify(FaceModify { fg: c(0), bg: c(1), underline_color: c(2), ..FaceModify::default() });
    std::panic::catch_unwind(std::panic::AssertUnwindSafe(|| enc.encode(&mut *out, cmd).is_ok())).unwrap_or(false)
}

fn sweep(t: &Tables, lo: u32, hi: u32, stride: u32) -> Acc {
    let caps = |depth| TerminalCaps { depth, glyphs: false, kitty_keyboard: false };
    let mut enc256 = TTYEncoder::new(caps(ColorDepth::EightBit));
    let mut encg = TTYEncoder::new(caps(ColorDepth::Gray));
    let mut enct = TTYEncoder::new(caps(ColorDepth::TrueColor));
    let mut out = Vec::new();
    let mut a = Acc::default();
    let mut code = lo;
    while code < hi {
        let (r, g, b) = ((code >> 16) as u8, (code >> 8) as u8, code as u8);
        code += stride;
        a.checked += 1;
        let cols = [[r, g, b], [g, b, r], [b, r, g]];
        let mut bad = |a: &mut Acc, depth: &str, role: &str, c: [u8; 3], what: Value| {
            if a.violations.len() < 10 {
                a.violations.push(json!({"depth": depth, "kind": "sweep", "role": role, "c": c, "first": [r, g, b], "observed": what}));
            }
        };
        // ---- 256 colours
        let ok = encode(&mut enc256, &mut out, cols);
        match (ok, params(&out)) {
            (true, Some(p)) if p.len() == 9 && [p[0], p[1], p[3], p[4], p[6], p[7]] == [38, 5, 48, 5, 58, 5] => {
                for k in 0..3 {
                    let c = cols[k];
                    let n = p[3 * k + 2] as usize;
                    if !(16..256).contains(&n) {
                        bad(&mut a, "256", ROLES[k], c, json!(n));
                        continue;
                    }
                    let v = [t.srgb[c[0] as usize], t.srgb[c[1] as usize], t.srgb[c[2] as usize]];
                    let d2 = |e: [i128; 3]| sq(v[0] - e[0]) + sq(v[1] - e[1]) + sq(v[2] - e[2]);
                    let pick = |cube: &Vec<i128>, greys: &Vec<i128>| -> [i128; 3] {
                        if n < 232 {
                            let m = n - 16;
                            [cube[m / 36], cube[(m / 6) % 6], cube[m % 6]]
                        } else {
                            [greys[n - 232]; 3]
                        }
                    };
                    // exact optimum: the cube minimum separates per channel, greys are scanned
                    let best = |cube: &Vec<i128>, greys: &Vec<i128>| -> i128 {
                        let chan = |x: i128| cube.iter().map(|c| sq(x - c)).min().unwrap();
                        (chan(v[0]) + chan(v[1]) + chan(v[2])).min(greys.iter().map(|t| d2([*t, *t, *t])).min().unwrap())
                    };
                    if d2(pick(&t.cube, &t.greys)) != best(&t.cube, &t.greys) {
                        a.model_diff += 1; // not the exact optimum over the typed tables (f32 rounding)
                    }
                    let (di, xbest) = (d2(pick(&t.xcube, &t.xgreys)), best(&t.xcube, &t.xgreys));
                    if di != xbest {
                        let excess = ((di as f64).sqrt() - (xbest as f64).sqrt()) / t.den as f64;
                        a.near += 1;
                        if k == 0 && a.near_list.len() < 64 {
                            a.near_list.push(json!({"depth": "256", "kind": "near-tie", "c": c}));
                        }
                        if excess > a.worst {
                            a.worst = excess;
                            a.worst_at = Some([c[0] as u64, c[1] as u64, c[2] as u64, n as u64]);
                        }
                        if excess > TOL {
                            bad(&mut a, "256", ROLES[k], c, json!({"index": n, "excess": excess}));
                        }
                    }
                }
            }
            _ => bad(&mut a, "256", "all", cols[0], json!(String::from_utf8_lossy(&out))),
        }
        // ---- grey depth: fg code, bg code; no underline colour
        let ok = encode(&mut encg, &mut out, cols);
        match (ok, params(&out)) {
            (true, Some(p)) if p.len() == 2 => {
                for k in 0..2 {
                    let c = cols[k];
                    let code = if k == 0 { p[0] } else { p[1].wrapping_sub(10) };
                    let level = match code {
                        30 => Some(0usize),
                        90 => Some(1),
                        37 => Some(2),
                        97 => Some(3),
                        _ => None,
                    };
                    let lz = 2126 * c[0] as i128 + 7152 * c[1] as i128 + 722 * c[2] as i128;
                    let best_l = t.levels.iter().map(|l| (lz - l).abs()).min().unwrap();
                    match level {
                        Some(l) if ((lz - t.levels[l]).abs() - best_l) as f64 / t.luma_den as f64 <= TOL => {}
                        _ => bad(&mut a, "gray", ROLES[k], c, json!(p[k])),
                    }
                }
            }
            _ => bad(&mut a, "gray", "all", cols[0], json!(String::from_utf8_lossy(&out))),
        }
        // ---- true colour
        let ok = encode(&mut enct, &mut out, cols);
        let want: Vec<u64> = (0..3)
            .flat_map(|k| vec![[38u64, 48, 58][k], 2, cols[k][0] as u64, cols[k][1] as u64, cols[k][2] as u64])
            .collect();
        if !ok || params(&out) != Some(want) {
            bad(&mut a, "true", "all", cols[0], json!(String::from_utf8_lossy(&out)));
        }
    }
    a
}

pub fn main(args: &[String]) -> i32 {
    if args.len() < 2 {
        eprintln!("usage: tool c20sweep tables.json stride [threads]");
        return 2;
    }
    let tables: Value = match std::fs::read_to_string(&args[0]).ok().and_then(|s| serde_json::from_str(&s).ok()) {
        Some(v) => v,
        None => {
            eprintln!("cannot read {}", args[0]);
            return 2;
        }
    };
    let stride: u32 = args[1].parse().unwrap_or(7).max(1);
    let threads: u32 = args.get(2).and_then(|s| s.parse().ok()).unwrap_or(8).clamp(1, 64);
    let srgb = ints(&tables["srgb"]);
    if srgb.len() != 256 {
        eprintln!("unexpected table sizes");
        return 2;
    }
    let t = Tables {
        den: ints(&tables["den"])[0],
        luma_den: ints(&tables["luma_den"])[0],
        cube: ints(&tables["cube"]),
        greys: ints(&tables["greys"]),
        levels: ints(&tables["gray_levels"]),
        // the palette entries themselves, placed by the library's own conversion of the xterm levels
        xcube: [0usize, 95, 135, 175, 215, 255].iter().map(|l| srgb[*l]).collect(),
        xgreys: (0..24usize).map(|k| srgb[8 + 10 * k]).collect(),
        srgb,
    };
    if t.cube.len() != 6 || t.greys.len() != 24 || t.levels.len() != 4 {
        eprintln!("unexpected table sizes");
        return 2;
    }
    std::panic::set_hook(Box::new(|_| {}));
    // contiguous blocks whose first element is a multiple of the stride
    let total: u32 = 1 << 24;
    let block = (total / threads / stride + 1) * stride;
    let handles: Vec<_> = (0..threads)
        .map(|i| {
            let t = t.clone();
            let (lo, hi) = ((i * block).min(total), ((i + 1) * block).min(total));
            std::thread::spawn(move || sweep(&t, lo, hi, stride))
        })
        .collect();
    let mut acc = Acc::default();
    for h in handles {
        match h.join() {
            Ok(a) => {
                acc.checked += a.checked;
                acc.near += a.near;
                acc.model_diff += a.model_diff;
                if a.worst > acc.worst {
                    acc.worst = a.worst;
                    acc.worst_at = a.worst_at;
                }
                acc.violations.extend(a.violations);
                acc.near_list.extend(a.near_list);
            }
            Err(_) => acc.violations.push(json!({"depth": "?", "kind": "sweep", "observed": "worker thread died"})),
        }
    }
    acc.violations.truncate(10);
    println!(
        "{}",
        json!({"checked": acc.checked, "stride": stride, "roles": ROLES, "near_ties": acc.near,
               "differs_from_exact_model": acc.model_diff, "worst_excess": acc.worst, "worst_at": acc.worst_at,
               "tolerance": TOL, "violations": acc.violations, "near_tie_colours": acc.near_list})
    );
    0
}
