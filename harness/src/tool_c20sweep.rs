//! `snt_harness tool c20sweep <tables.json> <stride> [threads]`: sweep of the colour space in exact integer
//! arithmetic (i128), independent of Coq.  For every visited opaque colour c the real encoder is asked for
//! FaceModify { fg: c, bg: rot(c), underline_color: rot(rot(c)) } (rot (r,g,b) = (g,b,r), so with stride 1 each
//! role sees all 2^24 colours) under each ColorDepth, and every role's answer is compared with the exact
//! optimum for that role's colour: EightBit against the xterm palette placed by the library's own
//! sRGB->linear conversion (tolerance 1e-6 in distance) and against the exact model over the typed tables;
//! Gray against the nearest of the four levels by luma (no underline colour may be emitted); TrueColor
//! channel by channel.  A panic of the encoder is a violation.  Grey depth additionally: the level must not
//! decrease when the exact luma increases by more than the tolerance (monotonicity over ALL colours).
//! tables.json = the numbers of Gen/TabColor.v as extracted by the translator.  Prints one JSON object.
//!
//! This file is an UNPROVED second implementation of the C20 predicate (f64 square roots for the excess,
//! separable minimum over the cube).  `judge` gives its verdict for one case; harness/src/c20.rs hands that
//! verdict to Coq, where it must equal the verdict of the Coq predicate on every sampled case.
use serde_json::{json, Value};
use surf_n_term::encoder::{ColorDepth, Encoder, TTYEncoder};
use surf_n_term::{FaceModify, TerminalCaps, TerminalCommand, RGBA};

fn ints(v: &Value) -> Vec<i128> {
    v.as_array()
        .map(|a| a.iter().map(|x| x.as_str().and_then(|s| s.parse().ok()).unwrap_or(0)).collect())
        .unwrap_or_default()
}

fn params(out: &[u8]) -> Option<Vec<u64>> {
    let s = std::str::from_utf8(out).ok()?;
    let body = s.strip_prefix("\x1b[")?.strip_suffix('m')?;
    body.split(';').map(|p| p.parse().ok()).collect()
}

#[derive(Clone)]
pub struct Tables {
    den: i128,
    luma_den: i128,
    cube: Vec<i128>,
    greys: Vec<i128>,
    srgb: Vec<i128>,
    levels: Vec<i128>,
    xcube: Vec<i128>,
    xgreys: Vec<i128>,
}

impl Tables {
    pub fn load(path: &str) -> Result<Tables, String> {
        let tables: Value = std::fs::read_to_string(path)
            .ok()
            .and_then(|s| serde_json::from_str(&s).ok())
            .ok_or_else(|| format!("cannot read {}", path))?;
        let srgb = ints(&tables["srgb"]);
        if srgb.len() != 256 {
            return Err("unexpected table sizes".into());
        }
        let one = |k: &str| ints(&tables[k]).first().copied().ok_or_else(|| format!("missing {}", k));
        let t = Tables {
            den: one("den")?,
            luma_den: one("luma_den")?,
            cube: ints(&tables["cube"]),
            greys: ints(&tables["greys"]),
            levels: ints(&tables["gray_levels"]),
            // the palette entries themselves, placed by the library's own conversion of the xterm levels
            xcube: [0usize, 95, 135, 175, 215, 255].iter().map(|l| srgb[*l]).collect(),
            xgreys: (0..24usize).map(|k| srgb[8 + 10 * k]).collect(),
            srgb,
        };
        if t.cube.len() != 6 || t.greys.len() != 24 || t.levels.len() != 4 || t.den <= 0 || t.luma_den <= 0 {
            return Err("unexpected table sizes".into());
        }
        Ok(t)
    }
}

#[derive(Default)]
struct Acc {
    checked: u64,
    near: u64,
    model_diff: u64,
    worst: f64,
    worst_at: Option<[u64; 4]>,
    violations: Vec<Value>,
    near_list: Vec<Value>,
    model_diff_list: Vec<Value>,
    /// grey depth, foreground role: per exact luma value the lowest / highest (level << 24 | colour) seen
    lo: Vec<u32>,
    hi: Vec<u32>,
}

const TOL: f64 = 1e-6;
const ROLES: [&str; 3] = ["fg", "bg", "underline"];
pub type Cols = [[u8; 3]; 3];

fn sq(x: i128) -> i128 {
    x * x
}

pub fn roles_of(c: [u8; 3]) -> Cols {
    [c, [c[1], c[2], c[0]], [c[2], c[0], c[1]]]
}

pub fn command(cols: Cols) -> TerminalCommand {
    let c = |k: usize| Some(RGBA::new(cols[k][0], cols[k][1], cols[k][2], 255));
    TerminalCommand::FaceModify(FaceModify { fg: c(0), bg: c(1), underline_color: c(2), ..FaceModify::default() })
}

fn encode(enc: &mut TTYEncoder, out: &mut Vec<u8>, cols: Cols) -> bool {
    out.clear();
    let cmd = command(cols);
    std::panic::catch_unwind(std::panic::AssertUnwindSafe(|| enc.encode(&mut *out, cmd).is_ok())).unwrap_or(false)
}

fn bad(a: &mut Acc, depth: &str, role: &str, c: [u8; 3], first: [u8; 3], what: Value) {
    if a.violations.len() < 10 {
        a.violations.push(json!({"depth": depth, "kind": "sweep", "role": role, "c": c, "first": first, "observed": what}));
    }
}

/// 256 colours: every role's index against its own colour.  Returns whether the property holds.
fn check_256(t: &Tables, cols: Cols, ok: bool, out: &[u8], a: &mut Acc) -> bool {
    let mut holds = true;
    match (ok, params(out)) {
        (true, Some(p)) if p.len() == 9 && [p[0], p[1], p[3], p[4], p[6], p[7]] == [38, 5, 48, 5, 58, 5] => {
            for k in 0..3 {
                let c = cols[k];
                let n = p[3 * k + 2] as usize;
                if !(16..256).contains(&n) {
                    bad(a, "256", ROLES[k], c, cols[0], json!(n));
                    holds = false;
                    continue;
                }
                let v = [t.srgb[c[0] as usize], t.srgb[c[1] as usize], t.srgb[c[2] as usize]];
                let d2 = |e: [i128; 3]| sq(v[0] - e[0]) + sq(v[1] - e[1]) + sq(v[2] - e[2]);
                let pick = |cube: &Vec<i128>, greys: &Vec<i128>| -> [i128; 3] {
                    if n < 232 {
                        let m = n - 16;
                        [cube[m / 36], cube[(m / 6) % 6], cube[m % 6]]
                    } else {
                        [greys[n - 232]; 3]
                    }
                };
                // exact optimum: the cube minimum separates per channel, greys are scanned
                let best = |cube: &Vec<i128>, greys: &Vec<i128>| -> i128 {
                    let chan = |x: i128| cube.iter().map(|c| sq(x - c)).min().unwrap();
                    (chan(v[0]) + chan(v[1]) + chan(v[2])).min(greys.iter().map(|t| d2([*t, *t, *t])).min().unwrap())
                };
                if d2(pick(&t.cube, &t.greys)) != best(&t.cube, &t.greys) {
                    // not an exact optimum over the typed tables: differs from the exact model (up to exact ties)
                    a.model_diff += 1;
                    if a.model_diff_list.len() < 10 {
                        a.model_diff_list.push(json!({"depth": "256", "kind": "model-diff", "role": ROLES[k], "c": c, "index": n}));
                    }
                }
                let (di, xbest) = (d2(pick(&t.xcube, &t.xgreys)), best(&t.xcube, &t.xgreys));
                if di != xbest {
                    let excess = ((di as f64).sqrt() - (xbest as f64).sqrt()) / t.den as f64;
                    a.near += 1;
                    if k == 0 && a.near_list.len() < 64 {
                        a.near_list.push(json!({"depth": "256", "kind": "near-tie", "c": c}));
                    }
                    if excess > a.worst {
                        a.worst = excess;
                        a.worst_at = Some([c[0] as u64, c[1] as u64, c[2] as u64, n as u64]);
                    }
                    if excess > TOL {
                        bad(a, "256", ROLES[k], c, cols[0], json!({"index": n, "excess": excess}));
                        holds = false;
                    }
                }
            }
        }
        _ => {
            bad(a, "256", "all", cols[0], cols[0], json!(String::from_utf8_lossy(out)));
            holds = false;
        }
    }
    holds
}

fn luma_z(c: [u8; 3]) -> i128 {
    2126 * c[0] as i128 + 7152 * c[1] as i128 + 722 * c[2] as i128
}

/// grey depth: fg code, bg code, no underline colour.  Returns (property holds, level of the fg role).
fn check_gray(t: &Tables, cols: Cols, ok: bool, out: &[u8], a: &mut Acc) -> (bool, Option<usize>) {
    let mut holds = true;
    let mut fg_level = None;
    match (ok, params(out)) {
        (true, Some(p)) if p.len() == 2 => {
            for k in 0..2 {
                let c = cols[k];
                let code = if k == 0 { p[0] } else { p[1].wrapping_sub(10) };
                let level = match code {
                    30 => Some(0usize),
                    90 => Some(1),
                    37 => Some(2),
                    97 => Some(3),
                    _ => None,
                };
                if k == 0 {
                    fg_level = level;
                }
                let lz = luma_z(c);
                let best_l = t.levels.iter().map(|l| (lz - l).abs()).min().unwrap();
                match level {
                    Some(l) if ((lz - t.levels[l]).abs() - best_l) as f64 / t.luma_den as f64 <= TOL => {}
                    _ => {
                        bad(a, "gray", ROLES[k], c, cols[0], json!(p[k]));
                        holds = false;
                    }
                }
            }
        }
        _ => {
            bad(a, "gray", "all", cols[0], cols[0], json!(String::from_utf8_lossy(out)));
            holds = false;
        }
    }
    (holds, fg_level)
}

fn check_true(cols: Cols, ok: bool, out: &[u8], a: &mut Acc) -> bool {
    let want: Vec<u64> = (0..3)
        .flat_map(|k| vec![[38u64, 48, 58][k], 2, cols[k][0] as u64, cols[k][1] as u64, cols[k][2] as u64])
        .collect();
    if !ok || params(out) != Some(want) {
        bad(a, "true", "all", cols[0], cols[0], json!(String::from_utf8_lossy(out)));
        return false;
    }
    true
}

/// The verdict of this file's predicate for one case: `out` = bytes the encoder produced (None = panic)
/// for `command(roles_of(c))` under `depth` ("256" | "gray" | "true").
pub fn judge(t: &Tables, depth: &str, c: [u8; 3], out: Option<&[u8]>) -> bool {
    let mut a = Acc::default();
    let cols = roles_of(c);
    let (ok, bytes) = (out.is_some(), out.unwrap_or(&[]));
    match depth {
        "256" => check_256(t, cols, ok, bytes, &mut a),
        "gray" => check_gray(t, cols, ok, bytes, &mut a).0,
        _ => check_true(cols, ok, bytes, &mut a),
    }
}

fn sweep(t: &Tables, lo: u32, hi: u32, stride: u32) -> Acc {
    let caps = |depth| TerminalCaps { depth, glyphs: false, kitty_keyboard: false };
    let mut enc256 = TTYEncoder::new(caps(ColorDepth::EightBit));
    let mut encg = TTYEncoder::new(caps(ColorDepth::Gray));
    let mut enct = TTYEncoder::new(caps(ColorDepth::TrueColor));
    let mut out = Vec::new();
    let n_luma = t.luma_den as usize + 1;
    let mut a = Acc { lo: vec![u32::MAX; n_luma], hi: vec![0; n_luma], ..Acc::default() };
    let mut code = lo;
    while code < hi {
        let c = [(code >> 16) as u8, (code >> 8) as u8, code as u8];
        let cols = roles_of(c);
        let ok = encode(&mut enc256, &mut out, cols);
        check_256(t, cols, ok, &out, &mut a);
        let ok = encode(&mut encg, &mut out, cols);
        if let (_, Some(level)) = check_gray(t, cols, ok, &out, &mut a) {
            let lz = luma_z(c) as usize;
            if lz < n_luma {
                let packed = ((level as u32) << 24) | code;
                a.lo[lz] = a.lo[lz].min(packed);
                a.hi[lz] = a.hi[lz].max(packed);
            }
        }
        let ok = encode(&mut enct, &mut out, cols);
        check_true(cols, ok, &out, &mut a);
        code += stride;
        a.checked += 1;
    }
    a
}

fn rgb(packed: u32) -> [u32; 3] {
    [(packed >> 16) & 255, (packed >> 8) & 255, packed & 255]
}

pub fn main(args: &[String]) -> i32 {
    if args.len() < 2 {
        eprintln!("usage: tool c20sweep tables.json stride [threads]");
        return 2;
    }
    let t = match Tables::load(&args[0]) {
        Ok(t) => t,
        Err(e) => {
            eprintln!("{}", e);
            return 2;
        }
    };
    let stride: u32 = match args[1].parse() {
        Ok(s) if s >= 1 => s,
        _ => {
            eprintln!("bad stride {:?}", args[1]);
            return 2;
        }
    };
    let threads: u32 = args.get(2).and_then(|s| s.parse().ok()).unwrap_or(8).clamp(1, 64);
    std::panic::set_hook(Box::new(|_| {}));
    // contiguous blocks whose first element is a multiple of the stride
    let total: u32 = 1 << 24;
    let block = (total / threads / stride + 1) * stride;
    let handles: Vec<_> = (0..threads)
        .map(|i| {
            let t = t.clone();
            let (lo, hi) = ((i * block).min(total), ((i + 1) * block).min(total));
            std::thread::spawn(move || sweep(&t, lo, hi, stride))
        })
        .collect();
    let n_luma = t.luma_den as usize + 1;
    let mut acc = Acc { lo: vec![u32::MAX; n_luma], hi: vec![0; n_luma], ..Acc::default() };
    for h in handles {
        match h.join() {
            Ok(a) => {
                acc.checked += a.checked;
                acc.near += a.near;
                acc.model_diff += a.model_diff;
                if a.worst > acc.worst {
                    acc.worst = a.worst;
                    acc.worst_at = a.worst_at;
                }
                acc.violations.extend(a.violations);
                acc.near_list.extend(a.near_list);
                acc.model_diff_list.extend(a.model_diff_list);
                for k in 0..n_luma {
                    acc.lo[k] = acc.lo[k].min(a.lo[k]);
                    acc.hi[k] = acc.hi[k].max(a.hi[k]);
                }
            }
            Err(_) => acc.violations.push(json!({"depth": "?", "kind": "sweep", "observed": "worker thread died"})),
        }
    }
    // grey depth: the level is monotone in the exact luma, up to the tolerance.
    // first[k] = the smallest luma (and a colour) at which a level >= k was chosen
    let mut first: [Option<(usize, u32)>; 4] = [None; 4];
    let (mut split_lumas, mut inversions_within_tol, mut worst_inversion) = (0u64, 0u64, 0f64);
    let mut split_examples: Vec<Value> = vec![];
    let mut inversion_examples: Vec<Value> = vec![];
    for l in 0..n_luma {
        if acc.lo[l] == u32::MAX {
            continue;
        }
        let (lo_level, hi_level) = ((acc.lo[l] >> 24) as usize, (acc.hi[l] >> 24) as usize);
        if lo_level != hi_level {
            split_lumas += 1;
            if split_examples.len() < 64 {
                split_examples.push(json!({"luma_z": l, "low": {"c": rgb(acc.lo[l]), "level": lo_level}, "high": {"c": rgb(acc.hi[l]), "level": hi_level}}));
            }
        }
        for k in (lo_level + 1)..4 {
            if let Some((l0, c0)) = first[k] {
                // a colour of smaller luma l0 got level >= k, this one (luma l > l0) a lower level
                let gap = (l - l0) as f64 / t.luma_den as f64;
                if gap > TOL {
                    if acc.violations.len() < 10 {
                        acc.violations.push(json!({"depth": "gray", "kind": "sweep", "role": "fg", "c": rgb(acc.lo[l]), "first": rgb(acc.lo[l]),
                            "observed": {"monotonicity": "level decreases while luma increases by more than 1e-6",
                                         "darker_colour": rgb(c0), "its_level_at_least": k, "level": lo_level, "luma_gap": gap}}));
                    }
                } else {
                    inversions_within_tol += 1;
                    worst_inversion = worst_inversion.max(gap);
                    if inversion_examples.len() < 64 {
                        inversion_examples.push(json!({"darker": rgb(c0), "darker_level_at_least": k, "brighter": rgb(acc.lo[l]), "level": lo_level, "luma_gap": gap}));
                    }
                }
            }
        }
        for k in 1..=hi_level {
            if first[k].is_none() {
                first[k] = Some((l, acc.hi[l] & 0xff_ffff));
            }
        }
    }
    acc.violations.truncate(10);
    println!(
        "{}",
        json!({"checked": acc.checked, "stride": stride, "roles": ROLES, "near_ties": acc.near,
               "differs_from_exact_model": acc.model_diff, "model_diff_examples": acc.model_diff_list,
               "worst_excess": acc.worst, "worst_at": acc.worst_at,
               "tolerance": TOL, "violations": acc.violations, "near_tie_colours": acc.near_list,
               "gray_lumas_with_two_levels": split_lumas, "gray_split_examples": split_examples,
               "gray_inversions_within_tolerance": inversions_within_tol, "gray_worst_inversion_gap": worst_inversion,
               "gray_inversion_examples": inversion_examples})
    );
    0
}
