//! `snt_harness tool c20sweep <tables.json> <stride>`: sweep of the colour space in exact integer
//! arithmetic (i128), independent of Coq: for every visited opaque colour the palette index the real
//! encoder emits under ColorDepth::EightBit is compared with the exact optimum over the tables the
//! translator extracted (tables.json = the numbers of Gen/TabColor.v); grey level and true-colour
//! channels likewise.  stride 1 = all 2^24 colours.  Prints one JSON object.
use serde_json::{json, Value};
use surf_n_term::encoder::{ColorDepth, Encoder, TTYEncoder};
use surf_n_term::{FaceModify, TerminalCaps, TerminalCommand, RGBA};

fn ints(v: &Value) -> Vec<i128> {
    v.as_array()
        .map(|a| a.iter().map(|x| x.as_str().and_then(|s| s.parse().ok()).unwrap_or(0)).collect())
        .unwrap_or_default()
}

fn params(out: &[u8]) -> Option<Vec<u64>> {
    let s = std::str::from_utf8(out).ok()?;
    let body = s.strip_prefix("\x1b[")?.strip_suffix('m')?;
    body.split(';').map(|p| p.parse().ok()).collect()
}

pub fn main(args: &[String]) -> i32 {
    if args.len() < 2 {
        eprintln!("usage: tool c20sweep tables.json stride");
        return 2;
    }
    let tables: Value = match std::fs::read_to_string(&args[0]).ok().and_then(|s| serde_json::from_str(&s).ok()) {
        Some(v) => v,
        None => {
            eprintln!("cannot read {}", args[0]);
            return 2;
        }
    };
    let stride: u32 = args[1].parse().unwrap_or(61).max(1);
    let den = ints(&tables["den"])[0];
    let cube = ints(&tables["cube"]);
    let greys = ints(&tables["greys"]);
    let srgb = ints(&tables["srgb"]);
    let levels = ints(&tables["gray_levels"]);
    let luma_den = ints(&tables["luma_den"])[0];
    if cube.len() != 6 || greys.len() != 24 || srgb.len() != 256 || levels.len() != 4 {
        eprintln!("unexpected table sizes");
        return 2;
    }
    let sq = |x: i128| x * x;
    let mut enc256 = TTYEncoder::new(TerminalCaps { depth: ColorDepth::EightBit, glyphs: false, kitty_keyboard: false });
    let mut encg = TTYEncoder::new(TerminalCaps { depth: ColorDepth::Gray, glyphs: false, kitty_keyboard: false });
    let mut enct = TTYEncoder::new(TerminalCaps { depth: ColorDepth::TrueColor, glyphs: false, kitty_keyboard: false });
    let mut out = Vec::new();
    let tol = 1e-6f64;
    let (mut checked, mut near, mut worst) = (0u64, 0u64, 0f64);
    let mut worst_at = json!(null);
    let mut violations: Vec<Value> = vec![];
    let mut near_list: Vec<Value> = vec![];
    let mut code = 0u32;
    while code < (1 << 24) {
        let (r, g, b) = ((code >> 16) as u8, (code >> 8) as u8, code as u8);
        code += stride;
        checked += 1;
        let color = RGBA::new(r, g, b, 255);
        let cmd = || TerminalCommand::FaceModify(FaceModify { fg: Some(color), ..FaceModify::default() });
        // ---- 256 colours
        out.clear();
        let _ = enc256.encode(&mut out, cmd());
        let v = [srgb[r as usize], srgb[g as usize], srgb[b as usize]];
        let d2 = |e: [i128; 3]| sq(v[0] - e[0]) + sq(v[1] - e[1]) + sq(v[2] - e[2]);
        // exact optimum: the cube minimum separates per channel, greys are scanned
        let chan = |x: i128| cube.iter().map(|c| sq(x - c)).min().unwrap();
        let best_cube = chan(v[0]) + chan(v[1]) + chan(v[2]);
        let best_grey = greys.iter().map(|t| d2([*t, *t, *t])).min().unwrap();
        let best = best_cube.min(best_grey);
        match params(&out) {
            Some(p) if p.len() == 3 && p[0] == 38 && p[1] == 5 && (16..256).contains(&p[2]) => {
                let n = p[2] as usize;
                let e = if n < 232 {
                    let m = n - 16;
                    [cube[m / 36], cube[(m / 6) % 6], cube[m % 6]]
                } else {
                    [greys[n - 232]; 3]
                };
                let di = d2(e);
                if di != best {
                    let excess = ((di as f64).sqrt() - (best as f64).sqrt()) / den as f64;
                    near += 1;
                    if near_list.len() < 64 {
                        near_list.push(json!({"depth": "256", "kind": "near-tie", "c": [r, g, b]}));
                    }
                    if excess > worst {
                        worst = excess;
                        worst_at = json!([r, g, b, n]);
                    }
                    if excess > tol && violations.len() < 10 {
                        violations.push(json!({"depth": "256", "kind": "sweep", "c": [r, g, b], "index": n, "excess": excess}));
                    }
                }
            }
            _ => {
                if violations.len() < 10 {
                    violations.push(json!({"depth": "256", "kind": "sweep", "c": [r, g, b], "bytes": String::from_utf8_lossy(&out)}));
                }
            }
        }
        // ---- grey depth
        out.clear();
        let _ = encg.encode(&mut out, cmd());
        let lz = 2126 * r as i128 + 7152 * g as i128 + 722 * b as i128;
        let best_l = levels.iter().map(|l| (lz - l).abs()).min().unwrap();
        let level = match params(&out).as_deref() {
            Some([30]) => Some(0),
            Some([90]) => Some(1),
            Some([37]) => Some(2),
            Some([97]) => Some(3),
            _ => None,
        };
        match level {
            Some(l) => {
                let d = (lz - levels[l]).abs();
                if (d - best_l) as f64 / luma_den as f64 > tol && violations.len() < 10 {
                    violations.push(json!({"depth": "gray", "kind": "sweep", "c": [r, g, b], "level": l}));
                }
            }
            None => {
                if violations.len() < 10 {
                    violations.push(json!({"depth": "gray", "kind": "sweep", "c": [r, g, b], "bytes": String::from_utf8_lossy(&out)}));
                }
            }
        }
        // ---- true colour
        out.clear();
        let _ = enct.encode(&mut out, cmd());
        if params(&out) != Some(vec![38, 2, r as u64, g as u64, b as u64]) && violations.len() < 10 {
            violations.push(json!({"depth": "true", "kind": "sweep", "c": [r, g, b], "bytes": String::from_utf8_lossy(&out)}));
        }
    }
    println!(
        "{}",
        json!({"checked": checked, "stride": stride, "near_ties": near, "worst_excess": worst, "worst_at": worst_at,
               "tolerance": tol, "violations": violations, "near_tie_colours": near_list})
    );
    0
}
