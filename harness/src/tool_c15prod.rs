//! `snt_harness tool c15prod` — the three production NFAs of src/decoder.rs right before
//! `compile()` (verif::dump_nfa: the Debug/DOT text, parsed here) together with the compiled
//! DFAs (verif::dump_dfa), as JSON.  translate/c15prod.py turns it into Gen/ProdNFA.v, where
//! the model of `compile` is run on the real instances and compared with the real DFAs.
use crate::registry::c15::parse_dot_text;
use crate::registry::tool_dfa::{dump_json, tag_of, Items};
use serde_json::{json, Value};
use surf_n_term::decoder::verif;

/// `Matcher(3)` -> `M3`, `Item(x)` -> `Ix` (the spelling of verif::dump_dfa)
fn tag_text(debug: &str) -> Option<String> {
    if let Some(r) = debug.strip_prefix("Matcher(") {
        Some(format!("M{}", r.strip_suffix(')')?))
    } else if let Some(r) = debug.strip_prefix("Item(") {
        Some(format!("I{}", r.strip_suffix(')')?))
    } else {
        None
    }
}

pub fn main(_args: &[String]) -> i32 {
    let mut out = serde_json::Map::new();
    for which in ["event", "command", "utf8"] {
        let (dot, dfa) = match (verif::dump_nfa(which), verif::dump_dfa(which)) {
            (Some(n), Some(d)) => (n, d),
            _ => return 1,
        };
        let (stop, states) = match parse_dot_text(&dot) {
            Some(x) => x,
            None => {
                eprintln!("c15prod: cannot parse the Debug output of the {} NFA", which);
                return 1;
            }
        };
        // item numbering: the one of the DFA dump (first appearance), extended by unseen items
        let mut items = Items::new();
        for (_, _, tags) in dfa.infos.iter() {
            for t in tags {
                tag_of(&mut items, t);
            }
        }
        let mut sts: Vec<Value> = vec![];
        for s in states.iter() {
            // runs of consecutive symbols with the same target
            let mut runs: Vec<[usize; 3]> = vec![];
            for (c, q) in s.edges.iter() {
                let c = *c as usize;
                match runs.last_mut() {
                    Some(l) if l[2] == *q && l[1] + 1 == c => l[1] = c,
                    _ => runs.push([c, c, *q]),
                }
            }
            let tag = match &s.tag {
                None => Value::Null,
                Some(t) => match tag_text(t) {
                    Some(t) => {
                        let (is_item, idx) = tag_of(&mut items, &t);
                        json!([is_item, idx])
                    }
                    None => {
                        eprintln!("c15prod: unknown tag {:?}", t);
                        return 1;
                    }
                },
            };
            sts.push(json!({"e": runs, "eps": s.eps, "tag": tag}));
        }
        // certificate for Automata/ProdCheck.v (not trusted): the subset of NFA states of every
        // DFA state, found by walking the dumped DFA and the NFA together
        let closure = |seeds: &[usize]| -> Vec<usize> {
            let mut seen = std::collections::BTreeSet::new();
            let mut stack: Vec<usize> = seeds.to_vec();
            while let Some(q) = stack.pop() {
                if seen.insert(q) {
                    stack.extend(states[q].eps.iter().copied());
                }
            }
            seen.into_iter().collect()
        };
        let mut delta: Vec<std::collections::BTreeMap<u8, usize>> = vec![Default::default(); dfa.size];
        for (from, sym, to) in dfa.transitions.iter() {
            delta[*from].insert(*sym, *to);
        }
        let mut subsets: Vec<Option<Vec<usize>>> = vec![None; dfa.size];
        subsets[dfa.start] = Some(closure(&[0]));
        let mut todo = vec![dfa.start];
        while let Some(k) = todo.pop() {
            let s = subsets[k].clone().unwrap_or_default();
            for (c, k2) in delta[k].iter() {
                if subsets[*k2].is_none() {
                    let t: Vec<usize> = s
                        .iter()
                        .flat_map(|q| states[*q].edges.iter().filter(|(b, _)| b == c).map(|(_, t)| *t))
                        .collect();
                    subsets[*k2] = Some(closure(&t));
                    todo.push(*k2);
                }
            }
        }
        let subsets: Vec<Vec<usize>> = subsets.into_iter().map(|s| s.unwrap_or_default()).collect();
        out.insert(
            which.to_string(),
            json!({"stop": stop, "states": sts, "dfa": dump_json(&dfa), "items": items.names.len(), "subsets": subsets}),
        );
    }
    println!("{}", Value::Object(out));
    0
}
