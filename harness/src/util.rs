//! Shared harness utilities: PRNG, Coq term printers, case records.
use serde_json::{json, Value};
use std::collections::BTreeMap;
use std::collections::HashSet;
use std::fmt::Write as _;
use std::hash::{Hash, Hasher};

/// splitmix64: every random choice of a run derives from one seed.
#[derive(Clone)]
pub struct Rng(pub u64);

impl Rng {
    pub fn new(seed: u64) -> Self {
        // the state is a mixed image of the seed: with a plain affine map neighbouring seeds would
        // produce the same stream shifted by one draw
        let mut z = seed.wrapping_add(0x1234567).wrapping_mul(0x9E3779B97F4A7C15);
        z = (z ^ (z >> 30)).wrapping_mul(0xBF58476D1CE4E5B9);
        z = (z ^ (z >> 27)).wrapping_mul(0x94D049BB133111EB);
        Rng(z ^ (z >> 31))
    }
    pub fn next(&mut self) -> u64 {
        self.0 = self.0.wrapping_add(0x9E3779B97F4A7C15);
        let mut z = self.0;
        z = (z ^ (z >> 30)).wrapping_mul(0xBF58476D1CE4E5B9);
        z = (z ^ (z >> 27)).wrapping_mul(0x94D049BB133111EB);
        z ^ (z >> 31)
    }
    /// uniform in [0, n)
    pub fn below(&mut self, n: u64) -> u64 {
        if n == 0 {
            0
        } else {
            self.next() % n
        }
    }
    pub fn range(&mut self, lo: i64, hi: i64) -> i64 {
        lo + self.below((hi - lo + 1) as u64) as i64
    }
    pub fn chance(&mut self, num: u64, den: u64) -> bool {
        self.below(den) < num
    }
    pub fn pick<'a, T>(&mut self, xs: &'a [T]) -> &'a T {
        &xs[self.below(xs.len() as u64) as usize]
    }
    pub fn byte(&mut self) -> u8 {
        self.next() as u8
    }
    pub fn bytes(&mut self, n: usize) -> Vec<u8> {
        (0..n).map(|_| self.byte()).collect()
    }
}

// ---------- Coq term printers ----------
pub fn cn<T: std::fmt::Display>(x: T) -> String {
    format!("{}", x)
}
pub fn cz(x: i128) -> String {
    if x < 0 {
        format!("({})%Z", x)
    } else {
        format!("{}%Z", x)
    }
}
pub fn cnat(x: usize) -> String {
    format!("{}%nat", x)
}
pub fn cbool(b: bool) -> &'static str {
    if b {
        "true"
    } else {
        "false"
    }
}
pub fn clist<I: IntoIterator<Item = String>>(xs: I) -> String {
    let mut s = String::from("[");
    let mut first = true;
    for x in xs {
        if !first {
            s.push_str("; ");
        }
        first = false;
        s.push_str(&x);
    }
    s.push(']');
    s
}
pub fn cbytes(xs: &[u8]) -> String {
    clist(xs.iter().map(|b| b.to_string()))
}
pub fn cnums<T: std::fmt::Display>(xs: &[T]) -> String {
    clist(xs.iter().map(|b| b.to_string()))
}
pub fn copt(x: Option<String>) -> String {
    match x {
        None => "None".to_string(),
        Some(s) => format!("(Some {})", s),
    }
}
pub fn cpair(a: String, b: String) -> String {
    format!("({}, {})", a, b)
}

/// One executed case.
pub struct Case {
    /// Coq term of the property's case type
    pub coq: String,
    /// JSON form of the *input* (enough to re-run it) plus the implementation's output
    pub json: Value,
    /// labels for the input-distribution histogram
    pub tags: Vec<String>,
    /// non-trivial by the property's rule
    pub nontrivial: bool,
}

pub struct Batch {
    pub prop: &'static str,
    /// Coq module to import and name of the case type / report function
    pub coq_import: &'static str,
    pub case_type: &'static str,
    pub report_fn: &'static str,
    pub rule: &'static str,
    pub cases: Vec<Case>,
    /// extra lines placed before the case list in each shard
    pub preamble: String,
}

fn hash_value(v: &Value) -> u64 {
    let mut h = std::collections::hash_map::DefaultHasher::new();
    v.to_string().hash(&mut h);
    h.finish()
}

impl Batch {
    /// Write shards `cases_NNN.v`, `cases.jsonl` and `meta.json` into `dir`.
    pub fn write(&self, dir: &str, shard_size: usize) -> std::io::Result<()> {
        std::fs::create_dir_all(dir)?;
        // remove stale shards
        for e in std::fs::read_dir(dir)? {
            let e = e?;
            let n = e.file_name().to_string_lossy().to_string();
            if n.starts_with("cases_") || n.starts_with(".cases_") {
                let _ = std::fs::remove_file(e.path());
            }
        }
        let mut jsonl = String::new();
        let mut hist: BTreeMap<String, u64> = BTreeMap::new();
        let mut distinct = HashSet::new();
        for c in &self.cases {
            writeln!(jsonl, "{}", c.json).unwrap();
            for t in &c.tags {
                *hist.entry(t.clone()).or_insert(0) += 1;
            }
            if c.nontrivial {
                let mut inp = c.json.clone();
                if let Some(o) = inp.as_object_mut() {
                    o.remove("impl");
                }
                distinct.insert(hash_value(&inp));
            }
        }
        std::fs::write(format!("{}/cases.jsonl", dir), jsonl)?;
        let mut shards = 0;
        for (k, chunk) in self.cases.chunks(shard_size.max(1)).enumerate() {
            let mut s = String::new();
            writeln!(s, "From Coq Require Import List NArith ZArith String.").unwrap();
            writeln!(s, "From SNT Require Import {}.", self.coq_import).unwrap();
            writeln!(s, "Import ListNotations.\nLocal Open Scope N_scope.\nSet Printing Width 1000000.").unwrap();
            s.push_str(&self.preamble);
            writeln!(s, "Definition cases : list {} := [", self.case_type).unwrap();
            for (i, c) in chunk.iter().enumerate() {
                if i != 0 {
                    s.push_str(";\n");
                }
                s.push_str("  ");
                s.push_str(&c.coq);
            }
            writeln!(s, "\n].").unwrap();
            writeln!(
                s,
                "Eval vm_compute in ({} {} cases).",
                self.report_fn,
                k * shard_size.max(1)
            )
            .unwrap();
            std::fs::write(format!("{}/cases_{:03}.v", dir, k), s)?;
            shards += 1;
        }
        let samples: Vec<&Value> = {
            let n = self.cases.len();
            let mut idx = vec![];
            if n > 0 {
                idx.push(0);
                idx.push(n / 3);
                idx.push(2 * n / 3);
                idx.push(n - 1);
            }
            idx.dedup();
            idx.into_iter().map(|i| &self.cases[i].json).collect()
        };
        let meta = json!({
            "property": self.prop,
            "evaluations": self.cases.len(),
            "distinct_nontrivial": distinct.len(),
            "rule": self.rule,
            "distribution": hist,
            "samples": samples,
            "shards": shards,
            "shard_size": shard_size,
        });
        std::fs::write(format!("{}/meta.json", dir), serde_json::to_string_pretty(&meta).unwrap())?;
        Ok(())
    }
}

pub fn jbytes(xs: &[u8]) -> Value {
    Value::Array(xs.iter().map(|b| json!(*b)).collect())
}
pub fn vbytes(v: &Value) -> Vec<u8> {
    v.as_array().map(|a| a.iter().map(|x| x.as_u64().unwrap_or(0) as u8).collect()).unwrap_or_default()
}
pub fn vusizes(v: &Value) -> Vec<usize> {
    v.as_array().map(|a| a.iter().map(|x| x.as_u64().unwrap_or(0) as usize).collect()).unwrap_or_default()
}

/// Run `f`, mapping a panic to None (message printed to stderr is silenced by the hook in main).
pub fn catch<T>(f: impl FnOnce() -> T + std::panic::UnwindSafe) -> Option<T> {
    std::panic::catch_unwind(f).ok()
}

/// Path of the crate under test (`$VERIF_REPO`, default `/repo`).
pub fn repo_path() -> String {
    std::env::var("VERIF_REPO").unwrap_or_else(|_| "/repo".to_string())
}

/// Integer constants written in the given source files of the crate under test, read at run time
/// (`files` are relative to the crate root, e.g. `"src/common.rs"`): decimal, hex (`0x..`), octal, binary
/// literals with or without `_` and type suffix, shifts `1 << n` / `1usize << n`, and `u8/u16/u32::MAX`.
/// Code under `#[cfg(test)] mod tests` and comments are skipped.  The result is sorted and free of duplicates.
/// Generators use it to aim sizes, counts and values at the boundaries the current source actually contains
/// (each literal and its neighbours), so that a threshold introduced by a change is reached without anybody
/// having to know it in advance.  A file that cannot be read contributes nothing.
pub fn source_literals(files: &[&str]) -> Vec<u64> {
    let mut out: Vec<u64> = Vec::new();
    for f in files {
        let text = match std::fs::read_to_string(format!("{}/{}", repo_path(), f)) {
            Ok(t) => t,
            Err(_) => continue,
        };
        let text = match text.find("#[cfg(test)]\nmod tests") {
            Some(i) => text[..i].to_string(),
            None => text,
        };
        let mut code = String::new();
        for line in text.lines() {
            let line = match line.find("//") {
                Some(i) => &line[..i],
                None => line,
            };
            code.push_str(line);
            code.push('\n');
        }
        let b: Vec<char> = code.chars().collect();
        let mut i = 0;
        let mut toks: Vec<(usize, u64)> = Vec::new(); // (position, value)
        while i < b.len() {
            let c = b[i];
            let prev_ident = i > 0 && (b[i - 1].is_alphanumeric() || b[i - 1] == '_' || b[i - 1] == '.');
            if c.is_ascii_digit() && !prev_ident {
                let start = i;
                let mut s = String::new();
                while i < b.len() && (b[i].is_ascii_alphanumeric() || b[i] == '_') {
                    s.push(b[i]);
                    i += 1;
                }
                // a float such as 2.55 is not an integer constant
                if i + 1 < b.len() && b[i] == '.' && b[i + 1].is_ascii_digit() {
                    while i < b.len() && (b[i].is_ascii_alphanumeric() || b[i] == '.' || b[i] == '_') {
                        i += 1;
                    }
                    continue;
                }
                let s = s.replace('_', "");
                let (radix, digits) = if let Some(r) = s.strip_prefix("0x") {
                    (16, r.to_string())
                } else if let Some(r) = s.strip_prefix("0o") {
                    (8, r.to_string())
                } else if let Some(r) = s.strip_prefix("0b") {
                    (2, r.to_string())
                } else {
                    (10, s.clone())
                };
                let mut d = digits.as_str();
                for suf in ["usize", "isize", "u128", "i128", "u64", "i64", "u32", "i32", "u16", "i16", "u8", "i8"] {
                    if let Some(r) = d.strip_suffix(suf) {
                        d = r;
                        break;
                    }
                }
                if let Ok(v) = u64::from_str_radix(d, radix) {
                    toks.push((start, v));
                }
                continue;
            }
            i += 1;
        }
        for (k, &(_, v)) in toks.iter().enumerate() {
            out.push(v);
            // `a << n`
            if k + 1 < toks.len() {
                let (p0, p1) = (toks[k].0, toks[k + 1].0);
                let between: String = b[p0..p1].iter().collect();
                if between.contains("<<") && between.len() < 24 && toks[k + 1].1 < 64 {
                    if let Some(x) = v.checked_shl(toks[k + 1].1 as u32) {
                        out.push(x);
                    }
                }
            }
        }
        for (name, v) in [("u8::MAX", u8::MAX as u64), ("u16::MAX", u16::MAX as u64), ("u32::MAX", u32::MAX as u64),
                          ("i8::MAX", i8::MAX as u64), ("i16::MAX", i16::MAX as u64), ("i32::MAX", i32::MAX as u64)] {
            if code.contains(name) {
                out.push(v);
            }
        }
    }
    out.sort_unstable();
    out.dedup();
    out
}

/// `source_literals` widened to each value's neighbours (v-1, v, v+1), optionally capped.
pub fn source_boundaries(files: &[&str], cap: u64) -> Vec<u64> {
    let mut out = Vec::new();
    for v in source_literals(files) {
        for x in [v.saturating_sub(1), v, v.saturating_add(1)] {
            if x <= cap {
                out.push(x);
            }
        }
    }
    out.sort_unstable();
    out.dedup();
    out
}
