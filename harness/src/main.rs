//! Correspondence harness: runs the real crate on generated / replayed inputs and
//! writes Coq case files in which the model is evaluated and compared.
mod util;
mod registry {
    include!(concat!(env!("OUT_DIR"), "/registry.rs"));
}

use serde_json::Value;
use util::*;

fn usage() -> ! {
    eprintln!("usage: snt_harness <prop> --out DIR [--seed N] [--n N] [--shard N] [--replay FILE.jsonl] [--corpus DIR]");
    std::process::exit(2)
}

fn main() {
    let args: Vec<String> = std::env::args().collect();
    if args.len() < 2 {
        usage();
    }
    if args[1] == "tool" {
        if args.len() < 3 {
            usage();
        }
        match registry::tool(&args[2], &args[3..]) {
            Some(rc) => std::process::exit(rc),
            None => usage(),
        }
    }
    let prop = args[1].clone();
    let mut out = String::new();
    let mut seed = 1u64;
    let mut n = 1000usize;
    let mut shard = 500usize;
    let mut replay: Option<String> = None;
    let mut corpus: Option<String> = None;
    let mut tier = String::from("quick");
    let mut i = 2;
    while i < args.len() {
        let a = args[i].as_str();
        let v = args.get(i + 1).cloned().unwrap_or_default();
        match a {
            "--out" => out = v,
            "--seed" => {
                seed = match v.parse() {
                    Ok(seed) => seed,
                    Err(_) => {
                        eprintln!("snt_harness: --seed must be an unsigned 64-bit integer, got {:?}", v);
                        std::process::exit(2)
                    }
                }
            }
            "--n" => n = v.parse().unwrap_or(1000),
            "--shard" => shard = v.parse().unwrap_or(500),
            "--replay" => replay = Some(v),
            "--corpus" => corpus = Some(v),
            "--tier" => tier = v,
            _ => usage(),
        }
        i += 2;
    }
    if out.is_empty() {
        usage();
    }
    // modules whose cases may abort the process (stack overflow, non-unwinding panic) write the case in
    // flight to $SNT_HARNESS_OUT/current_case.json; `verify` turns a dead harness into a failing input
    std::env::set_var("SNT_HARNESS_OUT", &out);
    let _ = std::fs::create_dir_all(&out);
    // panics are expected observations; keep stderr quiet
    std::panic::set_hook(Box::new(|info| {
        if std::env::var_os("SNT_PANIC_VERBOSE").is_some() || std::env::var_os("VERIF_HARNESS_DEBUG").is_some() {
            eprintln!("panic: {}", info);
        }
    }));

    let mut inputs: Vec<Value> = vec![];
    let read_jsonl = |path: &str, inputs: &mut Vec<Value>| {
        if let Ok(s) = std::fs::read_to_string(path) {
            for line in s.lines() {
                if let Ok(v) = serde_json::from_str::<Value>(line) {
                    inputs.push(v);
                }
            }
        }
    };
    if let Some(r) = &replay {
        read_jsonl(r, &mut inputs);
    } else {
        if let Some(dir) = &corpus {
            if let Ok(rd) = std::fs::read_dir(dir) {
                let mut files: Vec<_> = rd.filter_map(|e| e.ok()).map(|e| e.path()).collect();
                files.sort();
                for f in files {
                    read_jsonl(&f.to_string_lossy(), &mut inputs);
                }
            }
        }
        let mut rng = Rng::new(seed);
        let gen = registry::generate(&prop, &mut rng, n, &tier).unwrap_or_else(|| usage());
        inputs.extend(gen);
    }
    let batch = registry::batch(&prop, &inputs).unwrap_or_else(|| usage());
    batch.write(&out, shard).expect("write cases");
    println!("harness: {} cases written to {}", batch.cases.len(), out);
}
