//! C12: SixelImageHandler::draw — the bytes are decoded by the Coq reference interpreter and compared
//! with the source picture; the encoder model is compared byte for byte under the observed strip order.
use crate::util::*;
use serde_json::{json, Value};
use surf_n_term::{Color, Image, ImageHandler, Position, Shape, SixelImageHandler, Size, Surface, RGBA};

type Rgb = [u8; 3];

fn crgb(c: &Rgb) -> String {
    format!("({},{},{})", c[0], c[1], c[2])
}

struct Img {
    w: usize,
    h: usize,
    data: Vec<[u8; 4]>,
    crop: Option<(usize, usize, usize, usize)>,
}

fn parse_img(v: &Value) -> Img {
    let w = v["w"].as_u64().unwrap_or(0) as usize;
    let h = v["h"].as_u64().unwrap_or(0) as usize;
    let data = v["data"]
        .as_array()
        .map(|a| {
            a.iter()
                .map(|p| {
                    let x = vusizes(p);
                    [x[0] as u8, x[1] as u8, x[2] as u8, *x.get(3).unwrap_or(&255) as u8]
                })
                .collect()
        })
        .unwrap_or_default();
    let crop = v["crop"].as_array().map(|a| {
        let x: Vec<usize> = a.iter().map(|y| y.as_u64().unwrap_or(0) as usize).collect();
        (x[0], x[1], x[2], x[3])
    });
    Img { w, h, data, crop }
}

pub fn run(input: &Value) -> Case {
    let bg: Option<[u8; 4]> = input["bg"].as_array().map(|a| {
        let v: Vec<u8> = a.iter().map(|x| x.as_u64().unwrap_or(0) as u8).collect();
        [v[0], v[1], v[2], v[3]]
    });
    let bg_rgba = bg.map(|b| RGBA::new(b[0], b[1], b[2], b[3]));
    let bg_eff = bg_rgba.unwrap_or_else(|| RGBA::new(0, 0, 0, 255));
    let imgs: Vec<Img> = input["imgs"].as_array().map(|a| a.iter().map(parse_img).collect()).unwrap_or_default();
    // the history on ONE handler: a number k = draw image k; ["d", k, ctor] = draw it through another construction
    // path (0 crop of the shared buffer, 1 clone of that, 2 Image::new(view) = compact copy, 3 Image::from(owned copy));
    // ["size", n] = override the accounted cache size; ["erase", k]; ["handle"]; ["fail", k, limit] = draw into a writer
    // that accepts `limit` bytes and then fails
    #[derive(Clone)]
    enum Op {
        Draw(usize, u64),
        Size(usize),
        Erase(usize),
        Handle,
        Fail(usize, usize),
    }
    let ops: Vec<Op> = input["draws"]
        .as_array()
        .map(|a| {
            a.iter()
                .map(|v| match v.as_u64() {
                    Some(k) => Op::Draw(k as usize, 0),
                    None => match v[0].as_str().unwrap_or("") {
                        "d" => Op::Draw(v[1].as_u64().unwrap_or(0) as usize, v[2].as_u64().unwrap_or(0)),
                        "erase" => Op::Erase(v[1].as_u64().unwrap_or(0) as usize),
                        "handle" => Op::Handle,
                        "fail" => Op::Fail(v[1].as_u64().unwrap_or(0) as usize, v[2].as_u64().unwrap_or(0) as usize),
                        _ => Op::Size(v[1].as_u64().unwrap_or(0) as usize),
                    },
                })
                .collect()
        })
        .unwrap_or_default();
    let draws: Vec<usize> = ops
        .iter()
        .filter_map(|o| match o {
            Op::Draw(k, _) | Op::Fail(k, _) => Some(*k),
            _ => None,
        })
        .collect();
    let has_size_op = ops.iter().any(|o| matches!(o, Op::Size(_)));
    let has_fail_op = ops.iter().any(|o| matches!(o, Op::Fail(..)));
    let has_nop = ops.iter().any(|o| matches!(o, Op::Erase(_) | Op::Handle));
    let has_ctor = ops.iter().any(|o| matches!(o, Op::Draw(_, c) if *c != 0));
    let boxed = input["boxed"].as_bool().unwrap_or(false);
    let twin_bg: Option<[u8; 4]> = input["twin_bg"].as_array().map(|a| {
        let v: Vec<u8> = a.iter().map(|x| x.as_u64().unwrap_or(0) as u8).collect();
        [v[0], v[1], v[2], v[3]]
    });

    // parents: every distinct pixel buffer once (crops of one parent share it, as Image::crop does);
    // the views are cut out of the parents by the Coq side (Corr/C12Corr.view_rows)
    let mut parents: Vec<(usize, usize, Vec<[u8; 4]>)> = vec![];
    let mut img_parent: Vec<usize> = vec![];
    for im in &imgs {
        let pos = parents.iter().position(|p| p.0 == im.w && p.1 == im.h && p.2 == im.data);
        let idx = match pos {
            Some(i) => i,
            None => {
                parents.push((im.w, im.h, im.data.clone()));
                parents.len() - 1
            }
        };
        img_parent.push(idx);
    }
    let mut coq_parents = vec![];
    let mut any_alpha = false;
    for (w, h, data) in &parents {
        let mut rows = vec![];
        let rle = w * h > 4000; // large parents are written run-length encoded (Corr/C12Corr.unrle)
        for r in 0..*h {
            let mut row: Vec<(usize, String)> = vec![];
            for c in 0..*w {
                let p = data[r * w + c];
                let term = if p[3] == 255 {
                    format!("Opaque {}", crgb(&[p[0], p[1], p[2]]))
                } else {
                    any_alpha = true;
                    let raw = bg_eff.blend_over(RGBA::new(p[0], p[1], p[2], p[3])).to_rgb();
                    format!("Transp {} {} {}", crgb(&[p[0], p[1], p[2]]), p[3], crgb(&raw))
                };
                match row.last_mut() {
                    Some((n, t)) if rle && *t == term => *n += 1,
                    _ => row.push((1, term)),
                }
            }
            if rle {
                rows.push(format!("unrle {}", clist(row.into_iter().map(|(n, t)| format!("({}%nat, {})", n, t)))));
            } else {
                rows.push(clist(row.into_iter().map(|(_, t)| t)));
            }
        }
        coq_parents.push(clist(rows));
    }
    let mut coq_imgs = vec![];
    let mut max_colors = 0usize;
    let mut any_crop = false;
    let mut heights = vec![];
    let mut widths = vec![];
    for (k, im) in imgs.iter().enumerate() {
        let (r0, r1, c0, c1) = im.crop.unwrap_or((0, im.h, 0, im.w));
        any_crop |= im.crop.is_some();
        let mut distinct: Vec<[u8; 4]> = vec![];
        for r in r0..r1.min(im.h) {
            for c in c0..c1.min(im.w) {
                let p = im.data[r * im.w + c];
                if !distinct.contains(&p) {
                    distinct.push(p);
                }
            }
        }
        heights.push(r1.min(im.h).saturating_sub(r0));
        widths.push(c1.min(im.w).saturating_sub(c0));
        max_colors = max_colors.max(distinct.len());
        // the key the handler uses: Surface::hash of the view (height, width, every pixel of the view)
        let key = {
            let pixels: Vec<RGBA> = im.data.iter().map(|p| RGBA::new(p[0], p[1], p[2], p[3])).collect();
            let parent = Image::from_parts(pixels.into(), Shape::from(Size::new(im.h, im.w)));
            let view = match im.crop {
                None => parent,
                Some((r0, r1, c0, c1)) => parent.crop(r0..r1, c0..c1),
            };
            Surface::hash(&view)
        };
        coq_imgs.push(format!(
            "({}%nat, {}, {})",
            img_parent[k],
            match im.crop {
                None => "None".to_string(),
                Some((r0, r1, c0, c1)) => format!("Some ({}%nat, {}%nat, {}%nat, {}%nat)", r0, r1, c0, c1),
            },
            key
        ));
    }
    let shared_parent = img_parent.len() > parents.len();

    // the implementation: one handler, one Image (one Arc'd buffer) per parent, crops taken from it
    let crops: Vec<Option<(usize, usize, usize, usize)>> = imgs.iter().map(|i| i.crop).collect();
    let parents_for_run = parents.clone();
    let img_parent2 = img_parent.clone();
    let ops2 = ops.clone();
    // one observation per op: Draw -> bytes; Nop -> bytes (must be none); Fail -> (accepted bytes, draw returned Err)
    enum Obs {
        Draw(Vec<u8>, usize, usize),
        Nop(Vec<u8>, usize, usize),
        Fail(Vec<u8>, bool, usize, usize),
        None,
    }
    struct FailAfter {
        limit: usize,
        got: Vec<u8>,
    }
    impl std::io::Write for FailAfter {
        fn write(&mut self, buf: &[u8]) -> std::io::Result<usize> {
            let room = self.limit - self.got.len();
            if room == 0 && !buf.is_empty() {
                return Err(std::io::Error::new(std::io::ErrorKind::Other, "writer full"));
            }
            let n = room.min(buf.len());
            self.got.extend_from_slice(&buf[..n]);
            Ok(n)
        }
        fn flush(&mut self) -> std::io::Result<()> {
            Ok(())
        }
    }
    let outs: Option<Vec<Obs>> = catch(move || {
        // `boxed`: every call goes through `impl ImageHandler for Box<T>` (what a terminal holds) instead of the
        // inherent impl of the trait for SixelImageHandler
        let mut handler: Box<SixelImageHandler> = Box::new(SixelImageHandler::new(bg_rgba));
        fn hdraw(h: &mut Box<SixelImageHandler>, boxed: bool, out: &mut dyn std::io::Write, img: &Image) -> Result<(), surf_n_term::Error> {
            if boxed {
                <Box<SixelImageHandler> as ImageHandler>::draw(h, out, img, Position::origin())
            } else {
                <SixelImageHandler as ImageHandler>::draw(&mut **h, out, img, Position::origin())
            }
        }
        let parent_imgs: Vec<Image> = parents_for_run
            .iter()
            .map(|(w, h, data)| {
                let pixels: Vec<RGBA> = data.iter().map(|p| RGBA::new(p[0], p[1], p[2], p[3])).collect();
                Image::from_parts(pixels.into(), Shape::from(Size::new(*h, *w)))
            })
            .collect();
        let make = |d: usize, ctor: u64| -> Image {
            let parent = &parent_imgs[img_parent2[d]];
            let view = match crops[d] {
                None => parent.clone(),
                Some((r0, r1, c0, c1)) => parent.crop(r0..r1, c0..c1),
            };
            match ctor {
                1 => view.clone(),
                2 => Image::new(&view),
                3 => Image::from(view.to_owned_surf()),
                _ => view,
            }
        };
        // another handler with another background sees every image first: handlers must not share anything
        if let Some(tb) = twin_bg {
            let mut twin = SixelImageHandler::new(Some(RGBA::new(tb[0], tb[1], tb[2], tb[3])));
            for d in 0..crops.len() {
                let mut sink: Vec<u8> = Vec::new();
                let _ = twin.draw(&mut sink, &make(d, 0), Position::origin());
            }
        }
        let kind = if boxed {
            <Box<SixelImageHandler> as ImageHandler>::kind(&handler)
        } else {
            <SixelImageHandler as ImageHandler>::kind(&**&handler)
        };
        assert_eq!(kind, surf_n_term::image::ImageHandlerKind::Sixel);
        let mut outs = vec![];
        for op in ops2 {
            match op {
                Op::Size(n) => {
                    handler.verif_set_cache_size(n);
                    outs.push(Obs::None);
                }
                Op::Draw(d, ctor) => {
                    let img = make(d, ctor);
                    let mut out: Vec<u8> = Vec::new();
                    hdraw(&mut handler, boxed, &mut out, &img).expect("draw");
                    let (size, entries) = handler.verif_cache_state();
                    outs.push(Obs::Draw(out, size, entries));
                }
                Op::Erase(d) => {
                    let img = make(d, 0);
                    let mut out: Vec<u8> = Vec::new();
                    let pos = if d % 2 == 0 { None } else { Some(Position::origin()) };
                    if boxed {
                        <Box<SixelImageHandler> as ImageHandler>::erase(&mut handler, &mut out, &img, pos).expect("erase");
                    } else {
                        <SixelImageHandler as ImageHandler>::erase(&mut **&mut handler, &mut out, &img, pos).expect("erase");
                    }
                    let (size, entries) = handler.verif_cache_state();
                    outs.push(Obs::Nop(out, size, entries));
                }
                Op::Handle => {
                    let mut out: Vec<u8> = Vec::new();
                    let ev = surf_n_term::TerminalEvent::CursorPosition(Position::origin());
                    let handled = if boxed {
                        <Box<SixelImageHandler> as ImageHandler>::handle(&mut handler, &mut out, &ev).expect("handle")
                    } else {
                        <SixelImageHandler as ImageHandler>::handle(&mut **&mut handler, &mut out, &ev).expect("handle")
                    };
                    if handled {
                        out.push(1); // a sixel handler has nothing to handle
                    }
                    let (size, entries) = handler.verif_cache_state();
                    outs.push(Obs::Nop(out, size, entries));
                }
                Op::Fail(d, limit) => {
                    let img = make(d, 0);
                    let mut w = FailAfter { limit, got: vec![] };
                    let res = hdraw(&mut handler, boxed, &mut w, &img);
                    let (size, entries) = handler.verif_cache_state();
                    outs.push(Obs::Fail(w.got, res.is_err(), size, entries));
                }
            }
        }
        outs
    });
    let (coq_draws, jd) = match &outs {
        None => (
            // a panic: report every draw with bytes that cannot decode
            clist(draws.iter().map(|d| format!("DDraw {}%nat [0] 0 0%nat", d))),
            json!("panic"),
        ),
        Some(outs) => {
            let mut terms = vec![];
            let mut js = vec![];
            for (op, o) in ops.iter().zip(outs.iter()) {
                match (op, o) {
                    (Op::Size(n), _) => terms.push(format!("DSize {}", n)),
                    (Op::Draw(d, _), Obs::Draw(o, size, entries)) => {
                        terms.push(format!("DDraw {}%nat {} {} {}%nat", d, cbytes(o), size, entries));
                        js.push(json!([String::from_utf8_lossy(o), size, entries]));
                    }
                    (_, Obs::Nop(o, size, entries)) => {
                        terms.push(format!("DNop {} {} {}%nat", cbytes(o), size, entries));
                        js.push(json!(["nop", o.len(), size, entries]));
                    }
                    // a writer that took everything is an ordinary draw
                    (Op::Fail(d, _), Obs::Fail(o, false, size, entries)) => {
                        terms.push(format!("DDraw {}%nat {} {} {}%nat", d, cbytes(o), size, entries));
                        js.push(json!([String::from_utf8_lossy(o), size, entries]));
                    }
                    (Op::Fail(d, limit), Obs::Fail(o, true, size, entries)) => {
                        terms.push(format!("DFail {}%nat {} {} {} {}%nat", d, limit, cbytes(o), size, entries));
                        js.push(json!(["failed", String::from_utf8_lossy(o), size, entries]));
                    }
                    _ => terms.push("DNop [0] 0 0%nat".to_string()),
                }
            }
            (clist(terms), Value::Array(js))
        }
    };
    let mut j = input.clone();
    j["impl"] = jd;
    let repeated = {
        let mut s = draws.clone();
        s.sort();
        s.dedup();
        s.len() < draws.len()
    };
    let hb = |h: usize| match h {
        0..=5 => "<6",
        _ if h % 6 == 0 => "6k",
        _ => "6k+r",
    };
    let mut tags = vec![
        format!("colors={}", match max_colors { 0..=1 => "1", 2..=16 => "2-16", 17..=256 => "17-256", _ => ">256" }),
        format!("colors_at_limit={}", match max_colors { 255 => "255", 256 => "256", 257 => "257", _ => "no" }),
        format!("alpha={}", any_alpha),
        format!("crop={}", any_crop),
        format!("crops_of_shared_buffer={}", shared_parent),
        format!("repeated={}", repeated),
        format!("eviction_forced={}", has_size_op),
        format!("failing_writer={}", has_fail_op),
        format!("erase_or_handle={}", has_nop),
        format!("other_constructors={}", has_ctor),
        format!("twin_handler={}", twin_bg.is_some()),
        format!("boxed_handler={}", boxed),
        format!("bg={}", match bg { None => "default", Some(b) if b[3] == 255 => "opaque", Some(_) => "translucent" }),
        format!("wide_over_255={}", widths.iter().any(|w| *w > 255)),
        format!("subsampled_in_draw={}", heights.iter().zip(widths.iter()).any(|(h, w)| (h / 6) * 6 * w >= 51200)),
    ];
    for h in &heights {
        tags.push(format!("height={}", hb(*h)));
    }
    Case {
        coq: format!("SIX {} {} {} {}", {
            let b = bg.unwrap_or([0, 0, 0, 255]);
            format!("({},{},{},{})", b[0], b[1], b[2], b[3])
        }, clist(coq_parents), clist(coq_imgs), coq_draws),
        json: j,
        tags,
        nontrivial: max_colors >= 2 && heights.iter().any(|h| *h >= 6) && widths.iter().any(|w| *w >= 1),
    }
}

// ------------------------------------------------------------------ generators

fn palette(rng: &mut Rng, n: usize) -> Vec<Rgb> {
    let mut v: Vec<Rgb> = vec![];
    let style = rng.below(3);
    let mut guard = 0;
    while v.len() < n && guard < 100000 {
        guard += 1;
        let c: Rgb = match style {
            0 => [rng.byte(), rng.byte(), rng.byte()],
            // already on the 0..100 grid (multiples of 2.55 truncated), plus neighbours
            1 => {
                let f = |rng: &mut Rng| ((rng.below(101) as f32 * 2.55) as u8).saturating_add(rng.below(2) as u8);
                [f(rng), f(rng), f(rng)]
            }
            _ => {
                let e = [0u8, 1, 2, 3, 127, 128, 129, 252, 253, 254, 255];
                [*rng.pick(&e), *rng.pick(&e), *rng.pick(&e)]
            }
        };
        if !v.contains(&c) {
            v.push(c);
        }
    }
    v
}

fn gen_image(rng: &mut Rng, thorough: bool) -> Value {
    let h = match rng.below(12) {
        0 => rng.below(6) as usize,          // too short: nothing may be drawn
        1 | 2 => 6,
        3 => 12,
        4 => 7 + rng.below(5) as usize,
        _ => 6 + rng.below(25) as usize,
    };
    let w = match rng.below(8) {
        0 => 1,
        1 => 2 + rng.below(4) as usize,
        _ => 1 + rng.below(40) as usize,
    };
    let ncol = match rng.below(8) {
        0 => 1,
        1 | 2 => 2 + rng.below(3) as usize,
        3 | 4 => 2 + rng.below(14) as usize,
        5 => 17 + rng.below(100) as usize,
        6 => 200 + rng.below(57) as usize,
        _ => 257 + rng.below(if thorough { 300 } else { 60 }) as usize,
    };
    // enough room for the colours asked for (the > 256 colour cases matter for the register bound)
    let (h, w) = if ncol >= 200 && h >= 6 && h * w < ncol + 20 {
        (12 + rng.below(19) as usize, 20 + rng.below(21) as usize)
    } else {
        (h, w)
    };
    let pal = palette(rng, ncol.min(h.max(1) * w).max(1));
    let with_alpha = rng.chance(1, 4);
    let mut px: Vec<Rgb> = vec![[0, 0, 0]; h * w];
    // band-wise patterns that exercise runs and skips
    let style = rng.below(5);
    for r in 0..h {
        let mut c = 0;
        while c < w {
            let run = match style {
                0 => 1,
                1 => 1 + rng.below(7) as usize,          // runs around the repeat threshold
                2 => *rng.pick(&[3usize, 4, 5]),
                3 => 1 + rng.below(w as u64) as usize,
                _ => if rng.chance(1, 2) { 1 } else { 4 },
            };
            let col = if style == 2 && r % 6 != 0 {
                px[(r - 1) * w + c] // same as the row above: whole columns share a colour
            } else {
                *rng.pick(&pal)
            };
            for k in 0..run {
                if c + k < w {
                    px[r * w + c + k] = col;
                }
            }
            c += run;
        }
    }
    // make sure every palette colour appears when there is room
    if pal.len() <= h * w {
        let stride = (h * w) / pal.len();
        for (i, col) in pal.iter().enumerate() {
            if rng.chance(3, 4) {
                px[(i * stride.max(1)) % (h * w).max(1)] = *col;
            }
        }
    }
    let data: Vec<Value> = px
        .iter()
        .map(|c| {
            let rb = rng.byte();
            let a: u8 = if with_alpha && rng.chance(1, 4) { *rng.pick(&[0u8, 1, 127, 128, 254, rb]) } else { 255 };
            json!([c[0], c[1], c[2], a])
        })
        .collect();
    let crop = if h > 0 && rng.chance(1, 4) {
        let r0 = rng.below((h / 2 + 1) as u64) as usize;
        let r1 = (r0 + 6 + rng.below(h as u64) as usize).min(h).max(r0 + 1);
        let c0 = rng.below(w as u64) as usize;
        let c1 = c0 + 1 + rng.below((w - c0) as u64) as usize;
        json!([r0, r1, c0, c1])
    } else {
        Value::Null
    };
    json!({"w": w, "h": h, "data": data, "crop": crop})
}

fn gen_case(rng: &mut Rng, thorough: bool) -> Value {
    let n = match rng.below(12) {
        0..=5 => 1,
        6 | 7 | 8 => 2,
        9 | 10 => 3,
        _ => 4 + rng.below(2) as usize,
    };
    let imgs: Vec<Value> = (0..n).map(|_| gen_image(rng, thorough)).collect();
    // a draw sequence in which every image occurs, repeats are interleaved and some first draws
    // come after cache hits
    let mut draws: Vec<usize> = (0..n).collect();
    for _ in 0..rng.below(n as u64 + 3) {
        draws.push(rng.below(n as u64) as usize);
    }
    if rng.chance(1, 2) {
        for i in (1..draws.len()).rev() {
            let j = rng.below(i as u64 + 1) as usize;
            draws.swap(i, j);
        }
    }
    let bg = if rng.chance(1, 2) {
        // mostly opaque backgrounds, some translucent ones (un-premultiplication in the compositing)
        let rb = rng.byte();
        let a = if rng.chance(1, 4) { *rng.pick(&[0u8, 1, 127, 254, rb]) } else { 255 };
        json!([rng.byte(), rng.byte(), rng.byte(), a])
    } else {
        Value::Null
    };
    json!({"bg": bg, "imgs": imgs, "draws": draws})
}

/// a wide image (more than 255 columns) in which one colour leaves gaps longer than 255 columns
/// (before its first sixel of a band, and between two of its runs) and another has a run longer than 255
fn gen_wide(rng: &mut Rng) -> Value {
    let w = 258 + rng.below(80) as usize;
    let h = *rng.pick(&[6usize, 6, 7, 12]);
    let pal = palette(rng, 4);
    let (a, b, c) = (pal[0], pal[1 % pal.len()], pal[2 % pal.len()]);
    let mut px: Vec<Rgb> = vec![a; w * h];
    for r in 0..h {
        // b: at the left edge and again after a gap of more than 255 columns
        let left = rng.below(3) as usize;
        let right = left + 256 + rng.below((w - left - 256) as u64) as usize;
        if r % 2 == 0 {
            px[r * w + left] = b;
        }
        px[r * w + right.min(w - 1)] = b;
        // c: only far to the right in some rows (a long initial gap)
        if r % 3 == 1 {
            px[r * w + w - 1 - rng.below(2) as usize] = c;
        }
    }
    let data: Vec<Value> = px.iter().map(|p| json!([p[0], p[1], p[2], 255])).collect();
    json!({"bg": Value::Null, "imgs": [{"w": w, "h": h, "data": data, "crop": Value::Null}], "draws": [0, 0]})
}

/// two (or three) cropped views of ONE parent image, same size, different origin, drawn on one handler:
/// the views share the parent's pixel buffer, only the shape differs
fn gen_crop_siblings(rng: &mut Rng, thorough: bool) -> Value {
    let mut parent = gen_image(rng, thorough);
    let mut guard = 0;
    while (parent["h"].as_u64().unwrap_or(0) < 9 || parent["w"].as_u64().unwrap_or(0) < 3) && guard < 50 {
        parent = gen_image(rng, thorough);
        guard += 1;
    }
    let h = parent["h"].as_u64().unwrap_or(0) as usize;
    let w = parent["w"].as_u64().unwrap_or(0) as usize;
    if h < 9 || w < 3 {
        return gen_case(rng, thorough);
    }
    let vh = 6 + rng.below((h - 8) as u64 + 1) as usize;
    let vw = 1 + rng.below((w - 2) as u64 + 1) as usize;
    let n = 2 + rng.below(2) as usize;
    let mut imgs = vec![];
    for _ in 0..n {
        let r0 = rng.below((h - vh + 1) as u64) as usize;
        let c0 = rng.below((w - vw + 1) as u64) as usize;
        let mut im = parent.clone();
        im["crop"] = json!([r0, r0 + vh, c0, c0 + vw]);
        imgs.push(im);
    }
    // sometimes the parent itself is one of the views; the views are drawn in one order and then in the
    // reverse order (whichever view of a buffer is seen first must not decide what the others look like)
    if rng.chance(1, 2) {
        let mut im = parent.clone();
        im["crop"] = Value::Null;
        let at = rng.below(imgs.len() as u64 + 1) as usize;
        imgs.insert(at, im);
    }
    let n = imgs.len();
    let mut draws: Vec<Value> = (0..n).map(|k| json!(k)).collect();
    draws.extend((0..n).rev().map(|k| json!(["d", k, rng.below(4)])));
    json!({"bg": Value::Null, "imgs": imgs, "draws": draws})
}

/// a multi-step history on one handler through the whole API surface: draws through different
/// construction paths (crop, clone, Image::new, Image::from), erase, handle, draws into a failing writer
/// followed by ordinary draws of the same image, another handler with another background in between
fn gen_history(rng: &mut Rng, thorough: bool) -> Value {
    let n = 1 + rng.below(3) as usize;
    let imgs: Vec<Value> = (0..n)
        .map(|_| {
            let mut im = gen_image(rng, thorough);
            let mut guard = 0;
            while im["w"].as_u64().unwrap_or(0) * im["h"].as_u64().unwrap_or(0) > 500 && guard < 50 {
                im = gen_image(rng, thorough);
                guard += 1;
            }
            im
        })
        .collect();
    let mut draws: Vec<Value> = vec![];
    for _ in 0..(4 + rng.below(6)) {
        let k = rng.below(n as u64);
        match rng.below(8) {
            0 => draws.push(json!(["erase", k])),
            1 => draws.push(json!(["handle"])),
            2 | 3 => {
                // fail after 0, a few, or a few hundred bytes; then the same image again
                let limit = *rng.pick(&[0u64, 1, 3, 17, 64, 300]);
                draws.push(json!(["fail", k, limit]));
                if rng.chance(2, 3) {
                    draws.push(json!(["d", k, rng.below(4)]));
                }
            }
            _ => draws.push(json!(["d", k, rng.below(4)])),
        }
    }
    let bg = if rng.chance(1, 2) { json!([rng.byte(), rng.byte(), rng.byte(), 255]) } else { Value::Null };
    let mut v = json!({"bg": bg, "imgs": imgs, "draws": draws});
    if rng.chance(1, 2) {
        v["twin_bg"] = json!([rng.byte(), rng.byte(), rng.byte(), 255]);
    }
    if rng.chance(1, 2) {
        v["boxed"] = json!(true);
    }
    v
}

/// an image whose DRAWN part (height a multiple of six) has exactly `ncol` distinct colours at sixel's 0..100
/// resolution, not sub-sampled: the boundary of the "at most 256 colours -> exact" clause (255 / 256 / 257)
fn gen_colour_count(rng: &mut Rng, ncol: usize) -> Value {
    let ncol = ncol.max(1);
    let mut levels: Vec<[u8; 3]> = vec![];
    // levels near each other (a merge of two leaves is then a visible change of one level) or spread out
    let near = rng.chance(1, 2);
    let base = [rng.below(80) as u8, rng.below(80) as u8, rng.below(80) as u8];
    let mut guard = 0;
    while levels.len() < ncol && guard < 1_000_000 {
        guard += 1;
        let l = if near {
            [base[0] + rng.below(12) as u8, base[1] + rng.below(12) as u8, base[2] + rng.below(12) as u8]
        } else {
            [rng.below(101) as u8, rng.below(101) as u8, rng.below(101) as u8]
        };
        if !levels.contains(&l) {
            levels.push(l);
        }
    }
    let byte = |l: u8| (l as f32 * 2.55).round() as u8;
    let w = 8 + rng.below(30) as usize;
    let h = (((ncol + w - 1) / w + 5) / 6).max(1) * 6 + if rng.chance(1, 3) { rng.below(6) as usize } else { 0 };
    let drawn = (h - h % 6) * w;
    let mut px: Vec<Rgb> = (0..h * w)
        .map(|i| {
            let l = levels[if i < drawn { i % levels.len() } else { 0 }];
            [byte(l[0]), byte(l[1]), byte(l[2])]
        })
        .collect();
    // shuffle inside the drawn part
    for i in (1..drawn).rev() {
        let j = rng.below(i as u64 + 1) as usize;
        px.swap(i, j);
    }
    let data: Vec<Value> = px.iter().map(|p| json!([p[0], p[1], p[2], 255])).collect();
    json!({"bg": Value::Null, "imgs": [{"w": w, "h": h, "data": data, "crop": Value::Null}], "draws": [0, 0]})
}

/// different images with IDENTICAL quantised palettes on one handler (the same colour set arranged differently,
/// other sizes, bytes that differ below the 0..100 resolution), and one with another palette in between: every
/// draw must decode standalone (a terminal may have been reset, output may be replayed elsewhere), whatever
/// was drawn before it
fn gen_same_palette(rng: &mut Rng) -> Value {
    let many = rng.chance(1, 4);
    let ncol = 1 + rng.below(if many { 40 } else { 6 }) as usize;
    let pal = palette(rng, ncol);
    let nother = 1 + rng.below(6) as usize;
    let other = palette(rng, nother);
    let image = |rng: &mut Rng, cols: &[Rgb], jitter: bool| -> Value {
        let w = 1 + rng.below(12) as usize;
        let h = 6 * (1 + rng.below(3) as usize) + if rng.chance(1, 4) { rng.below(6) as usize } else { 0 };
        let drawn = (h - h % 6) * w;
        // every colour at least once in the drawn part when there is room
        let mut px: Vec<Rgb> = (0..h * w).map(|i| cols[if i < drawn { i % cols.len() } else { 0 }]).collect();
        for i in (1..drawn).rev() {
            let j = rng.below(i as u64 + 1) as usize;
            px.swap(i, j);
        }
        let data: Vec<Value> = px
            .iter()
            .map(|p| {
                // a neighbouring byte usually falls on the same 0..100 level: another image, the same palette
                let q = if jitter && rng.chance(1, 3) { [p[0] ^ 1, p[1], p[2]] } else { *p };
                json!([q[0], q[1], q[2], 255])
            })
            .collect();
        json!({"w": w, "h": h, "data": data, "crop": Value::Null})
    };
    let n_same = 2 + rng.below(2) as usize;
    let mut imgs: Vec<Value> = vec![];
    for k in 0..n_same {
        let jitter = k > 0 && rng.chance(1, 2);
        imgs.push(image(rng, &pal, jitter));
    }
    let c = imgs.len();
    imgs.push(image(rng, &other, false));
    // A, B, (B'), C, B, A, C: first renderings right after an equal palette, replays after another one
    let mut draws: Vec<Value> = (0..n_same).map(|k| json!(k)).collect();
    draws.push(json!(c));
    for k in (0..n_same).rev() {
        draws.push(json!(["d", k, rng.below(4)]));
    }
    draws.push(json!(c));
    if rng.chance(1, 2) {
        draws.insert(0, json!(c));
    }
    json!({"bg": Value::Null, "imgs": imgs, "draws": draws})
}

/// sizes aimed at the integer constants written in src/image.rs (and their neighbours): widths, heights
/// (in bands and in rows), colour counts, run lengths
fn gen_boundary(rng: &mut Rng) -> Value {
    let bs = source_boundaries(&["src/image.rs"], 600);
    let pick = |rng: &mut Rng, lo: u64, hi: u64, dflt: u64| -> u64 {
        let c: Vec<u64> = bs.iter().copied().filter(|v| *v >= lo && *v <= hi).collect();
        if c.is_empty() { dflt } else { *rng.pick(&c) }
    };
    let (w, h, ncol) = match rng.below(4) {
        // colour count at a constant (255 / 256 / 257 ...): enough pixels, modest width
        0 => {
            let ncol = if rng.chance(1, 2) { *rng.pick(&[255usize, 256, 257]) } else { pick(rng, 2, 600, 256) as usize };
            return gen_colour_count(rng, ncol);
        }
        // width at a constant
        1 => (pick(rng, 1, 400, 255) as usize, 6, 2 + rng.below(3) as usize),
        // height = constant rows, or constant bands
        2 => {
            let v = pick(rng, 1, 60, 6) as usize;
            (1 + rng.below(12) as usize, if rng.chance(1, 2) { v } else { (v % 9) * 6 + rng.below(2) as usize }, 2 + rng.below(6) as usize)
        }
        // run length at a constant inside a wider row
        _ => (pick(rng, 1, 300, 100) as usize + 3, 6, 2),
    };
    let pal = palette(rng, ncol.max(1));
    let mut px: Vec<Rgb> = vec![pal[0]; w * h];
    if ncol > 4 {
        for (i, p) in px.iter_mut().enumerate() {
            *p = pal[i % pal.len()];
        }
    } else {
        // one long run of pal[0] of length w - 3 (a harvested constant), other colours at the ends
        for r in 0..h {
            for c in 0..w {
                px[r * w + c] = if c == 0 || c + 2 >= w { pal[(r + c) % pal.len()] } else { pal[0] };
            }
        }
    }
    let data: Vec<Value> = px.iter().map(|p| json!([p[0], p[1], p[2], 255])).collect();
    json!({"bg": Value::Null, "imgs": [{"w": w, "h": h, "data": data, "crop": Value::Null}], "draws": [0, 0]})
}

/// an image large enough (>= 51200 pixels) for ColorPalette::from_image to sub-sample it inside draw;
/// few colours in long horizontal runs (repeats in the hundreds), some single pixels
fn gen_big(rng: &mut Rng) -> Value {
    // narrow and tall: the model's error rows are lists of length w + 2 (runs of hundreds of columns are
    // the business of gen_wide)
    let w = 64 + rng.below(40) as usize;
    let h = (51200 + w - 1) / w + 6 + rng.below(6) as usize; // (h / 6) * 6 * w >= 51200
    let ncol = 3 + rng.below(4) as usize;
    let pal = palette(rng, ncol);
    let mut px: Vec<Rgb> = vec![pal[0]; w * h];
    for r in 0..h {
        let mut c = 0;
        while c < w {
            let run = match rng.below(4) {
                0 => 1 + rng.below(4) as usize,
                1 => 30 + rng.below(60) as usize,
                2 => w,
                _ => 5 + rng.below(40) as usize,
            };
            let col = if r % 6 != 0 && rng.chance(2, 3) { px[(r - 1) * w + c] } else { *rng.pick(&pal) };
            for k in 0..run {
                if c + k < w {
                    px[r * w + c + k] = col;
                }
            }
            c += run;
        }
    }
    let data: Vec<Value> = px.iter().map(|p| json!([p[0], p[1], p[2], 255])).collect();
    json!({"bg": Value::Null, "imgs": [{"w": w, "h": h, "data": data, "crop": Value::Null}], "draws": [0, 0]})
}

/// products of two integer constants of src/image.rs: derived thresholds no literal spells out (the sub-sampling
/// budget of from_image is palette size x 100 pixels)
fn product_thresholds(lo: u64, hi: u64) -> Vec<u64> {
    let lits = source_literals(&["src/image.rs"]);
    let mut out: Vec<u64> = vec![];
    for (i, a) in lits.iter().enumerate() {
        for b in &lits[i..] {
            if *a >= 2 && *b <= 100_000 {
                let p = a.saturating_mul(*b);
                if p >= lo && p <= hi {
                    out.push(p);
                }
            }
        }
    }
    out.sort_unstable();
    out.dedup();
    out
}

/// an image whose DRAWN pixel count sits next to `t` (side 0: the largest count <= t, 1: the smallest count > t,
/// 2: the largest count < 2t), a few colours in long runs plus RARE colours (one or two pixels each), all distinct at
/// 0..100 resolution and well below 256: whether such an image is sub-sampled decides whether the rare colours get
/// a register
fn gen_pixel_threshold(rng: &mut Rng, t: u64, side: u64) -> Value {
    let t = t.max(64) as usize;
    // width and number of bands with h * w as close to the target as possible
    let mut best = (usize::MAX, 32usize, 6usize);
    for w in 20..=72usize {
        let band = 6 * w;
        let (n, ok) = match side {
            0 => ((t / band) * band, t >= band),
            1 => ((t / band + 1) * band, true),
            _ => (((2 * t - 1) / band) * band, 2 * t - 1 >= band),
        };
        let target = match side { 0 => t, 1 => t + 1, _ => 2 * t - 1 };
        let d = if n > target { n - target } else { target - n };
        if ok && (d < best.0 || (d == best.0 && rng.chance(1, 2))) {
            best = (d, w, n / w);
        }
    }
    let (_, w, h6) = best;
    let h = h6 + if rng.chance(1, 3) { rng.below(6) as usize } else { 0 };
    let byte = |l: u64| (l as f32 * 2.55).round() as u8;
    let nbase = 2 + rng.below(3) as usize;
    let nrare = 4 + rng.below(12) as usize;
    let mut levels: Vec<[u64; 3]> = vec![];
    while levels.len() < nbase + nrare {
        let l = [rng.below(101), rng.below(101), rng.below(101)];
        if !levels.contains(&l) {
            levels.push(l);
        }
    }
    let cols: Vec<Rgb> = levels.iter().map(|l| [byte(l[0]), byte(l[1]), byte(l[2])]).collect();
    let mut px: Vec<Rgb> = vec![cols[0]; w * h];
    for r in 0..h {
        let mut c = 0;
        while c < w {
            let run = match rng.below(3) { 0 => w, 1 => 8 + rng.below(30) as usize, _ => 1 + rng.below(5) as usize };
            let col = if r % 6 != 0 && rng.chance(3, 4) { px[(r - 1) * w + c] } else { cols[rng.below(nbase as u64) as usize] };
            for k in 0..run {
                if c + k < w {
                    px[r * w + c + k] = col;
                }
            }
            c += run;
        }
    }
    for rare in &cols[nbase..] {
        for _ in 0..1 + rng.below(2) {
            let i = rng.below((h6 * w) as u64) as usize;
            px[i] = *rare;
        }
    }
    let data: Vec<Value> = px.iter().map(|p| json!([p[0], p[1], p[2], 255])).collect();
    json!({"bg": Value::Null, "imgs": [{"w": w, "h": h, "data": data, "crop": Value::Null}], "draws": [0]})
}

/// several small images on one handler with the accounted cache size pushed to the limit in between
/// (verif-hooks), so that the least recently used entries are evicted and drawn images are re-encoded
fn gen_eviction(rng: &mut Rng, thorough: bool) -> Value {
    const LIMIT: u64 = 134217728;
    let n = 2 + rng.below(3) as usize;
    let imgs: Vec<Value> = (0..n)
        .map(|_| {
            let mut im = gen_image(rng, thorough);
            let mut guard = 0;
            while (im["h"].as_u64().unwrap_or(0) < 6 || im["w"].as_u64().unwrap_or(0) * im["h"].as_u64().unwrap_or(0) > 400) && guard < 50 {
                im = gen_image(rng, thorough);
                guard += 1;
            }
            im
        })
        .collect();
    let mut draws: Vec<Value> = (0..n).map(|k| json!(k)).collect();
    for _ in 0..(2 + rng.below(4)) {
        if rng.chance(1, 2) {
            // just below, at, or above the limit: the next insertion evicts some, all but the newest, or everything
            let n = match rng.below(4) {
                0 => LIMIT - rng.below(3000),
                1 => LIMIT,
                2 => LIMIT + 1 + rng.below(100000),
                _ => rng.below(5000),
            };
            draws.push(json!(["size", n]));
        }
        draws.push(json!(rng.below(n as u64)));
    }
    json!({"bg": Value::Null, "imgs": imgs, "draws": draws})
}

/// every pixel transparent, with many different colours and alphas, over an opaque or translucent
/// background: exercises the bound of the compositing oracle against the exact linear-light mix
fn gen_alpha_sweep(rng: &mut Rng) -> Value {
    let w = 8 + rng.below(33) as usize;
    let h = 6;
    let e = [0u8, 1, 2, 10, 11, 12, 13, 127, 128, 200, 253, 254, 255];
    let data: Vec<Value> = (0..w * h)
        .map(|_| {
            let c = |rng: &mut Rng| if rng.chance(1, 3) { *rng.pick(&e) } else { rng.byte() };
            let a = if rng.chance(1, 3) { *rng.pick(&[0u8, 1, 2, 127, 128, 253, 254]) } else { rng.byte().min(254) };
            json!([c(rng), c(rng), c(rng), a])
        })
        .collect();
    let rb = rng.byte();
    let ba = if rng.chance(1, 3) { *rng.pick(&[0u8, 1, 127, 254, rb]) } else { 255 };
    let c = |rng: &mut Rng| if rng.chance(1, 3) { *rng.pick(&e) } else { rng.byte() };
    let bg = if rng.chance(1, 5) { Value::Null } else { json!([c(rng), c(rng), c(rng), ba]) };
    json!({"bg": bg, "imgs": [{"w": w, "h": h, "data": data, "crop": Value::Null}], "draws": [0]})
}

/// validation of the regenerated tables against the real code: scale(pre(x)) for all 256 values of every
/// channel through one-colour opaque images; `scale` on values off the reduced grid is only observed
/// through the averaged palette entries of images with more than 256 colours (random cases)
fn table_cases() -> Vec<Value> {
    let mut v = vec![];
    for chunk in 0..8u32 {
        let mut imgs = vec![];
        for i in 0..32u32 {
            let x = (chunk * 32 + i) as u8;
            let c = [x, x.wrapping_add(85), x.wrapping_add(170), 255];
            imgs.push(json!({"w": 1, "h": 6, "data": vec![json!(c); 6], "crop": Value::Null}));
        }
        let draws: Vec<usize> = (0..32).collect();
        v.push(json!({"bg": Value::Null, "imgs": imgs, "draws": draws}));
    }
    // fully transparent pixels over a background: the composited colour is the background itself
    // (every 8th value; since the fix beaccdc this also goes through the reduction, like the family above)
    for y in (0..256u32).step_by(8) {
        let y = y as u8;
        let img = json!({"w": 2, "h": 6, "data": vec![json!([10, 200, 77, 0]); 12], "crop": Value::Null});
        v.push(json!({"bg": [y, y.wrapping_add(85), y.wrapping_add(170), 255], "imgs": [img], "draws": [0, 0]}));
    }
    v
}

pub fn generate(rng: &mut Rng, n: usize, tier: &str) -> Vec<Value> {
    let thorough = tier == "thorough";
    let mut v = table_cases();
    // the boundary of the exactness clause, in every run
    for ncol in [256usize, 255, 257, 256] {
        v.push(gen_colour_count(rng, ncol));
    }
    // drawn pixel counts next to the products of two source constants (no literal says 25600 = 256 x 100): the
    // largest product below 26k from both sides in every run, random ones in the thorough tier
    let prods = product_thresholds(2_000, 26_000);
    if let Some(t) = prods.last().copied() {
        v.push(gen_pixel_threshold(rng, t, 1));
        v.push(gen_pixel_threshold(rng, t, 2));
        v.push(gen_pixel_threshold(rng, t, 0));
    }
    for i in 0..n {
        if thorough && i % 60 == 33 && !prods.is_empty() {
            let t = *rng.pick(&prods);
            let side = rng.below(3);
            v.push(gen_pixel_threshold(rng, t, side));
            continue;
        }
        // one image above the sub-sampling threshold of from_image (51200 pixels) per 400 cases
        if i % 400 == 40 {
            v.push(gen_big(rng));
            continue;
        }
        let mut x = match i % 26 {
            7 => gen_wide(rng),
            11 | 20 => gen_alpha_sweep(rng),
            5 | 14 => gen_eviction(rng, thorough),
            3 | 16 => gen_crop_siblings(rng, thorough),
            9 | 22 => gen_history(rng, thorough),
            1 | 13 | 24 => gen_boundary(rng),
            18 => gen_same_palette(rng),
            _ => gen_case(rng, thorough),
        };
        // any history may run behind `impl ImageHandler for Box<T>`
        if x.get("boxed").is_none() && rng.chance(1, 3) {
            x["boxed"] = json!(true);
        }
        v.push(x);
    }
    v
}

pub fn batch(inputs: &[Value]) -> Batch {
    Batch {
        prop: "C12",
        coq_import: "Corr.C12Corr",
        case_type: "c12_case",
        report_fn: "c12_report",
        rule: "at least one image of height >= 6 with >= 2 distinct pixel values; distinct by (background, images, draw sequence)",
        cases: inputs.iter().map(run).collect(),
        preamble: String::new(),
    }
}
