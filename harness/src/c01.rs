//! C01: TerminalRenderer driven through its public API against a recording Terminal.
//!
//! A case is a history of operations (draw a surface / frame / drop the frame / clear /
//! re-create the renderer); the observation is the exact list of TerminalCommands issued per
//! operation.  Faces, images and glyphs come from small pools so that they can be named by
//! index on the Coq side (an image is identified by Arc identity = pool index; the image a
//! glyph cell is rasterised to is numbered 1000 + 16 * glyph + face).  Character widths and
//! image sizes in cells are obtained from the real code and sent with the case.
use crate::util::*;
use serde_json::{json, Value};
use std::collections::{BTreeSet, HashMap, HashSet, VecDeque};
use std::io::Write;
use surf_n_term::{
    render::TerminalRenderer, Cell, DecMode, Error, Face, FaceAttrs, FillRule, Glyph, Image, Path, Position, UnderlineStyle,
    Size, SurfaceMut, SurfaceOwned, Terminal, TerminalAction, TerminalCaps, TerminalCommand, TerminalEvent, TerminalSize,
    TerminalWaker, RGBA,
};

// ---------------------------------------------------------------- recording terminal
struct RecTerm {
    size: TerminalSize,
    cmds: Vec<TerminalCommand>,
    caps: TerminalCaps,
    fail_after: Option<usize>, // execute() fails once that many commands were recorded
}

impl RecTerm {
    fn new(h: usize, w: usize) -> Self {
        RecTerm {
            size: TerminalSize { cells: Size::new(h, w), pixels: Size::new(h * 20, w * 10) },
            cmds: vec![],
            caps: TerminalCaps::default(),
            fail_after: None,
        }
    }
}

impl Write for RecTerm {
    fn write(&mut self, buf: &[u8]) -> std::io::Result<usize> {
        Ok(buf.len())
    }
    fn flush(&mut self) -> std::io::Result<()> {
        Ok(())
    }
}

impl Terminal for RecTerm {
    fn execute(&mut self, cmd: TerminalCommand) -> Result<(), Error> {
        if self.fail_after.map(|k| self.cmds.len() >= k).unwrap_or(false) {
            return Err(Error::from(std::io::Error::new(std::io::ErrorKind::BrokenPipe, "scripted writer error")));
        }
        self.cmds.push(cmd);
        Ok(())
    }
    fn poll(&mut self, _timeout: Option<std::time::Duration>) -> Result<Option<TerminalEvent>, Error> {
        Ok(None)
    }
    fn size(&self) -> Result<TerminalSize, Error> {
        Ok(self.size)
    }
    fn position(&mut self) -> Result<Position, Error> {
        Ok(Position::new(0, 0))
    }
    fn waker(&self) -> TerminalWaker {
        TerminalWaker::new(|| Ok(()))
    }
    fn frames_pending(&self) -> usize {
        0
    }
    fn frames_drop(&mut self) {}
    fn dyn_ref(&mut self) -> &mut dyn Terminal {
        self
    }
    fn capabilities(&self) -> &TerminalCaps {
        &self.caps
    }
}

// ---------------------------------------------------------------- pools
const NARROW: [u32; 6] = [0x20, 0x61, 0x62, 0x78, 0x2500, 0xE9];
const WIDE: [u32; 3] = [0x4E16, 0x754C, 0x1F600];
const ZERO: [u32; 2] = [0x0301, 0x07];
const NFACES: u64 = 14;
const NIMAGES: u64 = 4;
const NGLYPHS: u64 = 2;

/// attributes that are visible on a cell without a character
fn shows_on_blank(f: Face) -> bool {
    f.attrs.underline() != UnderlineStyle::None || f.attrs.contains(FaceAttrs::REVERSE) || f.attrs.contains(FaceAttrs::STRIKE)
}
/// how a space printed in face f looks: background, plus foreground and the line/reverse attributes if any
fn look_of_space(f: Face) -> Face {
    if shows_on_blank(f) {
        let mut attrs = FaceAttrs::EMPTY;
        for a in [FaceAttrs::REVERSE, FaceAttrs::STRIKE] {
            if f.attrs.contains(a) {
                attrs = attrs.insert(a);
            }
        }
        attrs = attrs.insert(FaceAttrs::from(f.attrs.underline()));
        Face::new(f.fg, f.bg, attrs)
    } else {
        Face::new(None, f.bg, FaceAttrs::EMPTY)
    }
}
/// how a cell erased (ECH) under face f looks: the background colour only
fn look_of_erased(f: Face) -> Face {
    Face::new(None, f.bg, FaceAttrs::EMPTY)
}

struct Pools {
    faces: Vec<Face>,
    images: Vec<Image>,
    glyphs: Vec<Glyph>,
}

fn pools() -> Pools {
    let red = Some(RGBA::new(200, 30, 30, 255));
    let blue = Some(RGBA::new(20, 40, 160, 255));
    let mut faces = vec![
        Face::default(),
        Face::new(red, None, FaceAttrs::EMPTY),
        Face::new(None, blue, FaceAttrs::EMPTY),
        Face::new(Some(RGBA::new(250, 250, 10, 255)), Some(RGBA::new(10, 90, 10, 255)), FaceAttrs::BOLD),
        // pairs that differ in one component only
        Face::new(red, None, FaceAttrs::BOLD),
        Face::new(red, blue, FaceAttrs::EMPTY),
        // attributes that show on a blank cell
        Face::new(None, blue, FaceAttrs::UNDERLINE),
        Face::new(red, None, FaceAttrs::REVERSE),
        Face::new(None, blue, FaceAttrs::STRIKE),
        Face::new(red, None, FaceAttrs::UNDERLINE_CURLY.insert(FaceAttrs::BOLD)),
        Face::new(None, None, FaceAttrs::UNDERLINE_DOUBLE),
        Face::new(None, blue, FaceAttrs::UNDERLINE_DOTTED),
        Face::new(red, blue, FaceAttrs::UNDERLINE_DASHED),
        // the value frame() used to initialise its tracked face with
        Face::default().with_bg(Some(RGBA::new(1, 2, 3, 255))),
    ];
    assert_eq!(faces.len() as u64, NFACES);
    // faces that only occur as the look of blank cells get the following indices
    for i in 0..NFACES as usize {
        for f in [look_of_space(faces[i]), look_of_erased(faces[i])] {
            if !faces.contains(&f) {
                faces.push(f);
            }
        }
    }
    // pixels per cell are 20 x 10: cell sizes 1x1, 2x3, 3x2 and 4x8 (the last two through rounding up)
    let mk = |h: usize, w: usize, v: u8| {
        Image::from(SurfaceOwned::new_with(Size::new(h, w), |p| RGBA::new(v, (p.row * 7) as u8, (p.col * 5) as u8, 255)))
    };
    let images: Vec<Image> =
        IMAGE_PIXELS.iter().enumerate().map(|(i, (ph, pw))| mk(*ph, *pw, 10 * (i as u8 + 1))).collect();
    let path: Path = "M1,1 L9,1 L9,9 L1,9 Z".parse().expect("path");
    let glyphs = vec![
        Glyph::new(path.clone(), FillRule::NonZero, None, Size::new(GLYPH_CELLS[0].0, GLYPH_CELLS[0].1), "g".to_string(), None),
        Glyph::new(path, FillRule::EvenOdd, None, Size::new(GLYPH_CELLS[1].0, GLYPH_CELLS[1].1), "h".to_string(), None),
    ];
    Pools { faces, images, glyphs }
}

// ---------------------------------------------------------------- surfaces as data
#[derive(Clone, Copy, PartialEq, Eq, Debug)]
struct C {
    k: u8,  // 0 character, 1 image, 2 glyph
    f: u8,  // face index
    v: u32, // scalar value / image index / glyph index
}
type Surf = Vec<Vec<C>>;

const BLANK: C = C { k: 0, f: 0, v: 0x20 };

fn blank_surf(h: usize, w: usize) -> Surf {
    vec![vec![BLANK; w]; h]
}

fn surf_json(s: &Surf) -> Value {
    Value::Array(s.iter().map(|row| Value::Array(row.iter().map(|c| json!([c.k, c.f, c.v])).collect())).collect())
}

fn surf_parse(v: &Value) -> Surf {
    v.as_array()
        .map(|rows| {
            rows.iter()
                .map(|row| {
                    row.as_array()
                        .map(|cs| {
                            cs.iter()
                                .map(|c| C {
                                    k: c[0].as_u64().unwrap_or(0) as u8,
                                    f: c[1].as_u64().unwrap_or(0) as u8,
                                    v: c[2].as_u64().unwrap_or(0x20) as u32,
                                })
                                .collect()
                        })
                        .unwrap_or_default()
                })
                .collect()
        })
        .unwrap_or_default()
}

fn surf_coq(s: &Surf) -> String {
    clist(s.iter().map(|row| {
        clist(row.iter().map(|c| match c.k {
            0 => format!("c {} {}", c.f, c.v),
            1 => format!("im {} {}", c.f, c.v),
            _ => format!("gl {} {}", c.f, c.v),
        }))
    }))
}

/// The oracle tables of a case.  They are computed here, independently of the crate: display
/// widths of the pool characters are the Unicode East-Asian-width facts, an image occupies ceil(pixels / pixels-per-cell)
/// cells, a glyph image the glyph's declared size.
struct Env {
    ppc: (usize, usize),
    isize: Vec<(usize, usize)>,
}

const IMAGE_PIXELS: [(usize, usize); 4] = [(20, 10), (40, 30), (50, 15), (80, 75)];
const GLYPH_CELLS: [(usize, usize); 2] = [(1, 2), (1, 1)];

fn char_width(ch: u32) -> usize {
    if WIDE.contains(&ch) {
        2
    } else if ZERO.contains(&ch) {
        0
    } else {
        1
    }
}

impl Env {
    fn new(_p: &Pools, h: usize, w: usize) -> Env {
        let term = RecTerm::new(h.max(1), w.max(1));
        let ppc = (term.size.pixels.height / term.size.cells.height, term.size.pixels.width / term.size.cells.width);
        let isize = IMAGE_PIXELS.iter().map(|(ph, pw)| ((ph + ppc.0 - 1) / ppc.0, (pw + ppc.1 - 1) / ppc.1)).collect();
        Env { ppc, isize }
    }
    fn width(&self, ch: u32) -> usize {
        char_width(ch)
    }
    fn glyph_size(&mut self, _p: &Pools, g: u32, _f: u8) -> (usize, usize) {
        let _ = self.ppc;
        GLYPH_CELLS[g as usize % GLYPH_CELLS.len()]
    }
    /// rows x cols occupied by the multi-cell object owned by the cell, if it is one
    fn extent(&mut self, p: &Pools, c: C) -> Option<(usize, usize)> {
        match c.k {
            0 => (self.width(c.v) == 2).then_some((1, 2)),
            1 => Some(self.isize[c.v as usize % self.isize.len()]),
            _ => Some(self.glyph_size(p, c.v, c.f)),
        }
    }
}

fn in_domain(env: &mut Env, p: &Pools, s: &Surf, h: usize, w: usize) -> bool {
    if s.len() != h || s.iter().any(|r| r.len() != w) {
        return false;
    }
    for row in s {
        for (col, c) in row.iter().enumerate() {
            let ok = match c.k {
                0 => { let cw = env.width(c.v); cw == 1 || (cw == 2 && col + 2 <= w) }
                _ => env.extent(p, *c).map(|(a, b)| a >= 1 && b >= 1).unwrap_or(false),
            };
            if !ok {
                return false;
            }
        }
    }
    true
}

/// (two images, an image and a wide character, two wide characters) occupy a common cell
fn overlap_kinds(env: &mut Env, p: &Pools, s: &Surf, h: usize, w: usize) -> (bool, bool, bool) {
    let mut ni = vec![vec![0u32; w]; h];
    let mut nw = vec![vec![0u32; w]; h];
    for (r0, row) in s.iter().enumerate() {
        for (c0, c) in row.iter().enumerate() {
            if let Some((eh, ew)) = env.extent(p, *c) {
                for r in r0..(r0 + eh).min(h) {
                    for cc in c0..(c0 + ew).min(w) {
                        if c.k == 0 {
                            nw[r][cc] += 1;
                        } else {
                            ni[r][cc] += 1;
                        }
                    }
                }
            }
        }
    }
    let mut k = (false, false, false);
    for r in 0..h {
        for c in 0..w {
            k.0 |= ni[r][c] >= 2;
            k.1 |= ni[r][c] >= 1 && nw[r][c] >= 1;
            k.2 |= nw[r][c] >= 2;
        }
    }
    k
}

fn overlap_free(env: &mut Env, p: &Pools, s: &Surf, h: usize, w: usize) -> bool {
    overlap_kinds(env, p, s, h, w) == (false, false, false)
}

// ---------------------------------------------------------------- running one history
fn to_cell(p: &Pools, c: C) -> Cell {
    let face = p.faces[c.f as usize % NFACES as usize];
    match c.k {
        0 => Cell::new_char(face, char::from_u32(c.v).unwrap_or(' ')),
        1 => Cell::new_image(p.images[c.v as usize % p.images.len()].clone()).with_face(face),
        _ => Cell::new_glyph(face, p.glyphs[c.v as usize % p.glyphs.len()].clone()),
    }
}

struct Namer<'a> {
    p: &'a Pools,
    images: HashMap<Image, u64>,
}

impl<'a> Namer<'a> {
    fn new(p: &'a Pools) -> Self {
        let mut images = HashMap::new();
        for (i, img) in p.images.iter().enumerate() {
            images.insert(img.clone(), i as u64);
        }
        Namer { p, images }
    }
    fn face(&self, f: &Face) -> u64 {
        self.p.faces.iter().position(|x| x == f).map(|i| i as u64).unwrap_or(99)
    }
    fn image(&mut self, img: &Image, at: Option<C>) -> u64 {
        if let Some(id) = self.images.get(img) {
            return *id;
        }
        match at {
            Some(C { k: 2, f, v }) => {
                let id = 1000 + 16 * (v as u64) + f as u64;
                self.images.insert(img.clone(), id);
                id
            }
            _ => 9999,
        }
    }
    fn cmd(&mut self, cmd: &TerminalCommand, drawn: &Surf) -> (String, Value) {
        match cmd {
            TerminalCommand::Char(c) => (format!("CChar {}", *c as u32), json!(["char", *c as u32])),
            TerminalCommand::Face(f) => { let i = self.face(f); (format!("CFace {}", i), json!(["face", i])) }
            TerminalCommand::CursorTo(p) => (format!("to {} {}", p.row, p.col), json!(["to", p.row, p.col])),
            TerminalCommand::EraseChars(n) => (format!("ech {}", n), json!(["ech", n])),
            TerminalCommand::Image(img, p) => {
                let at = drawn.get(p.row).and_then(|r| r.get(p.col)).copied();
                let i = self.image(img, at);
                (format!("img {} {} {}", i, p.row, p.col), json!(["image", i, p.row, p.col]))
            }
            TerminalCommand::ImageErase(img, None) => {
                let i = self.image(img, None);
                (format!("unimg_all {}", i), json!(["image_erase", i]))
            }
            TerminalCommand::ImageErase(img, Some(p)) => {
                let i = self.image(img, None);
                (format!("unimg {} {} {}", i, p.row, p.col), json!(["image_erase", i, p.row, p.col]))
            }
            TerminalCommand::DecModeSet { enable, mode: DecMode::SynchronizedOutput } => {
                (format!("CSync {}", cbool(*enable)), json!(["sync", enable]))
            }
            other => ("COther".to_string(), json!(["other", format!("{:?}", other)])),
        }
    }
}

/// an arbitrary terminal screen: cells [kind, face, char] with kind 0 Blank, 1 Ch, 2 WL, 3 WR, 4 Orphan
type Screen = Vec<Vec<(u8, u8, u32)>>;

fn screen_json(g: &Screen) -> Value {
    Value::Array(g.iter().map(|r| Value::Array(r.iter().map(|c| json!([c.0, c.1, c.2])).collect())).collect())
}
fn screen_parse(v: &Value) -> Screen {
    v.as_array()
        .map(|rows| {
            rows.iter()
                .map(|row| {
                    row.as_array()
                        .map(|cs| {
                            cs.iter()
                                .map(|c| {
                                    (c[0].as_u64().unwrap_or(0) as u8, c[1].as_u64().unwrap_or(0) as u8, c[2].as_u64().unwrap_or(0x20) as u32)
                                })
                                .collect()
                        })
                        .unwrap_or_default()
                })
                .collect()
        })
        .unwrap_or_default()
}
fn screen_coq(g: &Screen) -> String {
    clist(g.iter().map(|row| {
        clist(row.iter().map(|c| match c.0 {
            0 => format!("sb {}", c.1),
            1 => format!("sc {} {}", c.2, c.1),
            2 => format!("sl {} {}", c.2, c.1),
            3 => format!("sr {}", c.1),
            _ => format!("so {}", c.1),
        }))
    }))
}
fn gen_screen(rng: &mut Rng, p: &Pools, h: usize, w: usize) -> Screen {
    // anything at all: also unpaired halves of wide characters and orphaned cells
    (0..h)
        .map(|_| {
            (0..w)
                .map(|_| {
                    let f = rng.below(p.faces.len() as u64) as u8;
                    match rng.below(8) {
                        0 | 1 => (0, f, 0x20),
                        2 | 3 => (1, f, *rng.pick(&NARROW[1..])),
                        4 => (2, f, *rng.pick(&WIDE)),
                        5 => (3, f, 0x20),
                        6 => (4, f, 0x20),
                        _ => (1, f, 0x7A),
                    }
                })
                .collect()
        })
        .collect()
}

#[derive(Clone, Debug)]
enum Op {
    Draw(Surf),
    Frame,
    Skip,
    Clear,
    Renew,
    /// the terminal is resized and shows the given screen; run_render then does clear() and new(_, true)
    Resize(usize, usize, Screen),
    /// frame() on a terminal whose execute() fails after k commands (error path; not a rendered frame)
    FailFrame(usize),
}

fn ops_parse(v: &Value) -> Vec<Op> {
    v.as_array()
        .map(|a| {
            a.iter()
                .map(|o| match o["op"].as_str().unwrap_or("frame") {
                    "draw" => Op::Draw(surf_parse(&o["cells"])),
                    "skip" => Op::Skip,
                    "clear" => Op::Clear,
                    "renew" => Op::Renew,
                    "failframe" => Op::FailFrame(o["k"].as_u64().unwrap_or(0) as usize),
                    "resize" => Op::Resize(
                        o["h"].as_u64().unwrap_or(1) as usize,
                        o["w"].as_u64().unwrap_or(1) as usize,
                        screen_parse(&o["screen"]),
                    ),
                    _ => Op::Frame,
                })
                .collect()
        })
        .unwrap_or_default()
}

fn ops_json(ops: &[Op]) -> Value {
    Value::Array(
        ops.iter()
            .map(|o| match o {
                Op::Draw(s) => json!({"op": "draw", "cells": surf_json(s)}),
                Op::Frame => json!({"op": "frame"}),
                Op::Skip => json!({"op": "skip"}),
                Op::Clear => json!({"op": "clear"}),
                Op::Renew => json!({"op": "renew"}),
                Op::FailFrame(k) => json!({"op": "failframe", "k": k}),
                Op::Resize(h, w, g) => json!({"op": "resize", "h": h, "w": w, "screen": screen_json(g)}),
            })
            .collect(),
    )
}

/// drive the real renderer; one command list per operation (None = panic)
fn drive(p: &Pools, h: usize, w: usize, clear: bool, ops: &[Op]) -> Option<Vec<Vec<(String, Value)>>> {
    drive2(p, h, w, clear, ops).map(|x| x.0)
}

/// also: for every operation, whether frame() returned Err (only FailFrame can)
#[allow(clippy::type_complexity)]
fn drive2(p: &Pools, h: usize, w: usize, clear: bool, ops: &[Op]) -> Option<(Vec<Vec<(String, Value)>>, Vec<bool>)> {
    let ops = ops.to_vec();
    let p2: &Pools = p;
    let res = std::panic::catch_unwind(std::panic::AssertUnwindSafe(move || {
        let (mut h, mut w) = (h, w);
        let mut namer = Namer::new(p2);
        let mut term = RecTerm::new(h, w);
        let mut rend = TerminalRenderer::new(&mut term, clear).expect("new");
        let mut drawn = blank_surf(h, w);
        let mut out = vec![];
        let mut failed = vec![];
        for op in &ops {
            term.cmds.clear();
            let mut fail = false;
            match op {
                Op::FailFrame(k) => {
                    term.fail_after = Some(*k);
                    fail = rend.frame(&mut term).is_err();
                    term.fail_after = None;
                }
                Op::Draw(s) => {
                    let mut surf = rend.surface();
                    for (r, row) in s.iter().enumerate() {
                        for (c, cell) in row.iter().enumerate() {
                            if r < h && c < w {
                                surf.set(Position::new(r, c), to_cell(p2, *cell));
                            }
                        }
                    }
                    drawn = s.clone();
                }
                Op::Frame => {
                    rend.frame(&mut term).expect("frame");
                }
                Op::Skip => {
                    rend.surface().clear();
                }
                Op::Clear => {
                    rend.clear(&mut term).expect("clear");
                }
                Op::Renew => {
                    rend.clear(&mut term).expect("clear");
                    rend = TerminalRenderer::new(&mut term, true).expect("new");
                }
                Op::Resize(h2, w2, _) => {
                    // Terminal::run_render on TerminalEvent::Resize
                    term.size = RecTerm::new(*h2, *w2).size;
                    rend.clear(&mut term).expect("clear");
                    rend = TerminalRenderer::new(&mut term, true).expect("new");
                    h = *h2;
                    w = *w2;
                }
            }
            let cmds: Vec<(String, Value)> = term.cmds.iter().map(|c| namer.cmd(c, &drawn)).collect();
            if !matches!(op, Op::Draw(_)) && !fail {
                drawn = blank_surf(h, w);
            }
            out.push(cmds);
            failed.push(fail);
        }
        (out, failed)
    }));
    res.ok()
}

fn face_tables(p: &Pools) -> (String, String, String) {
    let idx = |f: Face| p.faces.iter().position(|x| *x == f).unwrap_or(99);
    (
        clist((0..p.faces.len()).map(|i| format!("({}, {})", i, idx(look_of_space(p.faces[i]))))),
        clist((0..p.faces.len()).map(|i| format!("({}, {})", i, idx(look_of_erased(p.faces[i]))))),
        clist((0..p.faces.len()).filter(|i| !shows_on_blank(p.faces[*i])).map(|i| i.to_string())),
    )
}

fn run(p: &Pools, input: &Value) -> Case {
    if input["kind"].as_str() == Some("loop") {
        let (fsp, fer, ers) = face_tables(p);
        return run_loop(p, input, |chars| clist(chars.iter().map(|c| format!("({}, {})", c, char_width(*c)))), &fsp, &fer, &ers);
    }
    let h = input["h"].as_u64().unwrap_or(1) as usize;
    let w = input["w"].as_u64().unwrap_or(1) as usize;
    let mut ops = ops_parse(&input["ops"]);
    let mut env = Env::new(p, h, w);

    // oracle tables: every character / image / glyph image that occurs
    let mut chars: BTreeSet<u32> = BTreeSet::new();
    chars.insert(0x20);
    let mut glyph_ids: BTreeSet<(u32, u8)> = BTreeSet::new();
    let mut dom = true;
    let mut kinds = (false, false, false);
    let (mut has_wide, mut has_img, mut has_glyph, mut has_shadow_edit) = (false, false, false, false);
    let (h0, w0) = (h, w);
    let (mut h, mut w) = (h, w);
    // reach of Spec.resume_run: a frame of a surface with an image overlap suspends judging, the next
    // forced repaint resumes it, a later frame is judged again
    let (mut drawn_ovl, mut suspended, mut was_suspended, mut judged_again) = (false, false, false, false);
    for op in &ops {
        match op {
            Op::Frame => {
                if drawn_ovl {
                    suspended = true;
                } else if was_suspended && !suspended {
                    judged_again = true;
                }
                drawn_ovl = false;
            }
            Op::Skip => drawn_ovl = false,
            Op::Clear | Op::Renew | Op::Resize(..) => {
                if suspended {
                    was_suspended = true;
                }
                suspended = false;
                drawn_ovl = false;
            }
            Op::Draw(_) | Op::FailFrame(_) => {}
        }
        if let Op::Resize(h2, w2, g) = op {
            h = *h2;
            w = *w2;
            if g.len() != h || g.iter().any(|r| r.len() != w) {
                dom = false;
            }
        }
        if let Op::Draw(s) = op {
            for row in s {
                for c in row {
                    match c.k {
                        0 => {
                            chars.insert(c.v);
                            if env.width(c.v) == 2 {
                                has_wide = true;
                            }
                        }
                        1 => has_img = true,
                        _ => {
                            has_glyph = true;
                            glyph_ids.insert((c.v, c.f));
                        }
                    }
                }
            }
            if !in_domain(&mut env, p, s, h, w) {
                dom = false;
            }
            let k = overlap_kinds(&mut env, p, s, h, w);
            kinds = (kinds.0 | k.0, kinds.1 | k.1, kinds.2 | k.2);
            drawn_ovl = k.0 || k.1;
            for row in s {
                for i in 1..row.len() {
                    if row[i - 1].k == 0 && env.width(row[i - 1].v) == 2 && row[i] != BLANK {
                        has_shadow_edit = true;
                    }
                }
            }
        }
    }
    let (h, w) = (h0, w0);
    let kinds = (dom && kinds.0, dom && kinds.1, dom && kinds.2);
    let overlap = kinds.0 || kinds.1 || kinds.2;
    let widths = clist(chars.iter().map(|c| format!("({}, {})", c, env.width(*c))));
    let mut isizes: Vec<String> =
        env.isize.clone().iter().enumerate().map(|(i, (a, b))| format!("({}, ({}, {}))", i, a, b)).collect();
    for (g, f) in &glyph_ids {
        let (a, b) = env.glyph_size(p, *g, *f);
        isizes.push(format!("({}, ({}, {}))", 1000 + 16 * (*g as u64) + *f as u64, a, b));
    }

    let idx = |f: Face| p.faces.iter().position(|x| *x == f).unwrap_or(99);
    let fsp = clist((0..p.faces.len()).map(|i| format!("({}, {})", i, idx(look_of_space(p.faces[i])))));
    let fer = clist((0..p.faces.len()).map(|i| format!("({}, {})", i, idx(look_of_erased(p.faces[i])))));
    let ers = clist((0..p.faces.len()).filter(|i| !shows_on_blank(p.faces[*i])).map(|i| i.to_string()));

    if input["kind"].as_str() == Some("forced") {
        return run_forced(p, input, &ops, dom && !(kinds.0 || kinds.1), &widths, &clist(isizes), &fsp, &fer, &ers);
    }
    // "fhist": the renderer is created with clear = true on a terminal that still shows a screen and
    // placements of a previous renderer (re-creation without clear()), then the whole history
    let fhist = input["kind"].as_str() == Some("fhist");
    let observed2 = drive2(p, h, w, fhist, &ops);
    if let Some((_, failed)) = &observed2 {
        // a FailFrame whose frame had no more than k commands was an ordinary rendered frame
        for (i, f) in failed.iter().enumerate() {
            if matches!(ops[i], Op::FailFrame(_)) && !*f {
                ops[i] = Op::Frame;
            }
        }
    }
    let observed = observed2.map(|x| x.0);
    let (impl_coq, impl_json, ncmds, has_ech) = match &observed {
        None => ("[[COther]]".to_string(), json!("panic"), 0usize, false),
        Some(per_op) => (
            clist(per_op.iter().map(|cs| clist(cs.iter().map(|(s, _)| s.clone())))),
            Value::Array(per_op.iter().map(|cs| Value::Array(cs.iter().map(|(_, j)| j.clone()).collect())).collect()),
            per_op.iter().map(|c| c.len()).sum(),
            per_op.iter().any(|cs| cs.iter().any(|(s, _)| s.starts_with("ech "))),
        ),
    };
    let ops_coq = clist(ops.iter().map(|o| match o {
        Op::Draw(s) => format!("Draw {}", surf_coq(s)),
        Op::Frame => "Frame".to_string(),
        Op::Skip => "SkipFrame".to_string(),
        Op::Clear => "Clear".to_string(),
        Op::Renew => "Renew".to_string(),
        Op::FailFrame(k) => format!("ffr {}", k),
        Op::Resize(h2, w2, g) => format!("rsz {} {} {}", h2, w2, screen_coq(g)),
    }));
    let nframes = ops.iter().filter(|o| matches!(o, Op::Frame)).count();
    let mut j = json!({"h": h, "w": w, "ops": ops_json(&ops)});
    j["impl"] = impl_json;
    if fhist {
        let screen = screen_parse(&input["screen"]);
        let foreign: Vec<(u64, u64, u64)> = input["foreign"]
            .as_array()
            .map(|a| a.iter().map(|x| (x[0].as_u64().unwrap_or(0), x[1].as_u64().unwrap_or(0), x[2].as_u64().unwrap_or(0))).collect())
            .unwrap_or_default();
        j["kind"] = json!("fhist");
        j["screen"] = input["screen"].clone();
        j["foreign"] = input["foreign"].clone();
        return Case {
            coq: format!(
                "FHist {} {} {} {} {} {} {} {} {} {} {}",
                h, w, widths, clist(isizes), fsp, fer, ers, screen_coq(&screen),
                clist(foreign.iter().map(|(i, r, c)| format!("({}, {}, {})", i, r, c))),
                ops_coq, impl_coq
            ),
            json: j,
            tags: vec![
                "kind=fhist".to_string(),
                format!("domain={}", if dom { "in" } else { "out" }),
                format!("fhist-foreign={}", foreign.len().min(2)),
                format!("frames={}", match nframes { 0 => "0", 1 => "1", 2..=3 => "2-3", _ => "4+" }),
            ],
            nontrivial: nframes >= 2 && ncmds > 0,
        };
    }
    if kinds.0 || kinds.1 {
        let mut tags = vec![];
        // wide characters hiding one another (kinds.2) are inside the theorems: not a known class
        for (on, name) in [(kinds.0, "OverlapImages"), (kinds.1, "OverlapWideImage")] {
            if on {
                tags.push(name);
            }
        }
        j["known_class"] = json!(tags);
    }
    let mut tags = vec![
        format!("cells={}", match h * w { 0..=4 => "1-4", 5..=16 => "5-16", 17..=36 => "17-36", _ => "37-72" }),
        format!("frames={}", match nframes { 0 => "0", 1 => "1", 2..=3 => "2-3", 4..=6 => "4-6", _ => "7+" }),
        format!("domain={}", if dom { "in" } else { "out" }),
    ];
    for (name, on) in [
        ("wide", has_wide),
        ("image", has_img),
        ("glyph", has_glyph),
        ("shadow-content", has_shadow_edit),
        ("overlap-class", overlap),
        ("judged-again-after-overlap", dom && judged_again),
        ("erase-chars", has_ech),
        ("clear", ops.iter().any(|o| matches!(o, Op::Clear))),
        ("renew", ops.iter().any(|o| matches!(o, Op::Renew))),
        ("failed-frame", ops.iter().any(|o| matches!(o, Op::FailFrame(_)))),
        ("failed-frame-then-frame", ops.iter().position(|o| matches!(o, Op::FailFrame(_))).map(|i| ops[i..].iter().any(|o| matches!(o, Op::Frame))).unwrap_or(false)),
        ("resize", ops.iter().any(|o| matches!(o, Op::Resize(..)))),
        ("draw-clear-frame", ops.windows(3).any(|x| matches!(x, [Op::Draw(_), Op::Clear, Op::Frame]))),
        ("skip", ops.iter().any(|o| matches!(o, Op::Skip))),
        ("panic", observed.is_none()),
    ] {
        if on {
            tags.push(format!("has={}", name));
        }
    }
    Case {
        coq: format!(
            "Hist {} {} {} {} {} {} {} {} {} {}",
            h, w, widths, clist(isizes), fsp, fer, ers, ops_coq, impl_coq,
            format!("{} {} {}", cbool(kinds.0), cbool(kinds.1), cbool(kinds.2))
        ),
        json: j,
        tags,
        nontrivial: nframes >= 2 && ncmds > 0,
    }
}

/// C01_forced on the code: a fresh renderer with clear = true, on a terminal that shows an arbitrary
/// screen with placements the renderer does not know of; ops = [Draw s; Frame]
#[allow(clippy::too_many_arguments)]
fn run_forced(
    p: &Pools, input: &Value, ops: &[Op], good: bool, widths: &str, isizes: &str, fsp: &str, fer: &str, ers: &str,
) -> Case {
    let h = input["h"].as_u64().unwrap_or(1) as usize;
    let w = input["w"].as_u64().unwrap_or(1) as usize;
    let screen = screen_parse(&input["screen"]);
    let foreign: Vec<(u64, u64, u64)> = input["foreign"]
        .as_array()
        .map(|a| a.iter().map(|x| (x[0].as_u64().unwrap_or(0), x[1].as_u64().unwrap_or(0), x[2].as_u64().unwrap_or(0))).collect())
        .unwrap_or_default();
    let surf = ops.iter().find_map(|o| if let Op::Draw(s) = o { Some(s.clone()) } else { None }).unwrap_or_else(|| blank_surf(h, w));
    let observed = drive(p, h, w, true, &[Op::Draw(surf.clone()), Op::Frame]);
    let (impl_coq, impl_json) = match &observed {
        None => ("[COther]".to_string(), json!("panic")),
        Some(per_op) => (
            clist(per_op[1].iter().map(|(s, _)| s.clone())),
            Value::Array(per_op[1].iter().map(|(_, j)| j.clone()).collect()),
        ),
    };
    let mut j = input.clone();
    j["impl"] = impl_json;
    Case {
        coq: format!(
            "Forced {} {} {} {} {} {} {} {} {} {} {} {}",
            h, w, widths, isizes, fsp, fer, ers, screen_coq(&screen),
            clist(foreign.iter().map(|(i, r, c)| format!("({}, {}, {})", i, r, c))),
            surf_coq(&surf), impl_coq, cbool(good)
        ),
        json: j,
        tags: vec!["kind=forced".to_string(), format!("domain={}", if good { "in" } else { "out" })],
        nontrivial: observed.map(|o| !o[1].is_empty()).unwrap_or(false),
    }
}

// ---------------------------------------------------------------- the render loop
/// one iteration of Terminal::run_render as scripted by a case
#[derive(Clone, Debug)]
struct It {
    accept: usize,          // chunks the tty takes during this poll
    draw: Surf,             // what the handler draws
    frame: bool,            // TerminalAction::Wait (true) or WaitNoFrame
    pending: Option<usize>, // the answer of frames_pending(); None: the number of pending chunks
    keep: usize,            // chunks at the front of the queue that survive frames_drop()
    resize: bool,           // the poll delivers a Resize event (same size, the terminal keeps its contents)
}

fn its_parse(v: &Value) -> Vec<It> {
    v.as_array()
        .map(|a| {
            a.iter()
                .map(|o| It {
                    accept: o["accept"].as_u64().unwrap_or(0) as usize,
                    draw: surf_parse(&o["cells"]),
                    frame: o["frame"].as_bool().unwrap_or(true),
                    pending: o["pending"].as_u64().map(|x| x as usize),
                    keep: o["keep"].as_u64().unwrap_or(1) as usize,
                    resize: o["resize"].as_bool().unwrap_or(false),
                })
                .collect()
        })
        .unwrap_or_default()
}

fn its_json(its: &[It]) -> Value {
    Value::Array(
        its.iter()
            .map(|i| {
                let mut j = json!({"accept": i.accept, "cells": surf_json(&i.draw), "frame": i.frame, "pending": i.pending, "keep": i.keep});
                if i.resize {
                    j["resize"] = json!(true);
                }
                j
            })
            .collect(),
    )
}

/// A Terminal with an output queue of chunks: the commands executed between two polls form one
/// chunk; at every poll the tty takes as many chunks as the script says; frames_pending() /
/// frames_drop() behave like IOQueue::chunks_count / clear_but_last, or as scripted.
struct LoopTerm {
    size: TerminalSize,
    caps: TerminalCaps,
    its: Vec<It>,
    idx: usize,                         // iteration in progress (advanced by poll)
    cur: Vec<TerminalCommand>,          // commands since the last poll
    dropped: bool,                      // frames_drop() was called since the last poll
    npending: usize,                    // chunks in the queue
    log: Vec<(bool, Vec<TerminalCommand>)>,
}

impl LoopTerm {
    fn close_iteration(&mut self) {
        let cmds = std::mem::take(&mut self.cur);
        if !cmds.is_empty() {
            self.npending += 1;
        }
        self.log.push((self.dropped, cmds));
        self.dropped = false;
    }
}

impl Write for LoopTerm {
    fn write(&mut self, buf: &[u8]) -> std::io::Result<usize> {
        Ok(buf.len())
    }
    fn flush(&mut self) -> std::io::Result<()> {
        Ok(())
    }
}

impl Terminal for LoopTerm {
    fn execute(&mut self, cmd: TerminalCommand) -> Result<(), Error> {
        self.cur.push(cmd);
        Ok(())
    }
    fn poll(&mut self, _timeout: Option<std::time::Duration>) -> Result<Option<TerminalEvent>, Error> {
        // flush: what was issued since the last poll is one chunk of the queue
        if self.idx > 0 || !self.cur.is_empty() {
            self.close_iteration();
        }
        let accept = self.its.get(self.idx).map(|i| i.accept).unwrap_or(0);
        self.npending -= accept.min(self.npending);
        let resize = self.its.get(self.idx).map(|i| i.resize).unwrap_or(false);
        self.idx += 1;
        Ok(if resize { Some(TerminalEvent::Resize(self.size)) } else { None })
    }
    fn size(&self) -> Result<TerminalSize, Error> {
        Ok(self.size)
    }
    fn position(&mut self) -> Result<Position, Error> {
        Ok(Position::new(0, 0))
    }
    fn waker(&self) -> TerminalWaker {
        TerminalWaker::new(|| Ok(()))
    }
    fn frames_pending(&self) -> usize {
        match self.its.get(self.idx.wrapping_sub(1)).and_then(|i| i.pending) {
            Some(n) => n,
            None => self.npending,
        }
    }
    fn frames_drop(&mut self) {
        let keep = self.its.get(self.idx.wrapping_sub(1)).map(|i| i.keep).unwrap_or(1);
        // the queue is the pending chunks followed by the open one (what was written since the last
        // flush); the first `keep` chunks survive (IOQueue::clear_but_last: chunks.drain(1..))
        if keep <= self.npending {
            self.cur.clear();
        }
        self.npending = self.npending.min(keep);
        self.dropped = true;
    }
    fn dyn_ref(&mut self) -> &mut dyn Terminal {
        self
    }
    fn capabilities(&self) -> &TerminalCaps {
        &self.caps
    }
}

/// run the REAL Terminal::run_render with a scripted handler; one (dropped, commands) per iteration
fn drive_loop(p: &Pools, h: usize, w: usize, its: &[It]) -> Option<Vec<(bool, Vec<(String, Value)>)>> {
    let its_v = its.to_vec();
    let res = std::panic::catch_unwind(std::panic::AssertUnwindSafe(move || {
        let mut term = LoopTerm {
            size: RecTerm::new(h, w).size,
            caps: TerminalCaps::default(),
            its: its_v.clone(),
            idx: 0,
            cur: vec![],
            dropped: false,
            npending: 0,
            log: vec![],
        };
        let n = its_v.len();
        let mut k = 0usize;
        let r: Result<(), Error> = term.run_render(|_term, _event, mut surf| {
            let it = &its_v[k];
            for (r, row) in it.draw.iter().enumerate() {
                for (c, cell) in row.iter().enumerate() {
                    if r < h && c < w {
                        surf.set(Position::new(r, c), to_cell(p, *cell));
                    }
                }
            }
            k += 1;
            Ok(if k == n {
                TerminalAction::Quit(())
            } else if it.frame {
                TerminalAction::Wait
            } else {
                TerminalAction::WaitNoFrame
            })
        });
        r.expect("run_render");
        term.close_iteration();
        let mut namer = Namer::new(p);
        term.log
            .iter()
            .enumerate()
            .map(|(i, (d, cmds))| (*d, cmds.iter().map(|c| namer.cmd(c, &its_v[i].draw)).collect()))
            .collect::<Vec<_>>()
    }));
    res.ok()
}

/// the image a cell displays, as numbered on the Coq side
fn image_id(c: C) -> Option<u64> {
    match c.k {
        1 => Some(c.v as u64),
        2 => Some(1000 + 16 * c.v as u64 + c.f as u64),
        _ => None,
    }
}

/// class DroppedImageErase: at some drop the terminal (after what survives) shows an image that the
/// last issued frame does not have (mirrors Render/Loop.v stale_after_drop)
fn stale_session(its: &[It], out: &[(bool, Vec<(String, Value)>)]) -> bool {
    fn apply(pl: &mut HashSet<(u64, u64, u64)>, cmds: &[Value]) {
        for c in cmds {
            match c[0].as_str().unwrap_or("") {
                "image" => {
                    pl.insert((c[1].as_u64().unwrap_or(0), c[2].as_u64().unwrap_or(0), c[3].as_u64().unwrap_or(0)));
                }
                "image_erase" => {
                    let i = c[1].as_u64().unwrap_or(0);
                    if c.as_array().map(|a| a.len()).unwrap_or(0) >= 4 {
                        pl.remove(&(i, c[2].as_u64().unwrap_or(0), c[3].as_u64().unwrap_or(0)));
                    } else {
                        pl.retain(|x| x.0 != i);
                    }
                }
                _ => {}
            }
        }
    }
    let mut placed: HashSet<(u64, u64, u64)> = HashSet::new();
    let mut q: VecDeque<Vec<Value>> = VecDeque::new();
    let mut last: Option<&Surf> = None;
    let mut stale = false;
    for (it, (dropped, cmds)) in its.iter().zip(out.iter()) {
        for _ in 0..it.accept.min(q.len()) {
            let c = q.pop_front().unwrap();
            apply(&mut placed, &c);
        }
        if *dropped {
            q.truncate(it.keep);
            let mut v = placed.clone();
            for c in &q {
                apply(&mut v, c);
            }
            for (i, r, c) in v {
                let cell = last.and_then(|s| s.get(r as usize)).and_then(|row| row.get(c as usize)).copied();
                if cell.and_then(image_id) != Some(i) {
                    stale = true;
                }
            }
            last = None; // clear(): the back buffer is blank
        }
        if it.resize {
            last = None; // clear() and a new renderer
        }
        if !cmds.is_empty() {
            q.push_back(cmds.iter().map(|(_, j)| j.clone()).collect());
        }
        if it.frame {
            last = Some(&it.draw);
        }
    }
    stale
}

#[allow(clippy::too_many_arguments)]
fn run_loop(p: &Pools, input: &Value, widths_of: impl Fn(&BTreeSet<u32>) -> String, fsp: &str, fer: &str, ers: &str) -> Case {
    let h = input["h"].as_u64().unwrap_or(1) as usize;
    let w = input["w"].as_u64().unwrap_or(1) as usize;
    let mut its = its_parse(&input["its"]);
    if let Some(l) = its.last_mut() {
        l.frame = true; // the session ends with TerminalAction::Quit, which renders a frame
    }
    let mut env = Env::new(p, h, w);
    let mut chars: BTreeSet<u32> = BTreeSet::new();
    chars.insert(0x20);
    let mut glyph_ids: BTreeSet<(u32, u8)> = BTreeSet::new();
    let mut good = true;
    for it in &its {
        for row in &it.draw {
            for c in row {
                match c.k {
                    0 => {
                        chars.insert(c.v);
                    }
                    2 => {
                        glyph_ids.insert((c.v, c.f));
                    }
                    _ => {}
                }
            }
        }
        let k = overlap_kinds(&mut env, p, &it.draw, h, w);
        if !in_domain(&mut env, p, &it.draw, h, w) || k.0 || k.1 {
            good = false;
        }
    }
    let mut isizes: Vec<String> =
        env.isize.clone().iter().enumerate().map(|(i, (a, b))| format!("({}, ({}, {}))", i, a, b)).collect();
    for (g, f) in &glyph_ids {
        let (a, b) = env.glyph_size(p, *g, *f);
        isizes.push(format!("({}, ({}, {}))", 1000 + 16 * (*g as u64) + *f as u64, a, b));
    }
    let observed = if its.is_empty() { Some(vec![]) } else { drive_loop(p, h, w, &its) };
    let stale = good && observed.as_ref().map(|o| stale_session(&its, o)).unwrap_or(false);
    let (impl_coq, impl_json, ndrops) = match &observed {
        None => ("[(false, [COther])]".to_string(), json!("panic"), 0),
        Some(out) => (
            clist(out.iter().map(|(d, cs)| format!("({}, {})", cbool(*d), clist(cs.iter().map(|(s, _)| s.clone()))))),
            Value::Array(out.iter().map(|(d, cs)| json!([d, Value::Array(cs.iter().map(|(_, j)| j.clone()).collect())])).collect()),
            out.iter().filter(|(d, _)| *d).count(),
        ),
    };
    let its_coq = clist(its.iter().map(|i| {
        format!(
            "itr {} {} {} {} {} {}",
            i.accept,
            surf_coq(&i.draw),
            cbool(i.frame),
            match i.pending { Some(n) => format!("(Some {})", n), None => "None".to_string() },
            i.keep,
            cbool(i.resize)
        )
    }));
    let mut j = json!({"kind": "loop", "h": h, "w": w, "its": its_json(&its)});
    j["impl"] = impl_json;
    if stale {
        j["known_class"] = json!(["DroppedImageErase"]);
    }
    Case {
        coq: format!(
            "Loop {} {} {} {} {} {} {} {} {} {} {}",
            h, w, widths_of(&chars), clist(isizes), fsp, fer, ers, its_coq, impl_coq, cbool(good), cbool(stale)
        ),
        json: j,
        tags: vec![
            "kind=loop".to_string(),
            format!("loop-iterations={}", match its.len() { 0..=5 => "1-5", 6..=12 => "6-12", 13..=33 => "13-33", _ => "34+" }),
            format!("loop-drops={}", match ndrops { 0 => "0", 1 => "1", _ => "2+" }),
            format!("loop-stale={}", stale),
            format!("loop-resize={}", match (its.iter().any(|i| i.resize), observed.as_ref().map(|o| o.iter().zip(its.iter()).any(|((d, _), i)| *d && i.resize)).unwrap_or(false)) {
                (_, true) => "with-drop",
                (true, false) => "yes",
                _ => "no",
            }),
        ],
        nontrivial: ndrops > 0,
    }
}

// ---------------------------------------------------------------- generators
/// the integer constants written in the renderer's sources and their neighbours (harvested at run time):
/// widths, run lengths, gap lengths and segment lengths are aimed at them, so that a threshold a change
/// introduces is reached without knowing it in advance
fn bounds() -> &'static Vec<u64> {
    static B: std::sync::OnceLock<Vec<u64>> = std::sync::OnceLock::new();
    B.get_or_init(|| {
        let mut v = source_boundaries(&["src/render.rs", "src/surface.rs", "src/terminal.rs"], 34);
        if v.is_empty() {
            v = vec![0, 1, 2, 3, 4, 5];
        }
        v
    })
}

struct Gen<'a> {
    p: &'a Pools,
    env: Env,
    h: usize,
    w: usize,
    mode: u8,   // 0: keep surfaces overlap-free, 1: wide characters may hide one another, 2: any overlap
    ood: bool,  // allow zero-width characters and a wide character in the last column
}

impl<'a> Gen<'a> {
    fn face(&self, rng: &mut Rng) -> u8 {
        if rng.chance(1, 40) {
            (NFACES - 1) as u8
        } else if rng.chance(2, 5) {
            0
        } else {
            rng.below(NFACES - 1) as u8
        }
    }
    fn narrow(&self, rng: &mut Rng) -> C {
        let v = if self.ood && rng.chance(1, 4) { *rng.pick(&ZERO) } else { *rng.pick(&NARROW) };
        C { k: 0, f: self.face(rng), v }
    }
    fn cells_where(&self, s: &Surf, f: impl Fn(&C) -> bool) -> Vec<(usize, usize)> {
        let mut v = vec![];
        for (r, row) in s.iter().enumerate() {
            for (c, x) in row.iter().enumerate() {
                if f(x) {
                    v.push((r, c));
                }
            }
        }
        v
    }
    fn is_wide(&self, c: &C) -> bool {
        c.k == 0 && self.env.width(c.v) == 2
    }

    fn edit(&mut self, rng: &mut Rng, s: &mut Surf) {
        let (h, w) = (self.h, self.w);
        let r = rng.below(h as u64) as usize;
        let c = rng.below(w as u64) as usize;
        match rng.below(23) {
            19 | 20 => {
                // a segment of boundary length in one face: narrow characters, blanks, now and then a wide one
                let len = (*rng.pick(bounds()) as usize + 2).min(w);
                let start = c.min(w - len);
                let f = if rng.chance(1, 2) { 0 } else { self.face(rng) };
                let mut col = start;
                while col < start + len {
                    if col + 2 <= start + len && rng.chance(1, 4) {
                        s[r][col] = C { k: 0, f, v: *rng.pick(&WIDE) };
                        s[r][col + 1] = C { k: 0, f, v: 0x20 };
                        col += 2;
                    } else {
                        s[r][col] = C { k: 0, f, v: *rng.pick(&NARROW) };
                        col += 1;
                    }
                }
            }
            21 | 22 => {
                // two cells of a row change, the gap between them (of boundary length) does not; preferably where
                // the two cells and the whole gap are characters of one face
                let g = *rng.pick(bounds()) as usize;
                if g + 2 <= w {
                    let mut cands = vec![];
                    for (rr, row) in s.iter().enumerate() {
                        for cc in 0..=(w - g - 2) {
                            let seg = &row[cc..cc + g + 2];
                            if seg.iter().all(|x| x.k == 0 && x.f == seg[0].f) && !self.is_wide(&seg[g + 1]) {
                                cands.push((rr, cc));
                            }
                        }
                    }
                    let (rr, cc) = if cands.is_empty() { (r, c.min(w - g - 2)) } else { *rng.pick(&cands) };
                    for col in [cc, cc + g + 1] {
                        let old = s[rr][col];
                        if old.k == 0 && !self.is_wide(&old) {
                            let mut v = *rng.pick(&NARROW);
                            if v == old.v {
                                v = if v == 0x78 { 0x61 } else { 0x78 };
                            }
                            s[rr][col] = C { k: 0, f: old.f, v };
                        }
                    }
                }
            }
            0 | 1 => s[r][c] = self.narrow(rng),
            18 if self.mode != 0 => {
                // a wide character directly before or behind another one
                let ws = self.cells_where(s, |x| self.is_wide(x));
                if !ws.is_empty() {
                    let (r, c) = *rng.pick(&ws);
                    let c2 = if rng.chance(1, 2) { c + 1 } else { c.saturating_sub(1) };
                    if c2 + 2 <= w {
                        s[r][c2] = C { k: 0, f: self.face(rng), v: *rng.pick(&WIDE) };
                    }
                }
            }
            2 | 3 => {
                // a wide character
                if w >= 2 || self.ood {
                    let col = if self.ood && rng.chance(1, 3) { w - 1 } else { rng.below((w.max(2) - 1) as u64) as usize };
                    s[r][col.min(w - 1)] = C { k: 0, f: self.face(rng), v: *rng.pick(&WIDE) };
                }
            }
            4 => {
                // a wide character becomes narrow / blank
                let ws = self.cells_where(s, |x| self.is_wide(x));
                if !ws.is_empty() {
                    let (r, c) = *rng.pick(&ws);
                    s[r][c] = if rng.chance(1, 3) { BLANK } else { self.narrow(rng) };
                }
            }
            5 | 6 => {
                // the cell behind a wide character
                let ws = self.cells_where(s, |x| self.is_wide(x));
                if !ws.is_empty() {
                    let (r, c) = *rng.pick(&ws);
                    if c + 1 < w {
                        s[r][c + 1] = self.narrow(rng);
                    }
                }
            }
            7 | 8 => {
                let f = if rng.chance(1, 2) { 0 } else { self.face(rng) };
                s[r][c] = C { k: 1, f, v: rng.below(NIMAGES) as u32 };
            }
            9 => {
                // remove or move an image / glyph
                let is = self.cells_where(s, |x| x.k != 0);
                if !is.is_empty() {
                    let (r, c) = *rng.pick(&is);
                    let x = s[r][c];
                    s[r][c] = if rng.chance(1, 2) { BLANK } else { self.narrow(rng) };
                    if rng.chance(1, 2) {
                        let r2 = (r + rng.below(2) as usize).min(h - 1);
                        let c2 = (c + rng.below(2) as usize).min(w - 1);
                        s[r2][c2] = x;
                    }
                }
            }
            10 | 16 | 17 => {
                // a cell under an image / glyph: anywhere in its rectangle
                let is = self.cells_where(s, |x| x.k != 0);
                if !is.is_empty() {
                    let (r, c) = *rng.pick(&is);
                    let owner = s[r][c];
                    if let Some((eh, ew)) = self.env.extent(self.p, owner) {
                        let r2 = (r + rng.below(eh.max(1) as u64) as usize).min(h - 1);
                        let c2 = (c + rng.below(ew.max(1) as u64) as usize).min(w - 1);
                        if (r2, c2) != (r, c) {
                            s[r2][c2] = self.narrow(rng);
                        }
                    }
                }
            }
            11 | 12 => {
                // a run of blanks around the EraseChars threshold
                let len = if rng.chance(1, 3) { (*rng.pick(bounds()) as usize).max(1) } else { 3 + rng.below(5) as usize };
                let f = if rng.chance(1, 2) { 0 } else { self.face(rng) };
                let start = if rng.chance(1, 3) { w.saturating_sub(len) } else { c };
                for col in start..(start + len).min(w) {
                    s[r][col] = C { k: 0, f, v: 0x20 };
                }
            }
            13 => {
                // the last column
                s[r][w - 1] = if self.ood && rng.chance(1, 2) {
                    C { k: 0, f: self.face(rng), v: *rng.pick(&WIDE) }
                } else {
                    self.narrow(rng)
                };
            }
            14 => s[r][c] = C { k: 2, f: self.face(rng), v: rng.below(NGLYPHS) as u32 },
            _ => s[r][c].f = self.face(rng),
        }
    }

    /// make an image share a cell with another image or with a wide character (in the domain)
    fn force_overlap(&mut self, rng: &mut Rng, s: &mut Surf) {
        let (h, w) = (self.h, self.w);
        for _ in 0..8 {
            let before = s.clone();
            let r = rng.below(h as u64) as usize;
            let c = rng.below(w as u64) as usize;
            s[r][c] = C { k: 1, f: self.face(rng), v: rng.below(NIMAGES) as u32 };
            let r2 = (r + rng.below(2) as usize).min(h - 1);
            let c2 = if rng.chance(1, 3) { c.saturating_sub(1) } else { (c + rng.below(2) as usize).min(w - 1) };
            if (r2, c2) != (r, c) {
                s[r2][c2] = if rng.chance(1, 2) {
                    C { k: 1, f: self.face(rng), v: rng.below(NIMAGES) as u32 }
                } else {
                    C { k: 0, f: self.face(rng), v: *rng.pick(&WIDE) }
                };
            }
            let k = overlap_kinds(&mut self.env, self.p, s, h, w);
            if (k.0 || k.1) && in_domain(&mut self.env, self.p, s, h, w) {
                return;
            }
            *s = before;
        }
    }

    fn next_surface(&mut self, rng: &mut Rng, prev: &Surf) -> Surf {
        let mut s = if rng.chance(1, 8) { blank_surf(self.h, self.w) } else { prev.clone() };
        if rng.chance(1, 10) {
            return s; // an identical frame
        }
        let n = 1 + rng.below(5);
        for _ in 0..n {
            let before = s.clone();
            self.edit(rng, &mut s);
            let k = overlap_kinds(&mut self.env, self.p, &s, self.h, self.w);
            let bad = (self.mode == 0 && k != (false, false, false))
                || (self.mode == 1 && (k.0 || k.1))
                || (!self.ood && !in_domain(&mut self.env, self.p, &s, self.h, self.w));
            if bad {
                s = before;
            }
        }
        s
    }
}

fn gen_fhist(rng: &mut Rng, p: &Pools) -> Value {
    let mut v = gen_history(rng, p);
    let h = v["h"].as_u64().unwrap_or(1) as usize;
    let w = v["w"].as_u64().unwrap_or(1) as usize;
    let nf = rng.below(4);
    let foreign: Vec<Value> = (0..nf)
        .map(|_| {
            let i = if rng.chance(2, 3) { rng.below(NIMAGES) } else { 777 };
            json!([i, rng.below(h as u64), rng.below(w as u64)])
        })
        .collect();
    v["kind"] = json!("fhist");
    v["screen"] = screen_json(&gen_screen(rng, p, h, w));
    v["foreign"] = json!(foreign);
    v
}

fn gen_history(rng: &mut Rng, p: &Pools) -> Value {
    let mut h = if rng.chance(1, 3) { 1 + rng.below(2) as usize } else { 1 + rng.below(6) as usize };
    let mut w = if rng.chance(1, 4) { 1 + rng.below(3) as usize } else { 1 + rng.below(12) as usize };
    if rng.chance(1, 10) {
        // a width at a boundary of the source (up to 35 columns), few rows
        w = (*rng.pick(bounds()) as usize + rng.below(2) as usize).max(1);
        h = 1 + rng.below(2) as usize;
    }
    let mut mode = match rng.below(8) {
        0 => 2,
        1 => 1,
        _ => 0,
    };
    let ood = rng.chance(1, 16);
    let mut g = Gen { p, env: Env::new(p, h, w), h, w, mode, ood };
    let (h0, w0) = (h, w);
    let mut n = 1 + rng.below(12) as usize;
    // half of the histories with image overlaps go on without overlaps after a forced repaint: the
    // frames after it are judged again (Spec.resume_run)
    let mut resume_at = if mode == 2 && rng.chance(1, 2) { Some(1 + rng.below(n as u64) as usize) } else { None };
    let mut ops: Vec<Op> = vec![];
    let mut prev = blank_surf(h, w);
    let mut seen_overlap_frame = false;
    while ops.len() < n {
        if resume_at.is_some() && !seen_overlap_frame && rng.chance(1, 2) {
            let mut s = g.next_surface(rng, &prev);
            g.force_overlap(rng, &mut s);
            let k = overlap_kinds(&mut g.env, p, &s, g.h, g.w);
            seen_overlap_frame = k.0 || k.1;
            prev = s.clone();
            ops.push(Op::Draw(s));
            ops.push(Op::Frame);
            continue;
        }
        if seen_overlap_frame && resume_at.map(|k| ops.len() >= k).unwrap_or(false) {
            resume_at = None;
            mode = rng.below(2) as u8;
            n = ops.len() + 3 + rng.below(5) as usize;
            match rng.below(3) {
                0 => ops.push(Op::Clear),
                1 => ops.push(Op::Renew),
                _ => {
                    let h2 = 1 + rng.below(5) as usize;
                    let w2 = 1 + rng.below(9) as usize;
                    ops.push(Op::Resize(h2, w2, gen_screen(rng, p, h2, w2)));
                    g = Gen { p, env: Env::new(p, h2, w2), h: h2, w: w2, mode, ood };
                }
            }
            g.mode = mode;
            prev = blank_surf(g.h, g.w);
            continue;
        }
        match rng.below(20) {
            0 => ops.push(Op::Clear),
            1 => ops.push(Op::Renew),
            2 => {
                let s = g.next_surface(rng, &prev);
                ops.push(Op::Draw(s));
                ops.push(Op::Skip);
            }
            3 => ops.push(Op::Frame), // a frame with nothing drawn
            7 if rng.chance(1, 2) => {
                // the terminal fails in the middle of a frame (frame() returns Err); usually the application
                // then draws and renders again
                let s = g.next_surface(rng, &prev);
                prev = s.clone();
                ops.push(Op::Draw(s));
                ops.push(Op::FailFrame(if rng.chance(1, 4) { 0 } else { rng.below(14) as usize }));
                if rng.chance(3, 4) {
                    let s2 = g.next_surface(rng, &prev);
                    prev = s2.clone();
                    ops.push(Op::Draw(s2));
                    ops.push(Op::Frame);
                }
            }
            6 if rng.chance(1, 2) => {
                // the terminal is resized and shows whatever it likes
                let h2 = 1 + rng.below(5) as usize;
                let w2 = 1 + rng.below(9) as usize;
                ops.push(Op::Resize(h2, w2, gen_screen(rng, p, h2, w2)));
                g = Gen { p, env: Env::new(p, h2, w2), h: h2, w: w2, mode, ood };
                prev = blank_surf(h2, w2);
            }
            4 => {
                // clear() between the drawing and the frame: clear() resets the surface, the frame shows nothing
                let s = g.next_surface(rng, &prev);
                prev = s.clone();
                ops.push(Op::Draw(s));
                ops.push(Op::Clear);
                ops.push(Op::Frame);
            }
            5 => {
                // drawn twice, or drawn and then the renderer is re-created
                let s = g.next_surface(rng, &prev);
                ops.push(Op::Draw(s));
                if rng.chance(1, 2) {
                    let s2 = g.next_surface(rng, &prev);
                    prev = s2.clone();
                    ops.push(Op::Draw(s2));
                    ops.push(Op::Frame);
                } else {
                    ops.push(Op::Renew);
                }
            }
            _ => {
                let s = g.next_surface(rng, &prev);
                prev = s.clone();
                ops.push(Op::Draw(s));
                ops.push(Op::Frame);
            }
        }
    }
    json!({"h": h0, "w": w0, "ops": ops_json(&ops)})
}

fn gen_loop(rng: &mut Rng, p: &Pools) -> Value {
    let long = rng.chance(1, 6);
    let h = 1 + rng.below(if long { 2 } else { 3 }) as usize;
    let w = 1 + rng.below(if long { 4 } else { 7 }) as usize;
    let mut g = Gen { p, env: Env::new(p, h, w), h, w, mode: rng.below(2) as u8, ood: false };
    let n = if long { 34 + rng.below(6) as usize } else { 2 + rng.below(9) as usize };
    // a long session lets the queue fill up to the real threshold; short ones script the answer
    let stall_from = rng.below(4) as usize;
    let mut prev = blank_surf(h, w);
    let mut its = vec![];
    for i in 0..n {
        let s = g.next_surface(rng, &prev);
        let frame = !rng.chance(1, 7);
        if frame {
            prev = s.clone();
        }
        let accept = if long {
            if i < stall_from { 1 + rng.below(2) as usize } else if rng.chance(1, 25) { 1 } else { 0 }
        } else if rng.chance(1, 2) { 0 } else { rng.below(4) as usize };
        let pending = if long || !rng.chance(1, 3) { None } else { Some(if rng.chance(3, 4) { 33 + rng.below(3) as usize } else { 32 }) };
        let keep = if long || rng.chance(1, 2) { 1 } else { rng.below(4) as usize };
        // a Resize event now and then, more often when frames are being dropped
        let resize = rng.chance(1, if pending.is_some() { 3 } else { 12 });
        its.push(It { accept, draw: s, frame, pending, keep, resize });
    }
    json!({"kind": "loop", "h": h, "w": w, "its": its_json(&its)})
}

fn gen_forced(rng: &mut Rng, p: &Pools) -> Value {
    let h = 1 + rng.below(5) as usize;
    let w = 1 + rng.below(10) as usize;
    let mut g = Gen { p, env: Env::new(p, h, w), h, w, mode: rng.below(2) as u8, ood: false };
    let s1 = g.next_surface(rng, &blank_surf(h, w));
    let s = g.next_surface(rng, &s1);
    let nf = rng.below(3);
    let foreign: Vec<Value> = (0..nf)
        .map(|_| {
            let i = if rng.chance(1, 2) { rng.below(NIMAGES) } else { 777 };
            json!([i, rng.below(h as u64), rng.below(w as u64)])
        })
        .collect();
    json!({"kind": "forced", "h": h, "w": w, "screen": screen_json(&gen_screen(rng, p, h, w)), "foreign": foreign,
           "ops": ops_json(&[Op::Draw(s), Op::Frame])})
}

pub fn generate(rng: &mut Rng, n: usize, _tier: &str) -> Vec<Value> {
    let p = pools();
    // the shared generator's streams for neighbouring seeds are shifts of one another; re-seed
    // from its (well mixed) first output so that different VERIF_SEEDs give unrelated histories
    let mut rng = Rng(rng.next());
    (0..n)
        .map(|_| match rng.below(12) {
            0 => {
                if rng.chance(1, 2) {
                    gen_forced(&mut rng, &p)
                } else {
                    gen_fhist(&mut rng, &p)
                }
            }
            1 => gen_loop(&mut rng, &p),
            _ => gen_history(&mut rng, &p),
        })
        .collect()
}

/// the operations before the first Draw of a surface with overlapping objects
fn overlap_free_prefix(p: &Pools, input: &Value) -> Option<Value> {
    if input["kind"].as_str().is_some() {
        return None;
    }
    let h0 = input["h"].as_u64().unwrap_or(1) as usize;
    let w0 = input["w"].as_u64().unwrap_or(1) as usize;
    let (mut h, mut w) = (h0, w0);
    let ops = ops_parse(&input["ops"]);
    let mut env = Env::new(p, h, w);
    let mut cut = None;
    for (i, o) in ops.iter().enumerate() {
        match o {
            Op::Resize(h2, w2, _) => {
                h = *h2;
                w = *w2;
            }
            Op::Draw(s) => {
                if s.len() == h && s.iter().all(|r| r.len() == w) && { let k = overlap_kinds(&mut env, p, s, h, w); k.0 || k.1 } {
                    cut = Some(i);
                    break;
                }
            }
            _ => {}
        }
    }
    let cut = cut?;
    if cut == 0 {
        return None;
    }
    Some(json!({"h": h0, "w": w0, "ops": ops_json(&ops[..cut])}))
}

pub fn batch(inputs: &[Value]) -> Batch {
    let p = pools();
    let mut cases = vec![];
    for i in inputs {
        // a history with overlapping objects is judged as a whole under its known class, and
        // (as a separate, unclassified case) up to the first overlapping surface
        if let Some(prefix) = overlap_free_prefix(&p, i) {
            cases.push(run(&p, &prefix));
        }
        cases.push(run(&p, i));
    }
    Batch {
        prop: "C01",
        coq_import: "Corr.C01Corr",
        case_type: "c01_case",
        report_fn: "c01_report",
        rule: "history with at least two frames in which the renderer issued at least one command; distinct by (size, operations)",
        cases,
        preamble: String::new(),
    }
}
