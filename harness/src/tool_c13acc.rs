//! `snt_harness tool c13acc <pixels> <r> <g> <b>`: insert `pixels` copies of one colour into an OcTree through
//! the public API (what ColorPalette::from_image does for an image of that many pixels that is not
//! sub-sampled), then build the palette.  Prints `ok r g b` (the single palette colour), `panic` or
//! `wrong ...`.  Used by props.d/C13.py to confirm the overflowing image computed from the declared
//! accumulator widths (Gen/TabOctree.v) when those widths are too narrow for 2^56 pixels.
// requires: c13
use surf_n_term::image::OcTree;
use surf_n_term::{Color, RGBA};

pub fn main(args: &[String]) -> i32 {
    let n: u64 = args.first().and_then(|s| s.parse().ok()).unwrap_or(0);
    let ch = |i: usize| args.get(i).and_then(|s| s.parse::<u8>().ok()).unwrap_or(255);
    let (r, g, b) = (ch(1), ch(2), ch(3));
    std::panic::set_hook(Box::new(|_| {}));
    let res = std::panic::catch_unwind(move || {
        let mut tree = OcTree::new();
        let c = RGBA::new(r, g, b, 255);
        for _ in 0..n {
            tree.insert(c);
        }
        tree.build_palette().iter().map(|c| c.to_rgb()).collect::<Vec<_>>()
    });
    match res {
        Err(_) => println!("panic"),
        Ok(p) if p == vec![[r, g, b]] => println!("ok {} {} {}", r, g, b),
        Ok(p) => println!("wrong {:?}", p),
    }
    0
}
