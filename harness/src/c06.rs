//! C06: TTYEncoder (true colour) -> TTYCommandDecoder round trip, FaceModify::apply,
//! and CellWrite::tty_writer into a recording CellWrite, all under chunkings.
use crate::util::*;
use serde_json::{json, Value};
use std::hash::{Hash, Hasher};
use std::io::{Cursor, Write};
use surf_n_term::decoder::{Decoder, TTYCommandDecoder};
use surf_n_term::encoder::{ColorDepth, Encoder, TTYEncoder};
use surf_n_term::view::{Text, ViewContext};
use surf_n_term::{Position, Size, Surface, SurfaceOwned, TerminalWriter};
use surf_n_term::{
    Cell, CellWrite, Color, Face, FaceAttrs, FaceModify, TerminalCaps, TerminalCommand, UnderlineStyle, RGBA,
};

// ---------------------------------------------------------------- observation

struct Capture(Vec<u8>);
impl Hasher for Capture {
    fn finish(&self) -> u64 {
        0
    }
    fn write(&mut self, bytes: &[u8]) {
        self.0.extend_from_slice(bytes)
    }
}

/// raw `bits` of FaceAttrs, through the derived Hash (u16 -> write_u16 -> write(ne_bytes))
fn attr_bits(a: FaceAttrs) -> u16 {
    let mut h = Capture(vec![]);
    a.hash(&mut h);
    if h.0.len() == 2 {
        u16::from_ne_bytes([h.0[0], h.0[1]])
    } else {
        u16::MAX
    }
}

const STYLES: [UnderlineStyle; 6] = [
    UnderlineStyle::None,
    UnderlineStyle::Straight,
    UnderlineStyle::Double,
    UnderlineStyle::Curly,
    UnderlineStyle::Dotted,
    UnderlineStyle::Dashed,
];
const STYLE_NAMES: [&str; 6] = ["UNone", "UStraight", "UDouble", "UCurly", "UDotted", "UDashed"];

fn style_index(u: UnderlineStyle) -> usize {
    STYLES.iter().position(|s| *s == u).unwrap_or(0)
}

fn mk_attrs(ul: usize, flags: u64) -> FaceAttrs {
    let mut a = FaceAttrs::EMPTY;
    a = a
        | match ul {
            1 => FaceAttrs::UNDERLINE,
            2 => FaceAttrs::UNDERLINE_DOUBLE,
            3 => FaceAttrs::UNDERLINE_CURLY,
            4 => FaceAttrs::UNDERLINE_DOTTED,
            5 => FaceAttrs::UNDERLINE_DASHED,
            _ => FaceAttrs::EMPTY,
        };
    // underline bit patterns 6 / 7 exist only through the raw `|=` (4|2, 5|2)
    if ul == 6 {
        a = FaceAttrs::UNDERLINE_DOTTED;
        a |= FaceAttrs::UNDERLINE_DOUBLE;
    } else if ul == 7 {
        a = FaceAttrs::UNDERLINE_DASHED;
        a |= FaceAttrs::UNDERLINE_DOUBLE;
    }
    for (i, f) in [FaceAttrs::BOLD, FaceAttrs::ITALIC, FaceAttrs::BLINK, FaceAttrs::REVERSE, FaceAttrs::STRIKE]
        .iter()
        .enumerate()
    {
        if flags & (1 << i) != 0 {
            a = a | *f;
        }
    }
    a
}

fn v_color(v: &Value) -> Option<RGBA> {
    let a = v.as_array()?;
    let g = |i: usize| a.get(i).and_then(|x| x.as_u64()).unwrap_or(0) as u8;
    Some(RGBA::new(g(0), g(1), g(2), g(3)))
}

fn v_face(v: &Value) -> Face {
    Face::new(
        v_color(&v["fg"]),
        v_color(&v["bg"]),
        mk_attrs(v["ul"].as_u64().unwrap_or(0) as usize, v["flags"].as_u64().unwrap_or(0)),
    )
}

fn v_modify(v: &Value) -> FaceModify {
    FaceModify {
        reset: v["reset"].as_bool().unwrap_or(false),
        fg: v_color(&v["fg"]),
        bg: v_color(&v["bg"]),
        underline: v["ul"].as_u64().map(|u| STYLES[(u as usize).min(5)]),
        underline_color: v_color(&v["uc"]),
        bold: v["bold"].as_bool(),
        italic: v["italic"].as_bool(),
        blink: v["blink"].as_bool(),
        strike: v["strike"].as_bool(),
    }
}

fn c_color(c: Option<RGBA>) -> String {
    match c {
        None => "None".into(),
        Some(c) => {
            let [r, g, b, a] = c.to_rgba();
            format!("(Some (RGBA {} {} {} {}))", r, g, b, a)
        }
    }
}
fn c_face(f: &Face) -> String {
    format!("(mkFace {} {} {})", c_color(f.fg), c_color(f.bg), attr_bits(f.attrs))
}
fn c_obs(f: &Face) -> String {
    let a = f.attrs;
    format!(
        "(OF {} {} {} {} {} {} {} {} {})",
        c_color(f.fg),
        c_color(f.bg),
        attr_bits(a),
        STYLE_NAMES[style_index(a.underline())],
        cbool(a.contains(FaceAttrs::BOLD)),
        cbool(a.contains(FaceAttrs::ITALIC)),
        cbool(a.contains(FaceAttrs::BLINK)),
        cbool(a.contains(FaceAttrs::REVERSE)),
        cbool(a.contains(FaceAttrs::STRIKE)),
    )
}
fn c_optbool(b: Option<bool>) -> String {
    match b {
        None => "None".into(),
        Some(b) => format!("(Some {})", cbool(b)),
    }
}
fn c_modify(m: &FaceModify) -> String {
    format!(
        "(mkFM {} {} {} {} {} {} {} {} {})",
        cbool(m.reset),
        c_color(m.fg),
        c_color(m.bg),
        match m.underline {
            None => "None".to_string(),
            Some(u) => format!("(Some {})", STYLE_NAMES[style_index(u)]),
        },
        c_color(m.underline_color),
        c_optbool(m.bold),
        c_optbool(m.italic),
        c_optbool(m.blink),
        c_optbool(m.strike),
    )
}
fn c_cmd(c: &TerminalCommand) -> String {
    match c {
        TerminalCommand::FaceModify(m) => format!("(CmdFaceModify {})", c_modify(m)),
        TerminalCommand::Face(f) => format!("(CmdFace {})", c_face(f)),
        TerminalCommand::Char(c) => format!("(CmdChar {})", *c as u32),
        TerminalCommand::Raw(b) => format!("(CmdRaw {})", cbytes(b)),
        // TTYCommandDecoder has no matcher producing anything else
        _ => "(CmdFace (mkFace None None 65535))".to_string(),
    }
}
fn j_face(f: &Face) -> Value {
    json!(format!("{:?} bits={}", f, attr_bits(f.attrs)))
}

// ---------------------------------------------------------------- running the implementation

fn encode(cmd: TerminalCommand) -> Vec<u8> {
    let caps = TerminalCaps { depth: ColorDepth::TrueColor, glyphs: false, kitty_keyboard: false };
    let mut enc = TTYEncoder::new(caps);
    let mut out = Vec::new();
    let _ = enc.encode(&mut out, cmd);
    out
}

fn chunks<'a>(bytes: &'a [u8], cuts: &[usize]) -> Vec<&'a [u8]> {
    let mut out = vec![];
    let mut rest = bytes;
    for n in cuts {
        let k = (*n).min(rest.len());
        out.push(&rest[..k]);
        rest = &rest[k..];
    }
    out.push(rest);
    out
}

fn decode(bytes: &[u8], cuts: &[usize]) -> Vec<TerminalCommand> {
    let mut dec = TTYCommandDecoder::new();
    let mut out = Vec::new();
    for c in chunks(bytes, cuts) {
        let _ = dec.decode_into(Cursor::new(c), &mut out);
    }
    out
}

struct Recorder {
    face: Face,
    wraps: bool,
    cells: Vec<(u32, Face)>,
}
impl CellWrite for Recorder {
    fn face(&self) -> Face {
        self.face
    }
    fn set_face(&mut self, face: Face) -> Face {
        std::mem::replace(&mut self.face, face)
    }
    fn wraps(&self) -> bool {
        self.wraps
    }
    fn set_wraps(&mut self, wraps: bool) -> bool {
        std::mem::replace(&mut self.wraps, wraps)
    }
    fn put_cell(&mut self, cell: Cell) -> bool {
        let ch = match cell.kind() {
            surf_n_term::render::CellKind::Char(c) => *c as u32,
            _ => 0x11_0000,
        };
        self.cells.push((ch, cell.face()));
        true
    }
}

/// does the parameter string contain 7 / 27 / 39 / 49 as a parameter of its own (not as an argument of
/// a semicolon-form 38 / 48 / 58 colour specification)?
fn sgr_has_inexpressible(p: &str) -> bool {
    let groups: Vec<&str> = p.split(';').collect();
    let mut i = 0;
    while i < groups.len() {
        let g = groups[i];
        if matches!(g.trim_start_matches('0'), "38" | "48" | "58") {
            match groups.get(i + 1).map(|x| x.trim_start_matches('0')) {
                Some("5") => i += 3,
                Some("2") => i += 5,
                _ => i += 1,
            }
            continue;
        }
        if matches!(g.trim_start_matches('0'), "7" | "27" | "39" | "49") {
            return true;
        }
        i += 1;
    }
    false
}

fn cuts_of(v: &Value) -> Vec<usize> {
    vusizes(&v["cuts"])
}

fn hist_bytes(hist: &Value) -> Vec<u8> {
    let mut out = vec![];
    for h in hist.as_array().map(|a| a.as_slice()).unwrap_or(&[]) {
        if let Some(p) = h["sgr"].as_str() {
            out.extend_from_slice(b"\x1b[");
            out.extend_from_slice(p.as_bytes());
            out.push(b'm');
        } else {
            for c in vusizes(&h["text"]) {
                if let Some(ch) = char::from_u32(c as u32) {
                    let mut buf = [0u8; 4];
                    out.extend_from_slice(ch.encode_utf8(&mut buf).as_bytes());
                }
            }
        }
    }
    out
}

fn c_hist(hist: &Value) -> String {
    clist(hist.as_array().map(|a| a.as_slice()).unwrap_or(&[]).iter().map(|h| {
        if let Some(p) = h["sgr"].as_str() {
            format!("(HSgr {})", cbytes(p.as_bytes()))
        } else {
            format!("(HText {})", cnums(&vusizes(&h["text"])))
        }
    }))
}

pub fn run(input: &Value) -> Case {
    let kind = input["kind"].as_str().unwrap_or("").to_string();
    let mut j = input.clone();
    let mut tags = vec![format!("kind={}", kind)];
    let cuts = cuts_of(input);
    if !cuts.is_empty() {
        tags.push("chunked".into());
    }
    match kind.as_str() {
        "face" | "mod" | "char" => {
            let gs: Vec<Face> = input["gs"].as_array().map(|a| a.iter().map(v_face).collect()).unwrap_or_default();
            let (cmd, ccmd) = match kind.as_str() {
                "face" => {
                    let f = v_face(&input["face"]);
                    (TerminalCommand::Face(f), format!("(CmdFace {})", c_face(&f)))
                }
                "mod" => {
                    let m = v_modify(&input["m"]);
                    (TerminalCommand::FaceModify(m), format!("(CmdFaceModify {})", c_modify(&m)))
                }
                _ => {
                    let c = char::from_u32(input["c"].as_u64().unwrap_or(97) as u32).unwrap_or('a');
                    (TerminalCommand::Char(c), format!("(CmdChar {})", c as u32))
                }
            };
            let gs2 = gs.clone();
            let cuts2 = cuts.clone();
            let r = catch(move || {
                let bytes = encode(cmd);
                let dec = decode(&bytes, &cuts2);
                let applied: Vec<Face> = match dec.first() {
                    Some(TerminalCommand::FaceModify(m)) => gs2.iter().map(|g| m.apply(*g)).collect(),
                    _ => vec![],
                };
                (bytes, dec, applied)
            });
            let (bytes, dec, applied) = r.unwrap_or((vec![255], vec![], vec![]));
            j["impl"] = json!({
                "bytes": String::from_utf8_lossy(&bytes),
                "decoded": format!("{:?}", dec),
                "applied": applied.iter().map(j_face).collect::<Vec<_>>(),
            });
            Case {
                coq: format!(
                    "KEnc {} {} {} {} {} {}",
                    ccmd,
                    clist(gs.iter().map(c_face)),
                    clist(cuts.iter().map(|c| cnat(*c))),
                    cbytes(&bytes),
                    clist(dec.iter().map(c_cmd)),
                    clist(applied.iter().map(c_obs)),
                ),
                json: j,
                tags,
                nontrivial: kind != "char" && bytes.len() > 4,
            }
        }
        "apply" => {
            let m = v_modify(&input["m"]);
            let g = v_face(&input["g"]);
            let r = catch(move || m.apply(g)).unwrap_or(Face::new(None, None, FaceAttrs::EMPTY));
            j["impl"] = j_face(&r);
            Case {
                coq: format!("KApply {} {} {}", c_modify(&m), c_face(&g), c_obs(&r)),
                json: j,
                tags,
                nontrivial: m != FaceModify::default(),
            }
        }
        "write" => {
            let f0 = v_face(&input["f0"]);
            let bytes = hist_bytes(&input["hist"]);
            let b2 = bytes.clone();
            let cuts2 = cuts.clone();
            let text_len: usize = input["hist"].as_array().map(|a| a.iter().map(|h| h["text"].as_array().map(|t| t.len()).unwrap_or(0)).sum()).unwrap_or(0);
            let sink = input["sink"].as_u64().unwrap_or(0);
            let cells = catch(move || {
                let mut short = false;
                // Write::write must report the whole chunk as consumed: a wrong count becomes a marker cell
                // (every other chunk goes through write_all and a flush follows each chunk: the std::io::Write methods
                // the writer implements or inherits must not disturb the decoder state kept between writes)
                let mut feed = |w: &mut dyn Write| {
                    for (i, c) in chunks(&b2, &cuts2).into_iter().enumerate() {
                        if i % 2 == 1 {
                            if w.write_all(c).is_err() {
                                short = true;
                            }
                        } else {
                            match w.write(c) {
                                Ok(n) if n == c.len() => {}
                                _ => short = true,
                            }
                        }
                        if w.flush().is_err() {
                            short = true;
                        }
                    }
                };
                let mut cells: Vec<(u32, Face)> = match sink {
                    1 => {
                        // view::Text as the cell writer
                        let mut text = Text::new();
                        text.set_face(f0);
                        feed(&mut text.by_ref().tty_writer());
                        text.cells()
                            .iter()
                            .map(|cell| match cell.kind() {
                                surf_n_term::render::CellKind::Char(c) => (*c as u32, cell.face()),
                                _ => (0x11_0000, cell.face()),
                            })
                            .collect()
                    }
                    2 => {
                        // TerminalWriter over a one-row surface wide enough for the whole text
                        let n = text_len;
                        let mut surf: SurfaceOwned<Cell> = SurfaceOwned::new(Size { height: 1, width: n + 4 });
                        {
                            let mut w = TerminalWriter::new(ViewContext::dummy(), &mut surf);
                            w.set_face(f0);
                            feed(&mut CellWrite::by_ref(&mut w).tty_writer());
                        }
                        (0..n)
                            .map(|col| {
                                let cell = surf.get(Position { row: 0, col }).cloned().unwrap_or_default();
                                match cell.kind() {
                                    surf_n_term::render::CellKind::Char(c) => (*c as u32, cell.face()),
                                    _ => (0x11_0000, cell.face()),
                                }
                            })
                            .collect()
                    }
                    _ => {
                        let mut rec = Recorder { face: f0, wraps: false, cells: vec![] };
                        feed(&mut rec.by_ref().tty_writer());
                        rec.cells
                    }
                };
                if short {
                    cells.push((0x11_0002, Face::default()));
                }
                cells
            })
            .unwrap_or_else(|| vec![(0x11_0001, Face::default())]);
            j["impl"] = json!(cells.iter().map(|(c, f)| json!([c, j_face(f)])).collect::<Vec<_>>());
            let nsgr = input["hist"].as_array().map(|a| a.iter().filter(|h| h["sgr"].is_string()).count()).unwrap_or(0);
            tags.push(format!("sgr_seqs={}", nsgr.min(10)));
            // known class derived from the content, never taken from the input file: some SGR item has
            // 7 / 27 / 39 / 49 as a parameter of its own
            if let Some(o) = j.as_object_mut() {
                o.remove("known_class");
            }
            let inexpr = input["hist"].as_array().map(|a| a.iter().any(|h| h["sgr"].as_str().map(sgr_has_inexpressible).unwrap_or(false))).unwrap_or(false);
            if inexpr {
                j["known_class"] = json!(["sgr-inexpressible"]);
                tags.push("inexpressible-param".into());
            }
            if input["malformed"].as_bool().unwrap_or(false) {
                tags.push("malformed".into());
            }
            tags.push(format!("sink={}", ["recorder", "Text", "TerminalWriter"][(sink as usize).min(2)]));
            Case {
                coq: format!(
                    "KWrite {} {} {} {} {}",
                    c_face(&f0),
                    c_hist(&input["hist"]),
                    clist(cuts.iter().map(|c| cnat(*c))),
                    cbytes(&bytes),
                    clist(cells.iter().map(|(c, f)| format!("({}, {})", c, c_obs(f)))),
                ),
                json: j,
                tags,
                nontrivial: nsgr >= 1 && !cells.is_empty(),
            }
        }
        "stream" => {
            // Face / FaceModify / Char commands through ONE encoder instance
            let items: Vec<Value> = input["cmds"].as_array().cloned().unwrap_or_default();
            let mut cmds: Vec<(TerminalCommand, String)> = vec![];
            for it in &items {
                if !it["face"].is_null() {
                    let f = v_face(&it["face"]);
                    cmds.push((TerminalCommand::Face(f), format!("(CmdFace {})", c_face(&f))));
                } else if !it["m"].is_null() {
                    let m = v_modify(&it["m"]);
                    cmds.push((TerminalCommand::FaceModify(m), format!("(CmdFaceModify {})", c_modify(&m))));
                } else {
                    let c = char::from_u32(it["c"].as_u64().unwrap_or(97) as u32).unwrap_or('a');
                    cmds.push((TerminalCommand::Char(c), format!("(CmdChar {})", c as u32)));
                }
            }
            let ccmds: Vec<String> = cmds.iter().map(|c| c.1.clone()).collect();
            let run_cmds: Vec<TerminalCommand> = cmds.into_iter().map(|c| c.0).collect();
            let cuts2 = cuts.clone();
            let r = catch(move || {
                let caps = TerminalCaps { depth: ColorDepth::TrueColor, glyphs: false, kitty_keyboard: false };
                let mut enc = TTYEncoder::new(caps);
                let mut bytes = Vec::new();
                for c in run_cmds {
                    let _ = enc.encode(&mut bytes, c);
                }
                let dec = decode(&bytes, &cuts2);
                (bytes, dec)
            });
            let (bytes, dec) = r.unwrap_or((vec![255], vec![]));
            j["impl"] = json!({"bytes": String::from_utf8_lossy(&bytes), "decoded": format!("{:?}", dec)});
            tags.push(format!("cmds={}", items.len().min(12)));
            Case {
                coq: format!(
                    "KStream {} {} {} {}",
                    clist(ccmds),
                    clist(cuts.iter().map(|c| cnat(*c))),
                    cbytes(&bytes),
                    clist(dec.iter().map(c_cmd)),
                ),
                json: j,
                tags,
                nontrivial: items.len() >= 2,
            }
        }
        _ => {
            // "dec": arbitrary stream
            let bytes = vbytes(&input["bytes"]);
            let (b2, b3, cuts2) = (bytes.clone(), bytes.clone(), cuts.clone());
            let dec = catch(move || decode(&b2, &cuts2)).unwrap_or_else(|| vec![TerminalCommand::Reset]);
            let whole = catch(move || decode(&b3, &[])).unwrap_or_else(|| vec![TerminalCommand::Reset]);
            j["impl"] = json!(format!("{:?}", dec));
            Case {
                coq: format!(
                    "KDec {} {} {} {}",
                    cbytes(&bytes),
                    clist(cuts.iter().map(|c| cnat(*c))),
                    clist(dec.iter().map(c_cmd)),
                    clist(whole.iter().map(c_cmd)),
                ),
                json: j,
                tags,
                nontrivial: dec.len() > 1,
            }
        }
    }
}

// ---------------------------------------------------------------- generators

const CH: [u64; 12] = [0, 1, 2, 9, 10, 48, 99, 100, 127, 128, 254, 255];

/// "source boundary" stream: every integer constant written in the sources of the SGR path (and its neighbours),
/// harvested at run time, so that a threshold introduced by a change is reached by the numeric parameters drawn below
fn bnd(rng: &mut Rng, cap: u64) -> u64 {
    static B: std::sync::OnceLock<Vec<u64>> = std::sync::OnceLock::new();
    let all = B.get_or_init(|| source_boundaries(&["src/decoder.rs", "src/encoder.rs", "src/face.rs", "src/common.rs"], 100_000));
    let within: Vec<u64> = all.iter().copied().filter(|v| *v <= cap).collect();
    if within.is_empty() {
        rng.below(cap + 1)
    } else {
        *rng.pick(&within)
    }
}
fn g_channel(rng: &mut Rng) -> u64 {
    if rng.chance(1, 6) {
        return bnd(rng, 255);
    }
    if rng.chance(2, 3) {
        *rng.pick(&CH)
    } else {
        rng.below(256)
    }
}
fn g_color(rng: &mut Rng) -> Value {
    json!([g_channel(rng), g_channel(rng), g_channel(rng), 255])
}
fn g_optcolor(rng: &mut Rng, p: u64) -> Value {
    if rng.chance(p, 100) {
        g_color(rng)
    } else {
        Value::Null
    }
}
fn g_face(rng: &mut Rng) -> Value {
    json!({"fg": g_optcolor(rng, 50), "bg": g_optcolor(rng, 50), "ul": if rng.chance(1, 12) { 6 + rng.below(2) } else { rng.below(6) }, "flags": rng.below(32)})
}
fn g_optbool(rng: &mut Rng, p: u64) -> Value {
    if rng.chance(p, 100) {
        json!(rng.chance(1, 2))
    } else {
        Value::Null
    }
}
fn g_modify(rng: &mut Rng, p: u64) -> Value {
    json!({
        "reset": rng.chance(p, 200),
        "fg": g_optcolor(rng, p), "bg": g_optcolor(rng, p),
        "ul": if rng.chance(p, 100) { json!(rng.below(6)) } else { Value::Null },
        "uc": g_optcolor(rng, p),
        "bold": g_optbool(rng, p), "italic": g_optbool(rng, p), "blink": g_optbool(rng, p), "strike": g_optbool(rng, p),
    })
}

fn empty_modify() -> Value {
    json!({"reset": false, "fg": null, "bg": null, "ul": null, "uc": null, "bold": null, "italic": null, "blink": null, "strike": null})
}

/// every value a single field of a modification record can take
fn single_settings(rng: &mut Rng) -> Vec<(&'static str, Value)> {
    let mut v: Vec<(&'static str, Value)> = vec![("reset", json!(true))];
    v.push(("fg", g_color(rng)));
    v.push(("bg", g_color(rng)));
    v.push(("uc", g_color(rng)));
    for u in 0..6 {
        v.push(("ul", json!(u)));
    }
    for f in ["bold", "italic", "blink", "strike"] {
        v.push((f, json!(true)));
        v.push((f, json!(false)));
    }
    v
}

fn some_faces(rng: &mut Rng, n: usize) -> Vec<Value> {
    let mut gs = vec![json!({"fg": null, "bg": null, "ul": 0, "flags": 0}), json!({"fg": [9, 8, 7, 255], "bg": [1, 2, 3, 255], "ul": 1, "flags": 31})];
    for _ in 0..n {
        gs.push(g_face(rng));
    }
    gs
}

fn all_cuts(len: usize, out: &mut Vec<Vec<usize>>, pairs: bool) {
    for i in 0..=len {
        out.push(vec![i]);
        if pairs {
            for k in 0..=(len - i) {
                out.push(vec![i, k]);
            }
        }
    }
}

fn rand_cuts(rng: &mut Rng, len: usize) -> Vec<usize> {
    match rng.below(5) {
        0 => vec![],
        1 => vec![1; len],
        2 => {
            // short reads (0..4 bytes, empty ones included) over the WHOLE stream
            let mut v = vec![];
            let mut left = len;
            while left > 0 {
                let k = (rng.below(5) as usize).min(left);
                v.push(k);
                left -= k;
            }
            v
        }
        _ => {
            // 1..8 cut points anywhere in the stream
            let mut pts: Vec<usize> = (0..1 + rng.below(8)).map(|_| rng.below(len as u64 + 1) as usize).collect();
            pts.sort();
            let mut v = vec![];
            let mut at = 0;
            for p in pts {
                v.push(p - at);
                at = p;
            }
            v
        }
    }
}

/// one SGR "unit" in text form; the flag says whether it is in the known class (inexpressible)
fn g_unit(rng: &mut Rng) -> (String, bool) {
    let c = |rng: &mut Rng| g_channel(rng);
    let code = *rng.pick(&[38u64, 48, 58]);
    let s = match rng.below(30) {
        0 => "0".to_string(),
        1 => "".to_string(),
        2 => "1".to_string(),
        3 => "22".to_string(),
        4 => (*rng.pick(&["3", "23", "03", "023"])).to_string(),
        5 => "4".to_string(),
        6 => format!("4:{}", rng.below(6)),
        7 => "21".to_string(),
        8 => "24".to_string(),
        9 => (*rng.pick(&["5", "25"])).to_string(),
        10 => (*rng.pick(&["9", "29"])).to_string(),
        11 => format!("{}", 30 + rng.below(8)),
        12 => format!("{}", 40 + rng.below(8)),
        13 => format!("{}", 90 + rng.below(8)),
        14 => format!("{}", 100 + rng.below(8)),
        15 | 16 => format!("{};5;{}", code, if rng.chance(1, 2) { *rng.pick(&[0u64, 7, 8, 15, 16, 17, 51, 52, 196, 231, 232, 233, 254, 255]) } else { rng.below(256) }),
        17 | 18 | 19 => format!("{};2;{};{};{}", code, c(rng), c(rng), c(rng)),
        20 => format!("{}:5:{}", code, if rng.chance(1, 3) { bnd(rng, 255) } else { rng.below(256) }),
        27 => format!("{}", bnd(rng, 100_000)),
        // numbers at and beyond the width of the integer types: 2^63, 2^64 - 1, 2^64, 20+ digits, 2^128
        29 => (*rng.pick(&["9223372036854775808", "18446744073709551615", "18446744073709551616", "99999999999999999999",
                           "100000000000000000000", "340282366920938463463374607431768211456", "4294967296", "65536"])).to_string(),
        28 => format!("{}{}5{}{}", code, if rng.chance(1, 2) { ';' } else { ':' }, if rng.chance(1, 2) { ';' } else { ':' }, bnd(rng, 300)),
        21 => format!("{}:2:{}:{}:{}", code, c(rng), c(rng), c(rng)),
        22 => format!("{}:2::{}:{}:{}", code, c(rng), c(rng), c(rng)),
        23 => format!("{}:2:{}:{}:{}:{}", code, rng.below(3), c(rng), c(rng), c(rng)),
        24 => (*rng.pick(&["2", "6", "8", "10", "26", "28", "50", "53", "55", "59", "73", "108", "38000"])).to_string(),
        25 => (*rng.pick(&["01", "001", "00", "0031", "000000000000000004"])).to_string(),
        26 => return ((*rng.pick(&["7", "27", "39", "49"])).to_string(), true),
        _ => (*rng.pick(&["1", "3", "4", "5", "9", "21", "22", "23", "24", "25", "29"])).to_string(),
    };
    (s, false)
}

const MALFORMED: [&str; 22] = [
    "38", "38;5", "38;2;1;2", "48;2;1", "38;5;256", "38;5;300", "38;2;256;0;0", "38;2;300;1;2", "4:6", "4:", "1:2", "38:5", "38:2:1:2",
    "38:2:1:2:3:4:5", "38;2:1:2:3", "38;7;1", "58;9", "4:1:1", "38:3:1:2:3", "38;5;1:2", "31;38;2;1", "1;38;5",
];

fn g_text(rng: &mut Rng) -> Vec<u64> {
    let n = 1 + rng.below(3);
    (0..n)
        .map(|_| match rng.below(8) {
            0 => *rng.pick(&[0u64, 1, 26, 28, 127, 128, 0x7ff, 0x800, 0xd7ff, 0xe000, 0xffff, 0x10000, 0x10ffff, 0x5b, 0x6d, 0x3b]),
            1 => 0x80 + rng.below(0x780),
            2 => 0x800 + rng.below(0xd000),
            3 => 0x10000 + rng.below(0x100000),
            _ => 32 + rng.below(95),
        })
        .collect()
}

fn g_hist(rng: &mut Rng, malformed: bool, ascii: bool) -> (Value, bool) {
    let n = 1 + rng.below(10);
    let mut items = vec![];
    let mut known = false;
    let bad_at = rng.below(n);
    for i in 0..n {
        let units = 1 + rng.below(4);
        let mut parts = vec![];
        for _ in 0..units {
            let (s, k) = g_unit(rng);
            known |= k;
            parts.push(s);
        }
        if malformed && i == bad_at {
            let pos = rng.below(parts.len() as u64 + 1) as usize;
            parts.insert(pos, (*rng.pick(&MALFORMED)).to_string());
        }
        items.push(json!({"sgr": parts.join(";")}));
        if rng.chance(4, 5) {
            let t: Vec<u64> = if ascii { (0..1 + rng.below(3)).map(|_| 33 + rng.below(94)).collect() } else { g_text(rng) };
            items.push(json!({"text": t}));
        }
    }
    (Value::Array(items), known)
}

pub fn generate(rng: &mut Rng, n: usize, tier: &str) -> Vec<Value> {
    let thorough = tier == "thorough";
    let mut v = vec![];
    // 1. modification records: empty, every single setting, every pair of settings of different fields
    v.push(json!({"kind": "mod", "m": empty_modify(), "gs": some_faces(rng, 0), "cuts": []}));
    let singles = single_settings(rng);
    for (k, val) in &singles {
        let mut m = empty_modify();
        m[*k] = val.clone();
        v.push(json!({"kind": "mod", "m": m, "gs": some_faces(rng, 2), "cuts": []}));
    }
    for (i, (k1, v1)) in singles.iter().enumerate() {
        for (k2, v2) in singles.iter().skip(i + 1) {
            if k1 == k2 {
                continue;
            }
            let mut m = empty_modify();
            m[*k1] = v1.clone();
            m[*k2] = v2.clone();
            v.push(json!({"kind": "mod", "m": m, "gs": some_faces(rng, 1), "cuts": []}));
        }
    }
    // 2. faces: every underline style x every flag set (colours random), applied to a few faces
    for ul in 0..6u64 {
        for flags in 0..32u64 {
            let f = json!({"fg": g_optcolor(rng, 60), "bg": g_optcolor(rng, 60), "ul": ul, "flags": flags});
            v.push(json!({"kind": "face", "face": f, "gs": some_faces(rng, 1), "cuts": []}));
        }
    }
    // 3. apply: every single setting on every underline style x a few flag sets
    for (k, val) in &singles {
        for ul in 0..6u64 {
            for flags in [0u64, 1, 16, 31, 14] {
                let mut m = empty_modify();
                m[*k] = val.clone();
                v.push(json!({"kind": "apply", "m": m, "g": {"fg": g_optcolor(rng, 50), "bg": null, "ul": ul, "flags": flags}}));
            }
        }
    }
    // 4. characters: class boundaries, every chunking
    for c in [0u64, 1, 26, 28, 0x41, 0x5b, 0x6d, 0x7f, 0x80, 0xe9, 0x7ff, 0x800, 0x20ac, 0xd7ff, 0xe000, 0xfffd, 0xffff, 0x10000, 0x1f600, 0x10ffff] {
        let len = char::from_u32(c as u32).map(|c| c.len_utf8()).unwrap_or(1);
        let mut cs = vec![vec![]];
        all_cuts(len, &mut cs, false);
        for cuts in cs {
            v.push(json!({"kind": "char", "c": c, "gs": [], "cuts": cuts}));
        }
    }
    // 5. short streams under every chunking (single cuts, and pairs in the thorough tier)
    let short: [&str; 10] = ["\x1b[m", "\x1b[1mA", "\x1b[4:3m", "a\x1b[0;1mb", "\x1b[38;5;9mx", "\x1b\x1b[1m", "\x1b[1\x1b[3m", "\x1b[;m\u{e9}", "x\x1b[38;2;1;2;3;4my", "\x1b[1;"];
    for s in short {
        let mut cs = vec![];
        all_cuts(s.len(), &mut cs, thorough || s.len() <= 6);
        for cuts in cs {
            v.push(json!({"kind": "dec", "bytes": s.as_bytes(), "cuts": cuts}));
        }
    }
    // 5b. the whole 256-colour palette and every named colour, in both forms
    let plain = json!({"fg": null, "bg": null, "ul": 0, "flags": 0});
    for n in 0..256u64 {
        let p = if n % 2 == 0 { format!("38;5;{};48:5:{}", n, 255 - n) } else { format!("48;5;{};38:5:{};1", n, 255 - n) };
        v.push(json!({"kind": "write", "f0": plain, "hist": [{"sgr": p}, {"text": [120]}], "cuts": []}));
        // every index in every role and both forms: cells (fg, bg) and, for the underline colour a cell cannot carry,
        // the decoded command itself
        for (a, b) in [(';', ';'), (':', ':')] {
            let p = format!("38{a}5{b}{n};48{a}5{b}{n};58{a}5{b}{n}", a = a, b = b, n = n);
            v.push(json!({"kind": "write", "f0": plain, "hist": [{"sgr": p}, {"text": [122]}], "cuts": []}));
            v.push(json!({"kind": "dec", "bytes": format!("\x1b[58{a}5{b}{n}m", a = a, b = b, n = n).into_bytes(), "cuts": []}));
        }
    }
    for base in [30u64, 40, 90, 100] {
        for k in 0..8 {
            v.push(json!({"kind": "write", "f0": plain, "hist": [{"sgr": format!("{}", base + k)}, {"text": [121]}], "cuts": []}));
        }
    }
    // 5c. numbers at the width of the integer types as a parameter of their own, before / after / between settings,
    //     with attributes in effect from an earlier sequence
    for big in ["18446744073709551615", "18446744073709551616", "99999999999999999999", "340282366920938463463374607431768211456", "9223372036854775808"] {
        for p in [format!("3;{}", big), format!("{};3", big), format!("1;{};31", big), big.to_string(), format!("38;5;{}", big), format!("4:{}", big)] {
            v.push(json!({"kind": "write", "f0": plain, "hist": [{"sgr": "1;4;32"}, {"text": [97]}, {"sgr": p}, {"text": [98]}], "cuts": []}));
        }
    }
    // ESC and the C1 introducers (written as U+FFFD) with their neighbours, alone and inside a stream
    for c in [26u64, 27, 28, 0x8f, 0x90, 0x91, 0x98, 0x9a, 0x9b, 0x9c, 0x9d, 0x9e, 0x9f, 0xa0, 0xfffd] {
        v.push(json!({"kind": "char", "c": c, "gs": [], "cuts": []}));
        v.push(json!({"kind": "stream", "cmds": [{"m": g_modify(rng, 30)}, {"c": c}, {"c": 65}, {"face": g_face(rng)}, {"c": c}], "cuts": []}));
    }
    let fixed = v.len();
    // 6. random part
    while v.len() < fixed + n {
        match rng.below(13) {
            10 | 11 => {
                // a stream through one encoder: faces, modifications (some empty), characters
                let k = 2 + rng.below(9);
                let mut cmds = vec![];
                for _ in 0..k {
                    cmds.push(match rng.below(6) {
                        0 => json!({"face": g_face(rng)}),
                        1 => json!({"m": g_modify(rng, 30)}),
                        2 => json!({"m": empty_modify()}),
                        3 => json!({"m": g_modify(rng, 10)}),
                        4 if rng.chance(1, 4) => json!({"c": *rng.pick(&[27u64, 0x90, 0x98, 0x9b, 0x9d, 0x9e, 0x9f])}),
                        _ => json!({"c": g_text(rng)[0]}),
                    });
                }
                // cuts over the real length of what the encoder writes
                let probe = run(&json!({"kind": "stream", "cmds": cmds, "cuts": []}));
                let len = probe.json["impl"]["bytes"].as_str().map(|b| b.len()).unwrap_or(60);
                v.push(json!({"kind": "stream", "cmds": cmds, "cuts": rand_cuts(rng, len)}));
            }
            12 => {
                // a random character through the encoder
                let c = g_text(rng)[0];
                v.push(json!({"kind": "char", "c": c, "gs": [], "cuts": rand_cuts(rng, 4)}));
            }
            0 => {
                let m = g_modify(rng, 40);
                let bytes_len = 40;
                v.push(json!({"kind": "mod", "m": m, "gs": some_faces(rng, 2), "cuts": rand_cuts(rng, bytes_len)}));
            }
            1 => {
                v.push(json!({"kind": "face", "face": g_face(rng), "gs": some_faces(rng, 2), "cuts": rand_cuts(rng, 40)}));
            }
            2 => {
                v.push(json!({"kind": "apply", "m": g_modify(rng, 35), "g": g_face(rng)}));
            }
            3 => {
                // arbitrary streams: SGR-looking text with stray bytes (no lead bytes whose
                // decoding aborts: those belong to C02)
                let alphabet: [u8; 22] = [27, b'[', b'm', b';', b':', b'0', b'1', b'2', b'3', b'4', b'5', b'8', b'9', b'a', b'?', 0x80, 0xbf, 0xc3, 0xe2, 0xf0, 0xff, b' '];
                let len = 1 + rng.below(14) as usize;
                let bytes: Vec<u8> = (0..len).map(|_| *rng.pick(&alphabet)).collect();
                v.push(json!({"kind": "dec", "bytes": bytes, "cuts": rand_cuts(rng, len)}));
            }
            4 => {
                let sink = rng.below(4).min(2) % 3;
                let (hist, known) = g_hist(rng, true, sink == 2);
                let len = hist_bytes(&hist).len();
                let mut c = json!({"kind": "write", "f0": g_face(rng), "hist": hist, "cuts": rand_cuts(rng, len), "malformed": true, "sink": if sink == 2 { 2 } else { sink % 2 }});
                let _ = known; // the class tag is derived in `run` from the history itself
                v.push(c);
            }
            _ => {
                let sink = match rng.below(6) { 0 => 1, 1 => 2, _ => 0 };
                let (hist, known) = g_hist(rng, false, sink == 2);
                let len = hist_bytes(&hist).len();
                let f0 = if rng.chance(1, 2) { json!({"fg": null, "bg": null, "ul": 0, "flags": 0}) } else { g_face(rng) };
                let mut c = json!({"kind": "write", "f0": f0, "hist": hist, "cuts": rand_cuts(rng, len), "sink": sink});
                let _ = known; // the class tag is derived in `run` from the history itself
                v.push(c);
            }
        }
    }
    v
}

pub fn batch(inputs: &[Value]) -> Batch {
    Batch {
        prop: "C06",
        coq_import: "Corr.C06Corr",
        case_type: "c06_case",
        report_fn: "c06_report",
        rule: "a face / modification whose encoding has at least one SGR parameter, or a written history with at least one SGR sequence and one cell, or a stream decoding to more than one command; distinct by input",
        cases: inputs.iter().map(run).collect(),
        preamble: String::new(),
    }
}
