//! C05: TTYEncoder::encode for every TerminalCommand, parameter extreme, face and capability set.
//! The bytes written by the real encoder are handed to Coq, where the model must produce the same
//! bytes and an independent VT/xterm interpreter must read them as exactly the command.
use crate::util::*;
use serde_json::{json, Value};
use surf_n_term::encoder::{ColorDepth, Encoder, TTYEncoder};
use surf_n_term::render::TerminalRenderer;
use surf_n_term::{Cell, Error, SurfaceMut, Terminal, TerminalEvent, TerminalSize, TerminalWaker};
use surf_n_term::{
    DecMode, Face, FaceAttrs, FaceModify, Image, Position, Size, SurfaceOwned, TerminalCaps, TerminalColor,
    TerminalCommand, UnderlineStyle, RGBA,
};

pub const DEPTHS: [&str; 3] = ["true", "256", "gray"];
const MODES: [&str; 9] = [
    "VisibleCursor",
    "AutoWrap",
    "SixelScrolling",
    "MouseReport",
    "MouseMotions",
    "MouseSGR",
    "AltScreen",
    "SynchronizedOutput",
    "BracketedPaste",
];
const STYLES: [&str; 6] = ["UNone", "UStraight", "UDouble", "UCurly", "UDotted", "UDashed"];

pub fn depth_of(s: &str) -> ColorDepth {
    match s {
        "true" => ColorDepth::TrueColor,
        "256" => ColorDepth::EightBit,
        _ => ColorDepth::Gray,
    }
}
fn coq_depth(s: &str) -> &'static str {
    match s {
        "true" => "TrueColor",
        "256" => "EightBit",
        _ => "Gray",
    }
}
fn mode_of(s: &str) -> DecMode {
    match s {
        "VisibleCursor" => DecMode::VisibleCursor,
        "AutoWrap" => DecMode::AutoWrap,
        "SixelScrolling" => DecMode::SixelScrolling,
        "MouseReport" => DecMode::MouseReport,
        "MouseMotions" => DecMode::MouseMotions,
        "MouseSGR" => DecMode::MouseSGR,
        "AltScreen" => DecMode::AltScreen,
        "SynchronizedOutput" => DecMode::SynchronizedOutput,
        _ => DecMode::BracketedPaste,
    }
}
fn style_of(s: &str) -> UnderlineStyle {
    match s {
        "UStraight" => UnderlineStyle::Straight,
        "UDouble" => UnderlineStyle::Double,
        "UCurly" => UnderlineStyle::Curly,
        "UDotted" => UnderlineStyle::Dotted,
        "UDashed" => UnderlineStyle::Dashed,
        _ => UnderlineStyle::None,
    }
}

/// FaceAttrs with these packed bits (3 bits underline style code 0..=5, then the five flags), built
/// through the public constants and `|`.  Every public operation on FaceAttrs goes through
/// pack(underline(), flags), so the style codes 6 and 7 cannot be constructed; what was built is read
/// back through the public accessors and must be what was asked for.
pub fn attrs_from_bits(bits: u64) -> FaceAttrs {
    let mut a = FaceAttrs::EMPTY;
    let style = match bits & 7 {
        1 => UnderlineStyle::Straight,
        2 => UnderlineStyle::Double,
        3 => UnderlineStyle::Curly,
        4 => UnderlineStyle::Dotted,
        5 => UnderlineStyle::Dashed,
        0 => UnderlineStyle::None,
        other => panic!("harness: underline style code {} is not constructible", other),
    };
    a |= FaceAttrs::from(style);
    let flags = [FaceAttrs::BOLD, FaceAttrs::ITALIC, FaceAttrs::BLINK, FaceAttrs::REVERSE, FaceAttrs::STRIKE];
    for (k, f) in flags.into_iter().enumerate() {
        if bits & (8 << k) != 0 {
            a = a | f;
        }
    }
    // read back
    assert!(a.underline() == style, "harness: FaceAttrs underline read back differs");
    for (k, f) in flags.into_iter().enumerate() {
        assert!(a.contains(f) == (bits & (8 << k) != 0), "harness: FaceAttrs flag read back differs");
    }
    assert!(a.is_empty() == (bits & 255 == 0), "harness: FaceAttrs emptiness read back differs");
    a
}

/// the attribute sets that exist: style code 0..=5 x 32 flag sets
pub fn valid_bits(bits: u64) -> u64 {
    let b = bits & 255;
    if b & 7 > 5 { (b & !7) | ((b & 7) - 2) } else { b }
}

fn big(v: &Value) -> i128 {
    match v {
        Value::String(s) => s.parse().unwrap_or(0),
        Value::Number(n) => n.as_i64().map(|x| x as i128).or(n.as_u64().map(|x| x as i128)).unwrap_or(0),
        _ => 0,
    }
}
fn us(v: &Value) -> usize {
    big(v).clamp(0, usize::MAX as i128) as usize
}
fn i32v(v: &Value) -> i32 {
    big(v).clamp(i32::MIN as i128, i32::MAX as i128) as i32
}
pub fn rgba_of(v: &Value) -> Option<RGBA> {
    let a = v.as_array()?;
    let g = |i: usize| a.get(i).and_then(|x| x.as_u64()).unwrap_or(0) as u8;
    Some(RGBA::new(g(0), g(1), g(2), g(3)))
}
fn obool(v: &Value) -> Option<bool> {
    v.as_bool()
}

fn coq_rgba(c: RGBA) -> String {
    let [r, g, b, a] = surf_n_term::Color::to_rgba(c);
    format!("(mkRgba {} {} {} {})", r, g, b, a)
}
fn coq_orgba(c: Option<RGBA>) -> String {
    copt(c.map(coq_rgba))
}
fn coq_obool(b: Option<bool>) -> String {
    copt(b.map(|x| cbool(x).to_string()))
}

pub fn caps_of(v: &Value) -> TerminalCaps {
    TerminalCaps {
        depth: depth_of(v["depth"].as_str().unwrap_or("true")),
        glyphs: v["glyphs"].as_bool().unwrap_or(false),
        kitty_keyboard: v["kitty"].as_bool().unwrap_or(false),
    }
}

/// the command, its Coq term, and the colours it mentions
fn build(c: &Value) -> (TerminalCommand, String, Vec<RGBA>) {
    let t = c["t"].as_str().unwrap_or("Reset");
    let mut colors = vec![];
    let (cmd, coq) = match t {
        "Char" => {
            let cp = c["c"].as_u64().unwrap_or(65) as u32;
            let ch = char::from_u32(cp).unwrap_or('?');
            (TerminalCommand::Char(ch), format!("Char {}", ch as u32))
        }
        "Face" => {
            let fg = rgba_of(&c["fg"]);
            let bg = rgba_of(&c["bg"]);
            let bits = valid_bits(c["bits"].as_u64().unwrap_or(0));
            colors.extend(fg);
            colors.extend(bg);
            (
                TerminalCommand::Face(Face::new(fg, bg, attrs_from_bits(bits))),
                format!("Face (mkFace {} {} {})", coq_orgba(fg), coq_orgba(bg), bits),
            )
        }
        "FaceModify" => {
            let fg = rgba_of(&c["fg"]);
            let bg = rgba_of(&c["bg"]);
            let uc = rgba_of(&c["ucolor"]);
            colors.extend(fg);
            colors.extend(bg);
            colors.extend(uc);
            let ul = c["underline"].as_str();
            let m = FaceModify {
                reset: c["reset"].as_bool().unwrap_or(false),
                fg,
                bg,
                underline: ul.map(style_of),
                underline_color: uc,
                bold: obool(&c["bold"]),
                italic: obool(&c["italic"]),
                blink: obool(&c["blink"]),
                strike: obool(&c["strike"]),
            };
            let coq = format!(
                "FaceModify (mkFM {} {} {} {} {} {} {} {} {})",
                cbool(m.reset),
                coq_orgba(fg),
                coq_orgba(bg),
                copt(ul.map(|s| STYLES.iter().find(|x| **x == s).unwrap_or(&"UNone").to_string())),
                coq_orgba(uc),
                coq_obool(m.bold),
                coq_obool(m.italic),
                coq_obool(m.blink),
                coq_obool(m.strike)
            );
            (TerminalCommand::FaceModify(m), coq)
        }
        "FaceGet" => (TerminalCommand::FaceGet, "FaceGet".into()),
        "DecModeSet" => {
            let mode = c["mode"].as_str().unwrap_or("AutoWrap");
            let enable = c["enable"].as_bool().unwrap_or(false);
            (
                TerminalCommand::DecModeSet { enable, mode: mode_of(mode) },
                format!("DecModeSet {} {}", cbool(enable), MODES.iter().find(|x| **x == mode).unwrap_or(&"BracketedPaste")),
            )
        }
        "DecModeGet" => {
            let mode = c["mode"].as_str().unwrap_or("AutoWrap");
            (
                TerminalCommand::DecModeGet(mode_of(mode)),
                format!("DecModeGet {}", MODES.iter().find(|x| **x == mode).unwrap_or(&"BracketedPaste")),
            )
        }
        "CursorGet" => (TerminalCommand::CursorGet, "CursorGet".into()),
        "CursorTo" => {
            let (r, k) = (us(&c["row"]), us(&c["col"]));
            (TerminalCommand::CursorTo(Position::new(r, k)), format!("CursorTo {} {}", r, k))
        }
        "CursorMove" => {
            let (r, k) = (i32v(&c["row"]), i32v(&c["col"]));
            (TerminalCommand::CursorMove { row: r, col: k }, format!("CursorMove {} {}", cz(r as i128), cz(k as i128)))
        }
        "CursorSave" => (TerminalCommand::CursorSave, "CursorSave".into()),
        "CursorRestore" => (TerminalCommand::CursorRestore, "CursorRestore".into()),
        "EraseLineLeft" => (TerminalCommand::EraseLineLeft, "EraseLineLeft".into()),
        "EraseLineRight" => (TerminalCommand::EraseLineRight, "EraseLineRight".into()),
        "EraseLine" => (TerminalCommand::EraseLine, "EraseLine".into()),
        "EraseScreen" => (TerminalCommand::EraseScreen, "EraseScreen".into()),
        "EraseChars" => {
            let n = us(&c["n"]);
            (TerminalCommand::EraseChars(n), format!("EraseChars {}", n))
        }
        "Scroll" => {
            let n = i32v(&c["n"]);
            (TerminalCommand::Scroll(n), format!("Scroll {}", cz(n as i128)))
        }
        "ScrollRegion" => {
            let (s, e) = (us(&c["start"]), us(&c["end"]));
            (TerminalCommand::ScrollRegion { start: s, end: e }, format!("ScrollRegion {} {}", s, e))
        }
        "Image" | "ImageErase" => {
            let img = Image::new(SurfaceOwned::new_with(Size { height: 1, width: 2 }, |_| RGBA::new(1, 2, 3, 255)));
            if t == "Image" {
                (TerminalCommand::Image(img, Position::new(1, 2)), "Image".into())
            } else {
                (TerminalCommand::ImageErase(img, None), "ImageErase".into())
            }
        }
        "Termcap" => {
            let names: Vec<String> =
                c["names"].as_array().map(|a| a.iter().map(|x| x.as_str().unwrap_or("").to_string()).collect()).unwrap_or_default();
            let coq = format!("Termcap {}", clist(names.iter().map(|n| cbytes(n.as_bytes()))));
            (TerminalCommand::Termcap(names), coq)
        }
        "Color" => {
            let color = rgba_of(&c["color"]);
            let (name, cn) = match &c["name"] {
                Value::String(s) if s == "bg" => (TerminalColor::Background, "TBackground".to_string()),
                Value::String(s) if s == "fg" => (TerminalColor::Foreground, "TForeground".to_string()),
                v => {
                    let i = us(&v["palette"]);
                    (TerminalColor::Palette(i), format!("(TPalette {})", i))
                }
            };
            (TerminalCommand::Color { name, color }, format!("Color {} {}", cn, coq_orgba(color)))
        }
        "Title" => {
            let s = c["title"].as_str().unwrap_or("").to_string();
            let coq = format!("Title {}", clist(s.chars().map(|ch| (ch as u32).to_string())));
            (TerminalCommand::Title(s), coq)
        }
        "DeviceAttrs" => (TerminalCommand::DeviceAttrs, "DeviceAttrs".into()),
        "KeyboardLevel" => {
            let n = us(&c["level"]);
            (TerminalCommand::KeyboardLevel(n), format!("KeyboardLevel {}", n))
        }
        "Raw" => {
            let d = vbytes(&c["data"]);
            let coq = format!("Raw {}", cbytes(&d));
            (TerminalCommand::Raw(d), coq)
        }
        "Reset" => (TerminalCommand::Reset, "Reset".into()),
        other => panic!("harness: unknown command kind {:?}", other),
    };
    (cmd, format!("({})", coq), colors)
}

pub fn encode_bytes(caps: &TerminalCaps, cmd: TerminalCommand) -> Option<Vec<u8>> {
    let caps = caps.clone();
    catch(move || {
        let mut enc = TTYEncoder::new(caps);
        let mut out = Vec::new();
        match enc.encode(&mut out, cmd) {
            Ok(()) => Some(out),
            Err(_) => None,
        }
    })
    .flatten()
}

/// What the implementation selects for one colour under a reduced depth, observed on a face
/// that carries only this colour as foreground: palette index (EightBit) or level 0..3 (Gray).
pub fn oracle_answer(caps: &TerminalCaps, c: RGBA) -> Option<u64> {
    let out = encode_bytes(caps, TerminalCommand::Face(Face::new(Some(c), None, FaceAttrs::EMPTY)))?;
    let s = std::str::from_utf8(&out).ok()?;
    let body = s.strip_prefix("\x1b[0;")?.strip_suffix('m')?;
    let parts: Vec<&str> = body.split(';').collect();
    match caps.depth {
        ColorDepth::EightBit => {
            if parts.len() == 3 && parts[0] == "38" && parts[1] == "5" {
                parts[2].parse().ok()
            } else {
                None
            }
        }
        ColorDepth::Gray => {
            if parts.len() == 1 {
                match parts[0] {
                    "30" => Some(0),
                    "90" => Some(1),
                    "37" => Some(2),
                    "97" => Some(3),
                    _ => None,
                }
            } else {
                None
            }
        }
        ColorDepth::TrueColor => None,
    }
}

// ------------------------------------------------------------------ a writer that fails

/// accepts `budget` more bytes, then every write is an io::Error
struct BudgetWriter {
    buf: Vec<u8>,
    budget: usize,
}
impl std::io::Write for BudgetWriter {
    fn write(&mut self, data: &[u8]) -> std::io::Result<usize> {
        if data.is_empty() {
            return Ok(0);
        }
        if self.budget == 0 {
            return Err(std::io::Error::new(std::io::ErrorKind::Other, "budget exhausted"));
        }
        let n = self.budget.min(data.len());
        self.buf.extend_from_slice(&data[..n]);
        self.budget -= n;
        Ok(n)
    }
    fn flush(&mut self) -> std::io::Result<()> {
        Ok(())
    }
}

/// ONE encoder object: `x` into a writer with budget k, then `ys` into a healthy writer.
fn run_failwrite(input: &Value) -> Case {
    let caps = caps_of(&input["caps"]);
    let k = input["k"].as_u64().unwrap_or(0) as usize;
    let (x, coq_x, mut colors) = build(&input["x"]);
    let ys_v: Vec<Value> = input["ys"].as_array().cloned().unwrap_or_default();
    let mut ys = vec![];
    let mut coq_ys = vec![];
    for y in &ys_v {
        let (c, q, cs) = build(y);
        ys.push(c);
        coq_ys.push(q);
        colors.extend(cs);
    }
    let mut oracle = vec![];
    let mut seen: Vec<RGBA> = vec![];
    if caps.depth != ColorDepth::TrueColor {
        for c in &colors {
            if !seen.contains(c) {
                seen.push(*c);
                if let Some(i) = oracle_answer(&caps, *c) {
                    oracle.push(format!("({}, {})", coq_rgba(*c), i));
                }
            }
        }
    }
    let caps2 = caps.clone();
    let res = catch(move || {
        let mut enc = TTYEncoder::new(caps2);
        let mut w = BudgetWriter { buf: vec![], budget: k };
        let ok = enc.encode(&mut w, x).is_ok();
        let mut out = Vec::new();
        let mut follow_ok = true;
        for y in ys {
            if enc.encode(&mut out, y).is_err() {
                follow_ok = false;
            }
        }
        (w.buf, ok, if follow_ok { Some(out) } else { None })
    });
    let depth = input["caps"]["depth"].as_str().unwrap_or("true");
    let (failed, ok, follow) = res.clone().unwrap_or((vec![], true, None));
    let coq = format!(
        "FailWrite (mkCaps {} {} {}) {} {} {} {} {} {} {}",
        coq_depth(depth),
        cbool(caps.glyphs),
        cbool(caps.kitty_keyboard),
        coq_x,
        k,
        clist(coq_ys),
        clist(oracle),
        cbytes(&failed),
        cbool(ok && res.is_some()),
        copt(follow.as_ref().map(|b| cbytes(b)))
    );
    let mut j = input.clone();
    j["impl"] = match &res {
        Some((f, ok, fo)) => json!({"delivered": String::from_utf8_lossy(f), "ok": ok, "later": fo.as_ref().map(|b| String::from_utf8_lossy(b).to_string())}),
        None => json!("panic"),
    };
    Case {
        coq,
        json: j,
        tags: vec!["cmd=FailWrite".to_string(), format!("failed={}", !ok), format!("x={}", input["x"]["t"].as_str().unwrap_or("?"))],
        nontrivial: !ok,
    }
}

/// every prefix length of the encoding of each command that uses encoder-private state (the SGR arms)
/// and of a few others, followed by modifications that would show anything left behind
fn failwrite_cases(rng: &mut Rng, thorough: bool, v: &mut Vec<Value>) {
    let red = json!([255, 0, 0, 255]);
    let fm = |reset: bool, fg: Value, bold: Value, ul: Value| {
        json!({"t": "FaceModify", "reset": reset, "fg": fg, "bg": null, "underline": ul, "ucolor": null,
               "bold": bold, "italic": null, "blink": null, "strike": null})
    };
    let xs = vec![
        json!({"t": "Face", "fg": red, "bg": null, "bits": 24}),
        json!({"t": "Face", "fg": null, "bg": color_pool(rng), "bits": 3 + 8 + 128}),
        json!({"t": "Face", "fg": null, "bg": null, "bits": 0}),
        fm(true, red.clone(), json!(true), json!("UCurly")),
        fm(false, Value::Null, json!(false), Value::Null),
        fm(false, color_pool(rng), Value::Null, json!("UNone")),
        json!({"t": "DecModeSet", "enable": true, "mode": "AltScreen"}),
        json!({"t": "DecModeSet", "enable": false, "mode": "AltScreen"}),
        json!({"t": "KeyboardLevel", "level": "5"}),
        json!({"t": "CursorTo", "row": "12", "col": "345"}),
        json!({"t": "CursorMove", "row": "-3", "col": "4"}),
        json!({"t": "Title", "title": "ab"}),
        json!({"t": "Termcap", "names": ["TN", "Co"]}),
        json!({"t": "Color", "name": {"palette": "1"}, "color": [1, 2, 3, 255]}),
    ];
    let empty = fm(false, Value::Null, Value::Null, Value::Null);
    let bold = fm(false, Value::Null, json!(true), Value::Null);
    let later: Vec<Vec<Value>> = vec![
        vec![empty.clone(), bold.clone()],
        vec![bold.clone(), empty.clone(), json!({"t": "KeyboardLevel", "level": "5"})],
        vec![fm(false, color_pool(rng), Value::Null, json!("UDashed")), json!({"t": "Face", "fg": null, "bg": null, "bits": 16})],
        vec![json!({"t": "DecModeSet", "enable": true, "mode": "AltScreen"}), empty.clone(), json!({"t": "CursorTo", "row": "0", "col": "0"})],
    ];
    for (i, depth) in DEPTHS.iter().enumerate() {
        let caps_v = caps_json(depth, true, false);
        let caps = caps_of(&caps_v);
        for (j, x) in xs.iter().enumerate() {
            let len = encode_bytes(&caps, build(x).0).map(|b| b.len()).unwrap_or(0);
            // budgets 0 ..= len (len = the whole command fits); under the two reduced depths every other budget in quick
            for k in 0..=len {
                if !thorough && i > 0 && (k + j) % 2 == 1 {
                    continue;
                }
                let ys = &later[(k + j) % later.len()];
                v.push(json!({"kind": "failwrite", "caps": caps_v, "x": x, "k": k, "ys": ys}));
            }
        }
    }
    // random: any command, any budget, random later commands
    for _ in 0..(if thorough { 3000 } else { 200 }) {
        let caps_v = rand_caps(rng);
        let x = loop {
            let c = rand_cmd(rng);
            if c["t"] != "Raw" {
                break c;
            }
        };
        let len = encode_bytes(&caps_of(&caps_v), build(&x).0).map(|b| b.len()).unwrap_or(0);
        let k = rng.below(len as u64 + 2);
        let n = 1 + rng.below(3);
        let ys: Vec<Value> = (0..n)
            .map(|_| match rng.below(4) {
                0 => empty.clone(),
                1 => bold.clone(),
                _ => loop {
                    let c = rand_cmd(rng);
                    if c["t"] != "Raw" {
                        break c;
                    }
                },
            })
            .collect();
        v.push(json!({"kind": "failwrite", "caps": caps_v, "x": x, "k": k, "ys": ys}));
    }
}

// ------------------------------------------------------------------ renderer sessions (C05 o C01)

/// a Terminal that records the commands the renderer issues
struct RecTerm {
    size: TerminalSize,
    cmds: Vec<TerminalCommand>,
    caps: TerminalCaps,
}
impl std::io::Write for RecTerm {
    fn write(&mut self, buf: &[u8]) -> std::io::Result<usize> {
        Ok(buf.len())
    }
    fn flush(&mut self) -> std::io::Result<()> {
        Ok(())
    }
}
impl Terminal for RecTerm {
    fn execute(&mut self, cmd: TerminalCommand) -> Result<(), Error> {
        self.cmds.push(cmd);
        Ok(())
    }
    fn poll(&mut self, _timeout: Option<std::time::Duration>) -> Result<Option<TerminalEvent>, Error> {
        Ok(None)
    }
    fn size(&self) -> Result<TerminalSize, Error> {
        Ok(self.size)
    }
    fn position(&mut self) -> Result<Position, Error> {
        Ok(Position::new(0, 0))
    }
    fn waker(&self) -> TerminalWaker {
        TerminalWaker::new(|| Ok(()))
    }
    fn frames_pending(&self) -> usize {
        0
    }
    fn frames_drop(&mut self) {}
    fn dyn_ref(&mut self) -> &mut dyn Terminal {
        self
    }
    fn capabilities(&self) -> &TerminalCaps {
        &self.caps
    }
}

const S_NARROW: [u32; 6] = [0x20, 0x61, 0x62, 0x78, 0x2500, 0xE9];
const S_WIDE: [u32; 2] = [0x4E16, 0x1F600];

fn shows_on_blank(f: Face) -> bool {
    f.attrs.underline() != UnderlineStyle::None || f.attrs.contains(FaceAttrs::REVERSE) || f.attrs.contains(FaceAttrs::STRIKE)
}
/// how a space printed in face f looks / how a cell erased under face f looks (as in the C01 harness)
fn look_of_space(f: Face) -> Face {
    if shows_on_blank(f) {
        let mut attrs = FaceAttrs::EMPTY;
        for a in [FaceAttrs::REVERSE, FaceAttrs::STRIKE] {
            if f.attrs.contains(a) {
                attrs = attrs.insert(a);
            }
        }
        attrs = attrs.insert(FaceAttrs::from(f.attrs.underline()));
        Face::new(f.fg, f.bg, attrs)
    } else {
        Face::new(None, f.bg, FaceAttrs::EMPTY)
    }
}
fn look_of_erased(f: Face) -> Face {
    Face::new(None, f.bg, FaceAttrs::EMPTY)
}

fn session_faces() -> Vec<Face> {
    let red = Some(RGBA::new(200, 30, 30, 255));
    let blue = Some(RGBA::new(20, 40, 160, 255));
    let mut faces = vec![
        Face::default(),
        Face::new(red, None, FaceAttrs::EMPTY),
        Face::new(None, blue, FaceAttrs::EMPTY),
        Face::new(Some(RGBA::new(250, 250, 10, 255)), Some(RGBA::new(10, 90, 10, 255)), FaceAttrs::BOLD),
        Face::new(red, blue, FaceAttrs::ITALIC | FaceAttrs::BLINK),
        Face::new(None, blue, FaceAttrs::UNDERLINE),
        Face::new(red, None, FaceAttrs::REVERSE),
        Face::new(None, blue, FaceAttrs::STRIKE | FaceAttrs::UNDERLINE_CURLY),
    ];
    let n = faces.len();
    for i in 0..n {
        for f in [look_of_space(faces[i]), look_of_erased(faces[i])] {
            if !faces.contains(&f) {
                faces.push(f);
            }
        }
    }
    faces
}

fn face_bits(f: Face) -> u64 {
    let u = match f.attrs.underline() {
        UnderlineStyle::None => 0,
        UnderlineStyle::Straight => 1,
        UnderlineStyle::Double => 2,
        UnderlineStyle::Curly => 3,
        UnderlineStyle::Dotted => 4,
        UnderlineStyle::Dashed => 5,
    };
    let flags = [FaceAttrs::BOLD, FaceAttrs::ITALIC, FaceAttrs::BLINK, FaceAttrs::REVERSE, FaceAttrs::STRIKE];
    u + flags.iter().enumerate().map(|(k, a)| if f.attrs.contains(*a) { 8u64 << k } else { 0 }).sum::<u64>()
}

/// One renderer session: surfaces are [[ [face id, char], .. ], ..] per frame.
fn run_session(input: &Value) -> Case {
    let h = input["h"].as_u64().unwrap_or(2) as usize;
    let w = input["w"].as_u64().unwrap_or(4) as usize;
    let faces = session_faces();
    let frames: Vec<Vec<Vec<(usize, u32)>>> = input["frames"]
        .as_array()
        .map(|fs| {
            fs.iter()
                .map(|s| {
                    s.as_array()
                        .map(|rows| {
                            rows.iter()
                                .map(|r| {
                                    r.as_array()
                                        .map(|cs| {
                                            cs.iter()
                                                .map(|c| (c[0].as_u64().unwrap_or(0) as usize % faces.len(), c[1].as_u64().unwrap_or(32) as u32))
                                                .collect()
                                        })
                                        .unwrap_or_default()
                                })
                                .collect()
                        })
                        .unwrap_or_default()
                })
                .collect()
        })
        .unwrap_or_default();
    let idx = |f: Face| faces.iter().position(|x| *x == f).unwrap_or(9999);
    let faces2 = faces.clone();
    let frames2 = frames.clone();
    let res = catch(move || {
        let mut term = RecTerm {
            size: TerminalSize { cells: Size::new(h, w), pixels: Size::new(h * 20, w * 10) },
            cmds: vec![],
            caps: TerminalCaps { depth: ColorDepth::TrueColor, glyphs: false, kitty_keyboard: false },
        };
        let mut rend = TerminalRenderer::new(&mut term, false).expect("renderer");
        // the bytes of everything the renderer issues go through ONE encoder object
        let mut enc = TTYEncoder::new(term.caps.clone());
        let mut out = vec![];
        for surf in &frames2 {
            term.cmds.clear();
            {
                let mut s = rend.surface();
                for (r, row) in surf.iter().enumerate() {
                    for (c, (f, ch)) in row.iter().enumerate() {
                        if r < h && c < w {
                            s.set(Position::new(r, c), Cell::new_char(faces2[*f], char::from_u32(*ch).unwrap_or(' ')));
                        }
                    }
                }
            }
            rend.frame(&mut term).expect("frame");
            let mut names = vec![];
            let mut bytes: Option<Vec<u8>> = Some(vec![]);
            for cmd in term.cmds.drain(..) {
                names.push(match &cmd {
                    TerminalCommand::Face(f) => format!("Screen.CFace {}", faces2.iter().position(|x| x == f).unwrap_or(9999)),
                    TerminalCommand::CursorTo(p) => format!("Screen.CCursorTo {}%nat {}%nat", p.row, p.col),
                    TerminalCommand::Char(c) => format!("Screen.CChar {}", *c as u32),
                    TerminalCommand::EraseChars(n) => format!("Screen.CEraseChars {}%nat", n),
                    TerminalCommand::DecModeSet { enable, mode: DecMode::SynchronizedOutput } => format!("Screen.CSync {}", enable),
                    _ => "Screen.COther".to_string(),
                });
                if let Some(b) = bytes.as_mut() {
                    if enc.encode(&mut *b, cmd).is_err() {
                        bytes = None;
                    }
                }
            }
            out.push((names, bytes));
        }
        out
    });
    let mut chars: Vec<u32> = vec![32];
    for s in &frames {
        for r in s {
            for (_, ch) in r {
                if !chars.contains(ch) {
                    chars.push(*ch);
                }
            }
        }
    }
    let width = |ch: u32| if S_WIDE.contains(&ch) { 2 } else { 1 };
    let coq_face = |f: &Face| {
        format!("(Encode.mkFace {} {} {})", coq_orgba(f.fg), coq_orgba(f.bg), face_bits(*f))
    };
    let obs: Vec<String> = match &res {
        Some(out) => frames
            .iter()
            .zip(out.iter())
            .map(|(s, (names, bytes))| {
                format!(
                    "C05bCorr.mkFrameObs {} {} {}",
                    clist(s.iter().map(|r| clist(r.iter().map(|(f, ch)| format!("Cell.mkcell {} (Cell.KChar {})", f, ch))))),
                    clist(names.iter().cloned()),
                    copt(bytes.as_ref().map(|b| cbytes(b)))
                )
            })
            .collect(),
        None => vec!["C05bCorr.mkFrameObs [] [] None".to_string()],
    };
    let coq = format!(
        "Session (C05bCorr.mkSession {} {} {} {} {} {} {} {})",
        h,
        w,
        clist(chars.iter().map(|c| format!("({}, {})", c, width(*c)))),
        clist(faces.iter().enumerate().map(|(i, f)| format!("({}, {})", i, coq_face(f)))),
        clist((0..faces.len()).map(|i| format!("({}, {})", i, idx(look_of_space(faces[i]))))),
        clist((0..faces.len()).map(|i| format!("({}, {})", i, idx(look_of_erased(faces[i]))))),
        clist((0..faces.len()).filter(|i| !shows_on_blank(faces[*i])).map(|i| i.to_string())),
        clist(obs)
    );
    let mut j = input.clone();
    j["impl"] = match &res {
        Some(out) => json!(out
            .iter()
            .map(|(names, bytes)| json!({"cmds": names, "bytes": bytes.as_ref().map(|b| String::from_utf8_lossy(b).to_string())}))
            .collect::<Vec<_>>()),
        None => json!("panic"),
    };
    let has_wide = chars.iter().any(|c| S_WIDE.contains(c));
    Case {
        coq,
        json: j,
        tags: vec!["cmd=Session".to_string(), format!("wide={}", has_wide), format!("frames={}", frames.len())],
        nontrivial: frames.len() >= 2,
    }
}

fn gen_session(rng: &mut Rng) -> Value {
    let h = 1 + rng.below(3) as usize;
    let w = 3 + rng.below(8) as usize;
    let nfaces = 8u64;
    let k = 2 + rng.below(3) as usize;
    let mut frames = vec![];
    let mut prev: Option<Vec<Vec<(u64, u32)>>> = None;
    for _ in 0..k {
        // start from the previous surface (incremental rendering) or from blanks, then edit
        let mut s: Vec<Vec<(u64, u32)>> = match (&prev, rng.below(3)) {
            (Some(p), 0 | 1) => p.clone(),
            _ => vec![vec![(0, 32); w]; h],
        };
        let edits = 1 + rng.below((h * w) as u64 / 2 + 2);
        for _ in 0..edits {
            let (r, c) = (rng.below(h as u64) as usize, rng.below(w as u64) as usize);
            match rng.below(6) {
                0 if c + 2 <= w => s[r][c] = (rng.below(nfaces), *rng.pick(&S_WIDE)),
                1 => {
                    // a run of blanks in one face (long runs are erased with ECH when the face allows it)
                    let f = rng.below(nfaces);
                    let n = 1 + rng.below(w as u64) as usize;
                    for x in c..(c + n).min(w) {
                        s[r][x] = (f, 32);
                    }
                }
                _ => {
                    let ch = *rng.pick(&S_NARROW);
                    s[r][c] = (rng.below(nfaces), ch);
                }
            }
        }
        // a wide character must not start in the last column
        for row in s.iter_mut() {
            if S_WIDE.contains(&row[w - 1].1) {
                row[w - 1].1 = 0x61;
            }
        }
        prev = Some(s.clone());
        frames.push(json!(s.iter().map(|r| r.iter().map(|(f, ch)| json!([f, ch])).collect::<Vec<_>>()).collect::<Vec<_>>()));
    }
    json!({"kind": "session", "h": h, "w": w, "frames": frames})
}

pub fn run(input: &Value) -> Case {
    if input["kind"] == "session" {
        return run_session(input);
    }
    if input["kind"] == "failwrite" {
        return run_failwrite(input);
    }
    let caps = caps_of(&input["caps"]);
    let stream = input.get("cmds").and_then(|v| v.as_array()).cloned();
    let cmd_values: Vec<Value> = match &stream {
        Some(a) => a.clone(),
        None => vec![input["cmd"].clone()],
    };
    let mut cmds = vec![];
    let mut coq_cmds = vec![];
    let mut colors = vec![];
    for c in &cmd_values {
        let (cmd, coq_cmd, cs) = build(c);
        cmds.push(cmd);
        coq_cmds.push(coq_cmd);
        colors.extend(cs);
    }
    let kind = if stream.is_some() {
        if input["kind"] == "repeat" { "StreamRepeat".to_string() } else { "Stream".to_string() }
    } else { cmd_values[0]["t"].as_str().unwrap_or("Reset").to_string() };
    let mut oracle = vec![];
    let mut seen: Vec<RGBA> = vec![];
    if caps.depth != ColorDepth::TrueColor {
        for c in &colors {
            if seen.contains(c) {
                continue;
            }
            seen.push(*c);
            if let Some(i) = oracle_answer(&caps, *c) {
                oracle.push(format!("({}, {})", coq_rgba(*c), i));
            }
        }
    }
    // all commands go through ONE encoder object into one output, which may already hold a
    // complete prefix (`pre`); the bytes after the prefix are the observation
    let pre = vbytes(&input["pre"]);
    let out = {
        let caps2 = caps.clone();
        let pre2 = pre.clone();
        catch(move || {
            let mut enc = TTYEncoder::new(caps2);
            let mut out = pre2.clone();
            for cmd in cmds {
                if enc.encode(&mut out, cmd).is_err() {
                    return None;
                }
            }
            Some(out[pre2.len()..].to_vec())
        })
        .flatten()
    };
    let depth = input["caps"]["depth"].as_str().unwrap_or("true");
    let coq = format!(
        "{} (mkCaps {} {} {}) {} {} {}",
        if stream.is_some() { "Stream" } else { "Case" },
        coq_depth(depth),
        cbool(caps.glyphs),
        cbool(caps.kitty_keyboard),
        if stream.is_some() { format!("{} {}", cbytes(&pre), clist(coq_cmds)) } else { coq_cmds[0].clone() },
        clist(oracle),
        copt(out.as_ref().map(|b| cbytes(b)))
    );
    let mut j = input.clone();
    j["impl"] = match &out {
        Some(b) => json!(String::from_utf8_lossy(b)),
        None => json!("panic"),
    };
    // streams / commands with a Char that would open a control sequence (ESC, C1 DCS SOS CSI OSC PM APC):
    // the former known class C05-char-introducer, fixed by crate commit 73d8d1c
    let introducer = cmd_values.iter().any(|c| {
        c["t"] == "Char" && matches!(c["c"].as_u64().unwrap_or(0), 27 | 0x90 | 0x98 | 0x9b | 0x9d | 0x9e | 0x9f)
    });
    let fixed = matches!(
        kind.as_str(),
        "FaceGet" | "CursorGet" | "CursorSave" | "CursorRestore" | "EraseLineLeft" | "EraseLineRight" | "EraseLine"
            | "EraseScreen" | "Reset" | "Image" | "ImageErase" | "DeviceAttrs"
    );
    Case {
        coq,
        json: j,
        tags: vec![
            format!("cmd={}", kind),
            format!("depth={}", depth),
            format!("kitty={}", caps.kitty_keyboard),
            format!("res={}", if out.is_some() { "bytes" } else { "panic" }),
            format!("introducer={}", introducer),
        ],
        nontrivial: !fixed,
    }
}

// ------------------------------------------------------------------ generators

thread_local! {
    /// integer constants written in the encoder / terminal sources right now, with their neighbours:
    /// a threshold a change introduces is aimed at without knowing it in advance
    static BOUNDS: Vec<u64> = source_boundaries(&["src/encoder.rs", "src/terminal.rs", "src/face.rs"], u64::MAX);
}
fn source_bound(rng: &mut Rng) -> Option<u64> {
    BOUNDS.with(|b| if b.is_empty() { None } else { Some(b[rng.below(b.len() as u64) as usize]) })
}

fn usize_pool(rng: &mut Rng) -> String {
    if rng.chance(1, 6) {
        if let Some(v) = source_bound(rng) {
            return v.to_string();
        }
    }
    let m = usize::MAX as u128;
    let cands: [u128; 24] = [
        0, 1, 2, 8, 9, 10, 11, 99, 100, 255, 256, 999, 1000, 65535, 65536, (1 << 31) - 1, 1 << 31, (1 << 32) - 1, 1 << 32,
        (1 << 63) - 1, 1 << 63, m - 1, m, 12345678901234567890,
    ];
    match rng.below(10) {
        0..=4 => cands[rng.below(24) as usize].to_string(),
        5..=6 => rng.below(300).to_string(),
        7 => (10u128.pow(rng.below(20) as u32) - rng.below(2) as u128).to_string(),
        _ => rng.next().to_string(),
    }
}
fn i32_pool(rng: &mut Rng) -> String {
    if rng.chance(1, 6) {
        if let Some(v) = source_bound(rng) {
            let v = (v.min(i32::MAX as u64)) as i64;
            return (if rng.chance(1, 2) { v } else { -v }).to_string();
        }
    }
    let cands: [i64; 20] = [
        i32::MIN as i64, i32::MIN as i64 + 1, -65536, -1000, -100, -10, -9, -2, -1, 0, 1, 2, 9, 10, 100, 1000, 65536,
        i32::MAX as i64 - 1, i32::MAX as i64, 0,
    ];
    match rng.below(10) {
        0..=5 => cands[rng.below(20) as usize].to_string(),
        6..=7 => rng.range(-300, 300).to_string(),
        _ => (rng.next() as i32).to_string(),
    }
}
pub fn color_pool(rng: &mut Rng) -> Value {
    let ch = |rng: &mut Rng| -> u64 {
        match rng.below(4) {
            0 => *rng.pick(&[0u64, 1, 9, 10, 15, 16, 95, 99, 100, 127, 128, 135, 175, 215, 254, 255]),
            _ => rng.below(256),
        }
    };
    let a = match rng.below(4) {
        0 => *rng.pick(&[0u64, 1, 15, 16, 127, 254]),
        _ => 255,
    };
    json!([ch(rng), ch(rng), ch(rng), a])
}
fn ocolor(rng: &mut Rng, p: u64) -> Value {
    if rng.below(100) < p {
        color_pool(rng)
    } else {
        Value::Null
    }
}
fn caps_json(depth: &str, kitty: bool, glyphs: bool) -> Value {
    json!({"depth": depth, "kitty": kitty, "glyphs": glyphs})
}
fn rand_caps(rng: &mut Rng) -> Value {
    caps_json(*rng.pick(&DEPTHS), rng.chance(1, 2), rng.chance(1, 2))
}
fn rand_text(rng: &mut Rng, allow_c0: bool) -> String {
    // mostly short, sometimes long, occasionally very long
    let n = match rng.below(100) {
        0 => 300 + rng.below(200) as usize,
        1..=9 => rng.below(64) as usize,
        _ => rng.below(12) as usize,
    };
    let mut s = String::new();
    for _ in 0..n {
        let c = match rng.below(12) {
            0 => ';' as u32,
            1 => *rng.pick(&[0x20u32, 0x7e, 0xa0, 0xff, 0x100, 0x7ff, 0x800, 0xd7ff, 0xe000, 0xfffd, 0xffff, 0x10000, 0x10ffff, 0x9b + 0x100]),
            2 => 0xa0 + rng.below(0x700) as u32,
            3 => 0x800 + rng.below(0xd000) as u32,
            4 => 0x10000 + rng.below(0x100000) as u32,
            5 if allow_c0 => rng.below(32) as u32,
            6 => *rng.pick(&['\\' as u32, '[' as u32, ']' as u32, 'm' as u32, '?' as u32, ':' as u32, '#' as u32]),
            _ => 0x20 + rng.below(0x5f) as u32,
        };
        if let Some(ch) = char::from_u32(c) {
            if allow_c0 || !ch.is_control() {
                s.push(ch);
            }
        }
    }
    s
}

fn rand_cmd(rng: &mut Rng) -> Value {
    match rng.below(24) {
        0 => {
            let c = match rng.below(8) {
                0 => *rng.pick(&[0u32, 7, 8, 9, 10, 13, 24, 26, 28, 31, 32, 126, 160, 0x7ff, 0x800, 0xd7ff, 0xe000, 0xffff, 0x10000, 0x10ffff]),
                1 => rng.below(32) as u32,                       // every C0 control, ESC included
                2 => 0x7f + rng.below(0x21) as u32,              // DEL and every C1 control
                3 => *rng.pick(&[27u32, 0x90, 0x98, 0x9b, 0x9d, 0x9e, 0x9f, 0x9c, 0x7f, 0x85]),
                4 => 0x10000 + rng.below(0x100000) as u32,
                5 => 0xa0 + rng.below(0xd700) as u32,
                _ => 0x20 + rng.below(0x5f) as u32,
            };
            json!({"t": "Char", "c": c})
        }
        1 | 2 | 3 => json!({"t": "Face", "fg": ocolor(rng, 60), "bg": ocolor(rng, 60), "bits": valid_bits(rng.below(256))}),
        4 | 5 | 6 => {
            let ob = |rng: &mut Rng| -> Value {
                match rng.below(3) {
                    0 => Value::Null,
                    1 => json!(true),
                    _ => json!(false),
                }
            };
            let ul = if rng.chance(1, 2) { Value::Null } else { json!(*rng.pick(&STYLES)) };
            json!({"t": "FaceModify", "reset": rng.chance(1, 3), "fg": ocolor(rng, 40), "bg": ocolor(rng, 40), "underline": ul,
                   "ucolor": ocolor(rng, 40), "bold": ob(rng), "italic": ob(rng), "blink": ob(rng), "strike": ob(rng)})
        }
        7 => json!({"t": "DecModeSet", "enable": rng.chance(1, 2), "mode": *rng.pick(&MODES)}),
        8 => json!({"t": "DecModeGet", "mode": *rng.pick(&MODES)}),
        9 | 10 => json!({"t": "CursorTo", "row": usize_pool(rng), "col": usize_pool(rng)}),
        11 | 12 => json!({"t": "CursorMove", "row": i32_pool(rng), "col": i32_pool(rng)}),
        13 => json!({"t": "EraseChars", "n": usize_pool(rng)}),
        14 => json!({"t": "Scroll", "n": i32_pool(rng)}),
        15 | 16 => {
            let s = usize_pool(rng);
            let e = if rng.chance(1, 4) { s.clone() } else { usize_pool(rng) };
            json!({"t": "ScrollRegion", "start": s, "end": e})
        }
        17 => {
            let k = rng.below(4) as usize;
            let names: Vec<String> = (0..k)
                .map(|_| match rng.below(4) {
                    0 => rand_text(rng, true),
                    1 => (*rng.pick(&["TN", "Co", "RGB", "colors", "Smulx", "Setulc", "kbs", "\u{1}", "a\u{f}b", "\t"])).to_string(),
                    _ => {
                        let n = 1 + rng.below(6) as usize;
                        (0..n).map(|_| (b'0' + rng.below(75) as u8) as char).collect()
                    }
                })
                .collect();
            json!({"t": "Termcap", "names": names})
        }
        18 | 19 => {
            let name = match rng.below(3) {
                0 => json!("bg"),
                1 => json!("fg"),
                _ => json!({"palette": if rng.chance(2, 3) { rng.below(256).to_string() } else { usize_pool(rng) }}),
            };
            json!({"t": "Color", "name": name, "color": ocolor(rng, 66)})
        }
        20 => json!({"t": "Title", "title": rand_text(rng, false)}),
        21 => json!({"t": "KeyboardLevel", "level": if rng.chance(1, 2) { rng.below(32).to_string() } else { usize_pool(rng) }}),
        22 => {
            let fixed = ["FaceGet", "CursorGet", "CursorSave", "CursorRestore", "EraseLineLeft", "EraseLineRight", "EraseLine",
                         "EraseScreen", "Reset", "Image", "ImageErase", "DeviceAttrs"];
            json!({"t": *rng.pick(&fixed)})
        }
        _ => {
            // Raw: the bytes of another command (complete sequences) or a few printable bytes
            let data: Vec<u8> = match rng.below(3) {
                0 => (0..rng.below(6)).map(|_| 0x20 + rng.below(0x5f) as u8).collect(),
                1 => b"\x1b[1;2H\x1b[38:2::1:2:3m".to_vec(),
                _ => b"\x1b]2;t\x07\x1b[?25l".to_vec(),
            };
            json!({"t": "Raw", "data": jbytes(&data)})
        }
    }
}

/// commands whose effect is a piece of terminal state: candidates for being sent twice
fn stateful_cmds(rng: &mut Rng) -> Vec<Value> {
    let face = json!({"t": "Face", "fg": color_pool(rng), "bg": null, "bits": 9});
    vec![
        json!({"t": "KeyboardLevel", "level": "5"}),
        json!({"t": "KeyboardLevel", "level": "0"}),
        json!({"t": "KeyboardLevel", "level": "3"}),
        json!({"t": "DecModeSet", "enable": true, "mode": "AltScreen"}),
        json!({"t": "DecModeSet", "enable": false, "mode": "AltScreen"}),
        json!({"t": "DecModeSet", "enable": false, "mode": "VisibleCursor"}),
        json!({"t": "DecModeSet", "enable": true, "mode": "MouseSGR"}),
        json!({"t": "DecModeSet", "enable": true, "mode": "BracketedPaste"}),
        face,
        json!({"t": "Face", "fg": null, "bg": null, "bits": 0}),
        json!({"t": "FaceModify", "reset": false, "fg": null, "bg": color_pool(rng), "underline": "UCurly", "ucolor": null,
               "bold": true, "italic": null, "blink": null, "strike": false}),
        json!({"t": "FaceModify", "reset": true, "fg": null, "bg": null, "underline": null, "ucolor": null,
               "bold": null, "italic": null, "blink": null, "strike": null}),
        json!({"t": "CursorTo", "row": "3", "col": "7"}),
        json!({"t": "CursorMove", "row": "-1", "col": "2"}),
        json!({"t": "ScrollRegion", "start": "1", "end": "10"}),
        json!({"t": "ScrollRegion", "start": "0", "end": "0"}),
        json!({"t": "Title", "title": "t"}),
        json!({"t": "Color", "name": {"palette": "1"}, "color": [1, 2, 3, 255]}),
        json!({"t": "Reset"}),
        json!({"t": "CursorSave"}),
        json!({"t": "CursorRestore"}),
        json!({"t": "EraseScreen"}),
        json!({"t": "Char", "c": 120}),
    ]
}

/// what may stand between two sends of the same command and make the terminal forget it
fn separators() -> Vec<Value> {
    vec![
        json!({"t": "Reset"}),
        json!({"t": "DecModeSet", "enable": true, "mode": "AltScreen"}),
        json!({"t": "DecModeSet", "enable": false, "mode": "AltScreen"}),
        json!({"t": "KeyboardLevel", "level": "1"}),
        json!({"t": "DecModeSet", "enable": true, "mode": "VisibleCursor"}),
        json!({"t": "DecModeSet", "enable": false, "mode": "MouseSGR"}),
        json!({"t": "Face", "fg": null, "bg": [9, 9, 9, 255], "bits": 16}),
        json!({"t": "FaceModify", "reset": true, "fg": null, "bg": null, "underline": null, "ucolor": null,
               "bold": null, "italic": null, "blink": null, "strike": null}),
        json!({"t": "CursorTo", "row": "0", "col": "0"}),
        json!({"t": "ScrollRegion", "start": "2", "end": "3"}),
        json!({"t": "Title", "title": "other"}),
        json!({"t": "Char", "c": 65}),
    ]
}

/// Streams with deliberate repetitions through ONE encoder object: [x, x], [x, sep, x] for every
/// stateful command x and separator, and longer random mixtures.  An encoder that remembers what it
/// sent (and skips a repeat) is caught whenever the terminal has forgotten in between.
fn repeat_streams(rng: &mut Rng, random: usize, v: &mut Vec<Value>) {
    let seps = separators();
    for (k, kitty) in [true, false].into_iter().enumerate() {
        let xs = stateful_cmds(rng);
        let depth = DEPTHS[k % 3];
        for x in &xs {
            v.push(json!({"caps": caps_json(depth, kitty, false), "kind": "repeat", "cmds": [x, x]}));
            for (i, sep) in seps.iter().enumerate() {
                // without the kitty capability only a third of the separators (the keyboard arms are silent)
                if !kitty && i % 3 != 0 {
                    continue;
                }
                v.push(json!({"caps": caps_json(depth, kitty, false), "kind": "repeat", "cmds": [x, sep, x]}));
            }
        }
        // alternate-screen round trips with the keyboard level re-sent on each screen
        let kl = |l: &str| json!({"t": "KeyboardLevel", "level": l});
        let alt = |e: bool| json!({"t": "DecModeSet", "enable": e, "mode": "AltScreen"});
        v.push(json!({"caps": caps_json(depth, kitty, false), "kind": "repeat",
                      "cmds": [kl("5"), alt(true), kl("5"), alt(false), kl("5"), alt(true), kl("5"), {"t": "Reset"}, kl("5")]}));
        v.push(json!({"caps": caps_json(depth, kitty, false), "kind": "repeat",
                      "cmds": [alt(true), alt(true), kl("0"), alt(false), alt(false), kl("0"), {"t": "Reset"}, kl("0"), alt(true), kl("5")]}));
    }
    for _ in 0..random {
        let xs = stateful_cmds(rng);
        let x = rng.pick(&xs).clone();
        let len = 3 + rng.below(7) as usize;
        let mut cmds = vec![x.clone()];
        while cmds.len() < len {
            let c = match rng.below(5) {
                0 | 1 => x.clone(),
                2 => rng.pick(&seps).clone(),
                3 => rng.pick(&xs).clone(),
                _ => loop {
                    let c = rand_cmd(rng);
                    if c["t"] != "Raw" {
                        break c;
                    }
                },
            };
            cmds.push(c);
        }
        cmds.push(x);
        v.push(json!({"caps": rand_caps(rng), "kind": "repeat", "cmds": cmds}));
    }
}

pub fn generate(rng: &mut Rng, n: usize, tier: &str) -> Vec<Value> {
    let thorough = tier == "thorough";
    let mut v = vec![];
    // (a) every fixed command and every DEC mode under every capability set
    for depth in DEPTHS {
        for kitty in [false, true] {
            let caps = caps_json(depth, kitty, kitty);
            for t in ["FaceGet", "CursorGet", "CursorSave", "CursorRestore", "EraseLineLeft", "EraseLineRight", "EraseLine",
                      "EraseScreen", "Reset", "Image", "ImageErase", "DeviceAttrs"] {
                v.push(json!({"caps": caps, "cmd": {"t": t}}));
            }
            for m in MODES {
                v.push(json!({"caps": caps, "cmd": {"t": "DecModeGet", "mode": m}}));
                for e in [false, true] {
                    v.push(json!({"caps": caps, "cmd": {"t": "DecModeSet", "enable": e, "mode": m}}));
                }
            }
            for l in ["0", "1", "5", "31", "18446744073709551615"] {
                v.push(json!({"caps": caps, "cmd": {"t": "KeyboardLevel", "level": l}}));
            }
        }
    }
    // (b) every attribute set (6 underline styles x 32 flag sets; the codes 6 and 7 do not exist) under every depth,
    //     with all four colour presence combinations cycling
    for depth in DEPTHS {
        for bits in (0..256u64).filter(|b| b & 7 <= 5) {
            let reps = if thorough { 4 } else { 1 };
            for r in 0..reps {
                let k = if thorough { r } else { rng.below(4) };
                let fg = if k & 1 != 0 { color_pool(rng) } else { Value::Null };
                let bg = if k & 2 != 0 { color_pool(rng) } else { Value::Null };
                v.push(json!({"caps": caps_json(depth, false, false), "cmd": {"t": "Face", "fg": fg, "bg": bg, "bits": bits}}));
            }
        }
    }
    // (c) FaceModify: every single-aspect change under every depth
    for depth in DEPTHS {
        let caps = caps_json(depth, false, false);
        let base = json!({"t": "FaceModify", "reset": false, "fg": null, "bg": null, "underline": null, "ucolor": null,
                          "bold": null, "italic": null, "blink": null, "strike": null});
        let push = |key: &str, val: Value, v: &mut Vec<Value>| {
            let mut c = base.clone();
            c[key] = val;
            v.push(json!({"caps": caps, "cmd": c}));
        };
        push("reset", json!(true), &mut v);
        push("reset", json!(false), &mut v);
        for key in ["bold", "italic", "blink", "strike"] {
            push(key, json!(true), &mut v);
            push(key, json!(false), &mut v);
        }
        for s in STYLES {
            push("underline", json!(s), &mut v);
        }
        for key in ["fg", "bg", "ucolor"] {
            push(key, color_pool(rng), &mut v);
        }
    }
    // (d) extreme integers, systematically
    for (depth, kitty) in [("true", true), ("256", false), ("gray", true)] {
    let caps = caps_json(depth, kitty, false);
    let um = usize::MAX as u128;
    for x in [0u128, 1, 9, 10, (1 << 32) - 1, 1 << 32, (1 << 63) - 1, 1 << 63, um - 1, um] {
        for y in [0u128, 1, um - 1, um] {
            v.push(json!({"caps": caps, "cmd": {"t": "CursorTo", "row": x.to_string(), "col": y.to_string()}}));
            v.push(json!({"caps": caps, "cmd": {"t": "ScrollRegion", "start": y.to_string(), "end": x.to_string()}}));
        }
        v.push(json!({"caps": caps, "cmd": {"t": "EraseChars", "n": x.to_string()}}));
        v.push(json!({"caps": caps, "cmd": {"t": "Color", "name": {"palette": x.to_string()}, "color": null}}));
    }
    for x in [i32::MIN as i64, i32::MIN as i64 + 1, -10, -9, -1, 0, 1, 9, 10, i32::MAX as i64 - 1, i32::MAX as i64] {
        for y in [i32::MIN as i64, -1, 0, 1, i32::MAX as i64] {
            v.push(json!({"caps": caps, "cmd": {"t": "CursorMove", "row": x.to_string(), "col": y.to_string()}}));
        }
        v.push(json!({"caps": caps, "cmd": {"t": "Scroll", "n": x.to_string()}}));
    }
    }
    let caps = caps_json("true", true, false);
    // (e) capability names with every byte value below 0x80 (one per name) and some multi-byte ones
    for b in 0u32..128 {
        let s: String = char::from_u32(b).unwrap().to_string();
        v.push(json!({"caps": caps, "cmd": {"t": "Termcap", "names": [format!("a{}", s), s]}}));
    }
    v.push(json!({"caps": caps, "cmd": {"t": "Termcap", "names": []}}));
    v.push(json!({"caps": caps, "cmd": {"t": "Termcap", "names": [""]}}));
    v.push(json!({"caps": caps, "cmd": {"t": "Termcap", "names": ["", ""]}}));
    // every control character as Char (C0, DEL, C1); the seven sequence introducers are the known class
    for c in (0u32..32).chain(0x7f..0xa0) {
        v.push(json!({"caps": caps, "cmd": {"t": "Char", "c": c}}));
    }
    v.push(json!({"caps": caps, "cmds": [{"t": "Char", "c": 27}, {"t": "Char", "c": 99}]}));
    v.push(json!({"caps": caps, "cmds": [{"t": "Char", "c": 0x9b}, {"t": "Char", "c": 50}, {"t": "Char", "c": 74}]}));
    v.push(json!({"caps": caps, "cmd": {"t": "Termcap", "names": ["", "Co"]}}));
    v.push(json!({"caps": caps, "cmd": {"t": "Termcap", "names": ["\u{e9}\u{20ac}\u{1f600}", "TN"]}}));
    // (e2) repetitions of stateful commands through one encoder object
    repeat_streams(rng, if thorough { 4000 } else { 300 }, &mut v);
    // (e2b) one encoder object whose writer fails after k bytes, then healthy writes
    failwrite_cases(rng, thorough, &mut v);
    // (e3) renderer sessions: the real TerminalRenderer's commands, encoded, interpreted on C01's screen
    for _ in 0..(if thorough { 1500 } else { 120 }) {
        v.push(gen_session(rng));
    }
    // (f) random commands under random capabilities; every fifth case is a stream of 2..6 commands
    //     (no Raw) through one encoder object
    let fixed = v.len();
    while v.len() < fixed + n {
        if v.len() % 5 == 0 {
            let k = 2 + rng.below(5) as usize;
            let mut cmds = vec![];
            while cmds.len() < k {
                let c = rand_cmd(rng);
                if c["t"] != "Raw" {
                    cmds.push(c);
                }
            }
            // what preceded the stream: nothing, text, or complete control sequences of any kind
            let prefixes: [&[u8]; 10] = [
                b"", b"", b"hello [", b"\x1b[1;31m", b"\x1b]2;title\x07", b"\x1b[?25l\x1b[2J", b"\xc3\xa9\xe2\x82\xac ]0;",
                b"\x1bP$qm\x1b\\", b"\x1b[38:2::1:2:3;4:3m", b"\x1b]4;1;?\x1b\\\x1b7",
            ];
            let pre = *rng.pick(&prefixes);
            v.push(json!({"caps": rand_caps(rng), "pre": jbytes(pre), "cmds": cmds}));
        } else {
            v.push(json!({"caps": rand_caps(rng), "cmd": rand_cmd(rng)}));
        }
    }
    v
}

pub fn batch(inputs: &[Value]) -> Batch {
    Batch {
        prop: "C05",
        coq_import: "Corr.C05Corr",
        case_type: "c05_case",
        report_fn: "c05_report",
        rule: "command with at least one parameter (number, colour, attribute set, mode, name or text), i.e. not a fixed byte string; distinct by (capabilities, command)",
        cases: inputs.iter().map(run).collect(),
        preamble: String::new(),
    }
}
