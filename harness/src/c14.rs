//! C14: Base64Encoder / Base64Decoder under write partitions, read schedules and destination sizes.
use crate::util::*;
use serde_json::{json, Value};
use std::cell::RefCell;
use std::io::{BufRead, BufReader, IoSlice, IoSliceMut, Read, Write};
use std::rc::Rc;
use surf_n_term::decoder::Base64Decoder;
use surf_n_term::encoder::Base64Encoder;

/// harness-local reference encoder (RFC 4648), independent of the crate
fn ref_encode(x: &[u8]) -> Vec<u8> {
    const A: &[u8; 64] = b"ABCDEFGHIJKLMNOPQRSTUVWXYZabcdefghijklmnopqrstuvwxyz0123456789+/";
    let mut out = vec![];
    for g in x.chunks(3) {
        let n = (g[0] as u32) << 16 | (*g.get(1).unwrap_or(&0) as u32) << 8 | (*g.get(2).unwrap_or(&0) as u32);
        out.push(A[(n >> 18) as usize & 63]);
        out.push(A[(n >> 12) as usize & 63]);
        out.push(if g.len() > 1 { A[(n >> 6) as usize & 63] } else { b'=' });
        out.push(if g.len() > 2 { A[n as usize & 63] } else { b'=' });
    }
    out
}

struct SchedReader {
    data: Vec<u8>,
    pos: usize,
    sched: Vec<usize>,
    k: usize,
}

impl Read for SchedReader {
    fn read(&mut self, buf: &mut [u8]) -> std::io::Result<usize> {
        let s = if self.k < self.sched.len() { self.sched[self.k].max(1) } else { buf.len() };
        self.k += 1;
        let n = buf.len().min(s).min(self.data.len() - self.pos);
        buf[..n].copy_from_slice(&self.data[self.pos..self.pos + n]);
        self.pos += n;
        Ok(n)
    }
}

fn cres(r: &Option<Result<Vec<u8>, Vec<u8>>>) -> (String, Value) {
    match r {
        None => ("RPanic".into(), json!("panic")),
        // an error carries the bytes the earlier, successful read calls had delivered
        Some(Err(p)) => (format!("(RErr {})", cbytes(p)), json!({ "err": jbytes(p) })),
        Some(Ok(v)) => (format!("(ROk {})", cbytes(v)), json!({ "ok": jbytes(v) })),
    }
}

// ---------------------------------------------------------------- consumption / production programs

/// one operation of the std::io::Read surface on the SAME decoder; Ok(bytes) | Err(true = UnexpectedEof)
fn dec_op<R: Read>(dec: &mut Base64Decoder<R>, op: &Value) -> Result<Vec<u8>, bool> {
    let n = op["n"].as_u64().unwrap_or(0) as usize;
    let by_ref = op["by_ref"].as_bool().unwrap_or(false);
    let fail = |e: std::io::Error| e.kind() == std::io::ErrorKind::UnexpectedEof;
    match op["op"].as_str().unwrap_or("") {
        "read" => {
            let mut buf = vec![0u8; n];
            let k = if by_ref { dec.by_ref().read(&mut buf) } else { dec.read(&mut buf) }.map_err(fail)?;
            buf.truncate(k);
            Ok(buf)
        }
        "exact" => {
            let mut buf = vec![0u8; n];
            if by_ref { dec.by_ref().read_exact(&mut buf) } else { dec.read_exact(&mut buf) }.map_err(fail)?;
            Ok(buf)
        }
        "to_end" => {
            let mut v = vec![];
            if by_ref { dec.by_ref().read_to_end(&mut v) } else { dec.read_to_end(&mut v) }.map_err(fail)?;
            Ok(v)
        }
        "to_string" => {
            let mut v = String::new();
            if by_ref { dec.by_ref().read_to_string(&mut v) } else { dec.read_to_string(&mut v) }.map_err(fail)?;
            Ok(v.into_bytes())
        }
        "vectored" => {
            let ns = vusizes(&op["ns"]);
            let mut bufs: Vec<Vec<u8>> = ns.iter().map(|k| vec![0u8; *k]).collect();
            let k = {
                let mut slices: Vec<IoSliceMut> = bufs.iter_mut().map(|b| IoSliceMut::new(b)).collect();
                dec.read_vectored(&mut slices).map_err(fail)?
            };
            let all: Vec<u8> = bufs.concat();
            Ok(all[..k.min(all.len())].to_vec())
        }
        "bytes" => {
            let mut out = vec![];
            let mut it = dec.by_ref().bytes();
            for _ in 0..n {
                match it.next() {
                    None => break,
                    Some(Ok(b)) => out.push(b),
                    Some(Err(e)) => return Err(fail(e)),
                }
            }
            Ok(out)
        }
        "take" => {
            let mut v = vec![];
            dec.by_ref().take(n as u64).read_to_end(&mut v).map_err(fail)?;
            Ok(v)
        }
        "buf_fill" => {
            // BufReader with a small capacity: one fill_buf, everything it holds is consumed
            let mut br = BufReader::with_capacity(n, dec.by_ref());
            let got = br.fill_buf().map_err(fail)?.to_vec();
            br.consume(got.len());
            Ok(got)
        }
        "buf_to_end" => {
            let mut br = BufReader::with_capacity(n.max(1), dec.by_ref());
            let mut v = vec![];
            br.read_to_end(&mut v).map_err(fail)?;
            Ok(v)
        }
        _ => Ok(vec![]),
    }
}

fn coq_dop(op: &Value) -> String {
    let n = op["n"].as_u64().unwrap_or(0) as usize;
    match op["op"].as_str().unwrap_or("") {
        "read" | "buf_fill" => format!("ORead {}", cnat(n)),
        "exact" => format!("OExact {}", cnat(n)),
        "vectored" => format!("OVectored {}", clist(vusizes(&op["ns"]).into_iter().map(cnat))),
        "bytes" => format!("OBytes {}", cnat(n)),
        "take" => format!("OTake {}", cnat(n)),
        _ => "OToEnd".to_string(),
    }
}

fn run_decprog(input: &Value) -> Case {
    let text = vbytes(&input["text"]);
    let sched = vusizes(&input["sched"]);
    let orig = if input["orig"].is_null() { None } else { Some(vbytes(&input["orig"])) };
    let ops: Vec<Value> = input["ops"].as_array().cloned().unwrap_or_default();
    let (t2, s2, o2) = (text.clone(), sched.clone(), ops.clone());
    // Some(results): per operation Ok(bytes) / Err(eof?), stopping at the first error
    let r = catch(move || {
        let mut dec = Base64Decoder::new(SchedReader { data: t2, pos: 0, sched: s2, k: 0 });
        let mut out: Vec<Result<Vec<u8>, bool>> = vec![];
        for op in &o2 {
            let r = dec_op(&mut dec, op);
            let stop = r.is_err();
            out.push(r);
            if stop {
                break;
            }
        }
        out
    });
    let mut j = input.clone();
    let (impl_coq, restag) = match &r {
        None => {
            j["impl"] = json!("panic");
            ("None".to_string(), "prog.res=panic")
        }
        Some(rs) => {
            j["impl"] = Value::Array(
                rs.iter()
                    .map(|x| match x {
                        Ok(b) => json!({ "got": jbytes(b) }),
                        Err(true) => json!("eof"),
                        Err(false) => json!("err"),
                    })
                    .collect(),
            );
            let c = clist(rs.iter().map(|x| match x {
                Ok(b) => format!("Got {}", cbytes(b)),
                Err(true) => "EofErr".to_string(),
                Err(false) => "Failed".to_string(),
            }));
            let tag = match rs.last() {
                Some(Err(true)) => "prog.res=eof",
                Some(Err(false)) => "prog.res=err",
                _ => "prog.res=ok",
            };
            (format!("(Some {})", c), tag)
        }
    };
    let mut tags = vec!["decprog".to_string(), restag.to_string(), if orig.is_some() { "prog.valid".into() } else { "prog.malformed".to_string() }];
    let mut kinds: Vec<String> = ops.iter().map(|o| o["op"].as_str().unwrap_or("").to_string()).collect();
    // the pair that matters: something consumed first, then a bulk operation
    for w in kinds.windows(2) {
        tags.push(format!("prog.pair={}>{}", w[0], w[1]));
    }
    kinds.sort();
    kinds.dedup();
    for k in kinds {
        tags.push(format!("prog.op={}", k));
    }
    Case {
        coq: format!(
            "DecProg {} {} {} {} {}",
            copt(orig.as_ref().map(|o| cbytes(o))),
            cbytes(&text),
            cnums(&sched),
            clist(ops.iter().map(|o| format!("({})", coq_dop(o)))),
            impl_coq
        ),
        json: j,
        tags,
        nontrivial: ops.len() >= 2 && text.len() >= 4,
    }
}

#[derive(Clone)]
struct Sink(Rc<RefCell<Vec<u8>>>);

impl Write for Sink {
    fn write(&mut self, buf: &[u8]) -> std::io::Result<usize> {
        self.0.borrow_mut().extend_from_slice(buf);
        Ok(buf.len())
    }
    fn flush(&mut self) -> std::io::Result<()> {
        Ok(())
    }
}

fn run_encprog(input: &Value) -> Case {
    let ops: Vec<Value> = input["ops"].as_array().cloned().unwrap_or_default();
    let finish = input["finish"].as_bool().unwrap_or(true);
    let o2 = ops.clone();
    // (per operation: Ok(accepted) for writes, Err(snapshot) for flush; final text)
    let r = catch(move || -> Option<(Vec<Result<usize, Vec<u8>>>, Vec<u8>)> {
        let sink = Sink(Rc::new(RefCell::new(vec![])));
        let mut e = Base64Encoder::new(sink.clone());
        let mut rets = vec![];
        for op in &o2 {
            match op["op"].as_str().unwrap_or("") {
                "write" => rets.push(Ok(e.write(&vbytes(&op["buf"])).ok()?)),
                "write_all" => {
                    let b = vbytes(&op["buf"]);
                    e.write_all(&b).ok()?;
                    rets.push(Ok(b.len()));
                }
                "fmt" => {
                    let b = vbytes(&op["buf"]);
                    let s = String::from_utf8(b.clone()).ok()?;
                    write!(e, "{}", s).ok()?;
                    rets.push(Ok(b.len()));
                }
                "vectored" => {
                    let bufs: Vec<Vec<u8>> = op["bufs"].as_array().map(|a| a.iter().map(vbytes).collect()).unwrap_or_default();
                    let slices: Vec<IoSlice> = bufs.iter().map(|b| IoSlice::new(b)).collect();
                    rets.push(Ok(e.write_vectored(&slices).ok()?));
                }
                _ => {
                    e.flush().ok()?;
                    rets.push(Err(sink.0.borrow().clone()));
                }
            }
        }
        if finish {
            e.finish().ok()?;
        } else {
            drop(e);
        }
        let out = sink.0.borrow().clone();
        Some((rets, out))
    });
    let mut j = input.clone();
    let coq_ops = clist(ops.iter().map(|op| match op["op"].as_str().unwrap_or("") {
        "vectored" => format!(
            "EWrite true {}",
            clist(op["bufs"].as_array().map(|a| a.iter().map(|b| cbytes(&vbytes(b))).collect::<Vec<_>>()).unwrap_or_default())
        ),
        "write" | "write_all" | "fmt" => format!("EWrite false [{}]", cbytes(&vbytes(&op["buf"]))),
        _ => "EFlush".to_string(),
    }));
    let (rets, out, restag) = match &r {
        Some(Some((rets, out))) => {
            j["impl"] = json!({"out": jbytes(out), "rets": rets.iter().map(|x| match x { Ok(n) => json!(n), Err(s) => json!({"flushed": s.len()}) }).collect::<Vec<_>>()});
            (
                clist(rets.iter().map(|x| match x {
                    Ok(n) => format!("Wrote {}", cnat(*n)),
                    Err(s) => format!("Flushed {}", cbytes(s)),
                })),
                format!("(Some {})", cbytes(out)),
                "encprog.res=ok",
            )
        }
        Some(None) => {
            j["impl"] = json!("err");
            ("[]".to_string(), "None".to_string(), "encprog.res=err")
        }
        None => {
            j["impl"] = json!("panic");
            ("[]".to_string(), "None".to_string(), "encprog.res=panic")
        }
    };
    let mut tags = vec!["encprog".to_string(), restag.to_string(), format!("encprog.finish={}", finish)];
    let mut kinds: Vec<String> = ops.iter().map(|o| o["op"].as_str().unwrap_or("").to_string()).collect();
    kinds.sort();
    kinds.dedup();
    for k in kinds {
        tags.push(format!("encprog.op={}", k));
    }
    Case {
        coq: format!("EncProg {} {} {} {}", coq_ops, cbool(finish), rets, out),
        json: j,
        tags,
        nontrivial: ops.len() >= 2,
    }
}

pub fn run(input: &Value) -> Case {
    let kind = input["kind"].as_str().unwrap_or("");
    if kind == "decprog" {
        return run_decprog(input);
    }
    if kind == "encprog" {
        return run_encprog(input);
    }
    if kind == "enc" {
        let chunks: Vec<Vec<u8>> = input["chunks"].as_array().unwrap().iter().map(vbytes).collect();
        let c2 = chunks.clone();
        let r = catch(move || -> Result<Vec<u8>, Vec<u8>> {
            let mut e = Base64Encoder::new(Vec::new());
            for c in &c2 {
                e.write_all(c).map_err(|_| vec![])?;
            }
            e.finish().map_err(|_| vec![])
        });
        let (rc, rj) = cres(&r);
        let total: usize = chunks.iter().map(|c| c.len()).sum();
        let mut j = input.clone();
        j["impl"] = rj;
        Case {
            coq: format!("Enc {} {}", clist(chunks.iter().map(|c| cbytes(c))), rc),
            json: j,
            tags: vec!["enc".into(), format!("enc.len%3={}", total % 3), format!("enc.chunks={}", chunks.len().min(5))],
            nontrivial: chunks.len() >= 2 && total >= 1,
        }
    } else {
        let text = vbytes(&input["text"]);
        let sched = vusizes(&input["sched"]);
        let dests = vusizes(&input["dests"]);
        let orig = if input["orig"].is_null() { None } else { Some(vbytes(&input["orig"])) };
        let (t2, s2, d2) = (text.clone(), sched.clone(), dests.clone());
        let r = catch(move || -> Result<Vec<u8>, Vec<u8>> {
            let mut dec = Base64Decoder::new(SchedReader { data: t2, pos: 0, sched: s2, k: 0 });
            let mut acc = vec![];
            let mut k = 0usize;
            loop {
                let d = if d2.is_empty() { 64 } else { d2[k % d2.len()].max(1) };
                k += 1;
                let mut buf = vec![0u8; d];
                match dec.read(&mut buf) {
                    Ok(0) => return Ok(acc),
                    Ok(n) => acc.extend_from_slice(&buf[..n]),
                    Err(_) => return Err(acc),
                }
            }
        });
        let (rc, rj) = cres(&r);
        let mut j = input.clone();
        j["impl"] = rj;
        let short = sched.iter().any(|s| *s < 4);
        let kindtag = if orig.is_some() { "dec.valid" } else { "dec.malformed" };
        let restag = match &r {
            None => "dec.res=panic",
            Some(Err(p)) => if p.is_empty() { "dec.res=err" } else { "dec.res=err-after-output" },
            Some(Ok(_)) => "dec.res=ok",
        };
        Case {
            coq: format!(
                "Dec {} {} {} {} {}",
                copt(orig.as_ref().map(|o| cbytes(o))),
                cbytes(&text),
                cnums(&sched),
                cnums(&dests),
                rc
            ),
            json: j,
            tags: vec![
                kindtag.into(),
                restag.into(),
                format!("dec.shortreads={}", short),
                format!("dec.len%4={}", text.len() % 4),
            ],
            nontrivial: short && text.len() >= 4,
        }
    }
}

fn gen_len(rng: &mut Rng) -> usize {
    match rng.below(6) {
        0 => rng.below(8) as usize,
        1 => 44 + rng.below(10) as usize,  // around the 48-byte mark
        2 => 60 + rng.below(10) as usize,  // around the 64-byte buffer
        3 => 90 + rng.below(12) as usize,
        _ => rng.below(200) as usize,
    }
}

fn gen_partition(rng: &mut Rng, data: &[u8]) -> Vec<Vec<u8>> {
    let mut out = vec![];
    let mut i = 0;
    let style = rng.below(4);
    while i < data.len() {
        let n = match style {
            0 => 1,
            1 => 1 + rng.below(3) as usize,
            2 => rng.below(5) as usize, // includes empty writes
            _ => 1 + rng.below(70) as usize,
        }
        .min(data.len() - i);
        out.push(data[i..i + n].to_vec());
        i += n;
    }
    if rng.chance(1, 4) {
        out.push(vec![]);
    }
    out
}

fn gen_sched(rng: &mut Rng, len: usize) -> Vec<usize> {
    match rng.below(6) {
        0 => vec![],                                               // always full reads
        1 => vec![1; len + 4],                                     // one byte at a time
        2 => (0..len + 4).map(|_| 1 + rng.below(3) as usize).collect(),
        3 => (0..len / 2).map(|_| rng.below(6) as usize).collect(), // includes 0 (taken as 1), then full
        4 => (0..len + 4).map(|i| if i % 2 == 0 { 3 } else { 1 }).collect(),
        _ => (0..len + 4).map(|_| 1 + rng.below(8) as usize).collect(),
    }
}

fn gen_dests(rng: &mut Rng) -> Vec<usize> {
    match rng.below(6) {
        0 => vec![],
        1 => vec![1],
        2 => vec![2, 3],
        3 => vec![1 + rng.below(100) as usize],
        4 => (0..1 + rng.below(5)).map(|_| rng.below(9) as usize).collect(),
        _ => vec![47 + rng.below(20) as usize],
    }
}

/// sizes for buffers / counts: the boundaries of the 3-byte carry, the 64-byte decode buffer and
/// its 63-byte fill, their multiples, and every integer constant written in the codec's sources
fn size_stream() -> Vec<usize> {
    let mut v: Vec<usize> = vec![0, 1, 2, 3, 4, 5, 31, 32, 33, 47, 48, 49, 61, 62, 63, 64, 65, 66, 125, 126, 127, 128, 129, 189, 190, 192, 256];
    v.extend(source_boundaries(&["src/decoder.rs", "src/encoder.rs"], 4096).into_iter().map(|x| x as usize));
    v.sort_unstable();
    v.dedup();
    v
}

fn pick_size(rng: &mut Rng, sizes: &[usize], cap: usize) -> usize {
    if rng.chance(1, 4) {
        rng.below(cap as u64 + 1) as usize
    } else {
        let small: Vec<usize> = sizes.iter().copied().filter(|s| *s <= cap).collect();
        if small.is_empty() { 0 } else { *rng.pick(&small) }
    }
}

fn gen_dec_op(rng: &mut Rng, sizes: &[usize], ascii: bool) -> Value {
    let by_ref = rng.chance(1, 3);
    match rng.below(12) {
        0 | 1 | 2 => json!({"op": "read", "n": pick_size(rng, sizes, 300), "by_ref": by_ref}),
        3 | 4 => json!({"op": "exact", "n": pick_size(rng, sizes, 200), "by_ref": by_ref}),
        5 => {
            let k = 1 + rng.below(3) as usize;
            json!({"op": "vectored", "ns": (0..k).map(|_| pick_size(rng, sizes, 100)).collect::<Vec<_>>()})
        }
        6 => json!({"op": "bytes", "n": pick_size(rng, sizes, 130)}),
        7 => json!({"op": "take", "n": pick_size(rng, sizes, 300)}),
        8 => json!({"op": "buf_fill", "n": pick_size(rng, sizes, 200)}),
        9 => json!({"op": "to_end", "by_ref": by_ref}),
        10 => {
            if ascii {
                json!({"op": "to_string", "by_ref": by_ref})
            } else {
                json!({"op": "to_end", "by_ref": by_ref})
            }
        }
        _ => json!({"op": "buf_to_end", "n": pick_size(rng, sizes, 100)}),
    }
}

/// a program over one decoder: a few partial operations, always ended by a draining one
fn gen_dec_prog(rng: &mut Rng, sizes: &[usize], ascii: bool) -> Vec<Value> {
    let k = rng.below(5) as usize;
    let mut ops: Vec<Value> = (0..k).map(|_| gen_dec_op(rng, sizes, ascii)).collect();
    let last = match rng.below(4) {
        0 if ascii => json!({"op": "to_string"}),
        1 => json!({"op": "buf_to_end", "n": pick_size(rng, sizes, 100)}),
        2 => json!({"op": "to_end", "by_ref": true}),
        _ => json!({"op": "to_end"}),
    };
    ops.push(last);
    ops
}

fn gen_enc_prog(rng: &mut Rng, sizes: &[usize]) -> Value {
    let k = 1 + rng.below(7) as usize;
    let mut ops = vec![];
    for _ in 0..k {
        let len = pick_size(rng, sizes, 200);
        let op = match rng.below(9) {
            0 | 1 => json!({"op": "write", "buf": jbytes(&rng.bytes(len))}),
            2 | 3 => json!({"op": "write_all", "buf": jbytes(&rng.bytes(len))}),
            4 => {
                let b: Vec<u8> = (0..len).map(|_| b' ' + (rng.below(95) as u8)).collect();
                json!({"op": "fmt", "buf": jbytes(&b)})
            }
            5 | 6 => {
                let m = 1 + rng.below(3) as usize;
                let bufs: Vec<Value> = (0..m).map(|_| { let l = pick_size(rng, sizes, 70); jbytes(&rng.bytes(l)) }).collect();
                json!({"op": "vectored", "bufs": bufs})
            }
            _ => json!({"op": "flush"}),
        };
        ops.push(op);
    }
    json!({"kind": "encprog", "ops": ops, "finish": !rng.chance(1, 4)})
}

pub fn generate(rng: &mut Rng, n: usize, _tier: &str) -> Vec<Value> {
    let mut v = vec![];
    let sizes = size_stream();
    // fixed part of the programs: every first operation with a size around the internal chunk, then each bulk operation
    for first in ["read", "exact", "bytes", "take", "buf_fill", "vectored"] {
        for n1 in [1usize, 5, 62, 63, 64] {
            for bulk in ["to_end", "to_string", "buf_to_end", "take"] {
                let x: Vec<u8> = (0..150).map(|i| b'A' + (i % 26) as u8).collect();
                let t = ref_encode(&x);
                let op1 = if first == "vectored" { json!({"op": first, "ns": [0, n1, 3]}) } else { json!({"op": first, "n": n1}) };
                let mut ops = vec![op1, json!({"op": bulk, "n": 200})];
                if bulk == "take" {
                    ops.push(json!({"op": "to_end"}));
                }
                v.push(json!({"kind": "decprog", "orig": jbytes(&x), "text": jbytes(&t), "sched": [], "ops": ops}));
            }
        }
    }
    let n = n + v.len();
    // fixed part: every length 0..=9 with the all-ones schedule and 1-byte destinations
    for len in 0..=9usize {
        let x: Vec<u8> = (0..len).map(|i| (i * 37 + 200) as u8).collect();
        v.push(json!({"kind":"enc","chunks": x.iter().map(|b| jbytes(&[*b])).collect::<Vec<_>>()}));
        let t = ref_encode(&x);
        v.push(json!({"kind":"dec","orig":jbytes(&x),"text":jbytes(&t),"sched":vec![1;t.len()+2],"dests":[1]}));
    }
    while v.len() < n {
        match rng.below(16) {
            10..=13 => {
                // decoder programs: valid text (two thirds) or malformed
                let len = if rng.chance(1, 3) { gen_len(rng) } else { 60 + rng.below(260) as usize };
                let ascii = rng.chance(1, 2);
                let x: Vec<u8> = if ascii { (0..len).map(|_| b' ' + rng.below(95) as u8).collect() } else { rng.bytes(len) };
                let mut t = ref_encode(&x);
                let valid = !rng.chance(1, 3);
                if !valid && !t.is_empty() {
                    match rng.below(3) {
                        0 => { let cut = rng.below(t.len() as u64) as usize; t.truncate(cut) }
                        1 => { let i = rng.below(t.len() as u64) as usize; t[i] = b'=' }
                        _ => { let k = 1 + rng.below(3) as usize; t.extend(rng.bytes(k)) }
                    }
                }
                let sched = gen_sched(rng, t.len());
                let ops = gen_dec_prog(rng, &sizes, ascii && valid);
                let orig = if valid { jbytes(&x) } else { Value::Null };
                v.push(json!({"kind":"decprog","orig":orig,"text":jbytes(&t),"sched":sched,"ops":ops}));
            }
            14 | 15 => v.push(gen_enc_prog(rng, &sizes)),
            0..=2 => {
                let len = gen_len(rng);
                let x = rng.bytes(len);
                let parts = gen_partition(rng, &x);
                v.push(json!({"kind":"enc","chunks": parts.iter().map(|c| jbytes(c)).collect::<Vec<_>>()}));
            }
            3..=6 => {
                let len = gen_len(rng);
                let x = rng.bytes(len);
                let t = ref_encode(&x);
                let sched = gen_sched(rng, t.len());
                let dests = gen_dests(rng);
                v.push(json!({"kind":"dec","orig":jbytes(&x),"text":jbytes(&t),"sched":sched,"dests":dests}));
            }
            _ => {
                // malformed stream: truncated / garbage / padding in odd places
                // half of them long enough that some output is delivered before the error is met
                let len = if rng.chance(1, 2) { gen_len(rng) % 80 } else { 60 + gen_len(rng) };
                let x = rng.bytes(len);
                let mut t = ref_encode(&x);
                match rng.below(5) {
                    0 => {
                        let cut = rng.below(t.len() as u64 + 1) as usize;
                        t.truncate(cut);
                    }
                    1 => { let k = rng.below(40) as usize; t = rng.bytes(k) }
                    2 => {
                        if !t.is_empty() {
                            let i = rng.below(t.len() as u64) as usize;
                            t[i] = b'=';
                        }
                    }
                    3 => { let k = 1 + rng.below(6) as usize; t.extend(rng.bytes(k)) }
                    _ => {
                        if !t.is_empty() {
                            let i = rng.below(t.len() as u64) as usize;
                            t[i] = rng.byte();
                        }
                    }
                }
                let sched = gen_sched(rng, t.len());
                let dests = gen_dests(rng);
                v.push(json!({"kind":"dec","orig":Value::Null,"text":jbytes(&t),"sched":sched,"dests":dests}));
            }
        }
    }
    v
}

pub fn batch(inputs: &[Value]) -> Batch {
    Batch {
        prop: "C14",
        coq_import: "Corr.C14Corr",
        case_type: "c14_case",
        report_fn: "c14_report",
        rule: "enc cases: bytes split into >=2 write calls; dec cases: >=4 text bytes read through a schedule containing a read shorter than 4 bytes; program cases: at least two operations on one encoder / decoder; distinct by input",
        cases: inputs.iter().map(run).collect(),
        preamble: String::new(),
    }
}
