//! C14: Base64Encoder / Base64Decoder under write partitions, read schedules and destination sizes.
use crate::util::*;
use serde_json::{json, Value};
use std::io::{Read, Write};
use surf_n_term::decoder::Base64Decoder;
use surf_n_term::encoder::Base64Encoder;

/// harness-local reference encoder (RFC 4648), independent of the crate
fn ref_encode(x: &[u8]) -> Vec<u8> {
    const A: &[u8; 64] = b"ABCDEFGHIJKLMNOPQRSTUVWXYZabcdefghijklmnopqrstuvwxyz0123456789+/";
    let mut out = vec![];
    for g in x.chunks(3) {
        let n = (g[0] as u32) << 16 | (*g.get(1).unwrap_or(&0) as u32) << 8 | (*g.get(2).unwrap_or(&0) as u32);
        out.push(A[(n >> 18) as usize & 63]);
        out.push(A[(n >> 12) as usize & 63]);
        out.push(if g.len() > 1 { A[(n >> 6) as usize & 63] } else { b'=' });
        out.push(if g.len() > 2 { A[n as usize & 63] } else { b'=' });
    }
    out
}

struct SchedReader {
    data: Vec<u8>,
    pos: usize,
    sched: Vec<usize>,
    k: usize,
}

impl Read for SchedReader {
    fn read(&mut self, buf: &mut [u8]) -> std::io::Result<usize> {
        let s = if self.k < self.sched.len() { self.sched[self.k].max(1) } else { buf.len() };
        self.k += 1;
        let n = buf.len().min(s).min(self.data.len() - self.pos);
        buf[..n].copy_from_slice(&self.data[self.pos..self.pos + n]);
        self.pos += n;
        Ok(n)
    }
}

fn cres(r: &Option<Result<Vec<u8>, Vec<u8>>>) -> (String, Value) {
    match r {
        None => ("RPanic".into(), json!("panic")),
        // an error carries the bytes the earlier, successful read calls had delivered
        Some(Err(p)) => (format!("(RErr {})", cbytes(p)), json!({ "err": jbytes(p) })),
        Some(Ok(v)) => (format!("(ROk {})", cbytes(v)), json!({ "ok": jbytes(v) })),
    }
}

pub fn run(input: &Value) -> Case {
    let kind = input["kind"].as_str().unwrap_or("");
    if kind == "enc" {
        let chunks: Vec<Vec<u8>> = input["chunks"].as_array().unwrap().iter().map(vbytes).collect();
        let c2 = chunks.clone();
        let r = catch(move || -> Result<Vec<u8>, Vec<u8>> {
            let mut e = Base64Encoder::new(Vec::new());
            for c in &c2 {
                e.write_all(c).map_err(|_| vec![])?;
            }
            e.finish().map_err(|_| vec![])
        });
        let (rc, rj) = cres(&r);
        let total: usize = chunks.iter().map(|c| c.len()).sum();
        let mut j = input.clone();
        j["impl"] = rj;
        Case {
            coq: format!("Enc {} {}", clist(chunks.iter().map(|c| cbytes(c))), rc),
            json: j,
            tags: vec!["enc".into(), format!("enc.len%3={}", total % 3), format!("enc.chunks={}", chunks.len().min(5))],
            nontrivial: chunks.len() >= 2 && total >= 1,
        }
    } else {
        let text = vbytes(&input["text"]);
        let sched = vusizes(&input["sched"]);
        let dests = vusizes(&input["dests"]);
        let orig = if input["orig"].is_null() { None } else { Some(vbytes(&input["orig"])) };
        let (t2, s2, d2) = (text.clone(), sched.clone(), dests.clone());
        let tail: Option<(usize, u64)> = if input["tail"].is_object() {
            Some((input["tail"]["after"].as_u64().unwrap_or(0) as usize, input["tail"]["how"].as_u64().unwrap_or(0)))
        } else {
            None
        };
        let left = orig.as_ref().map(|o| o.len()).unwrap_or(0);
        let r = catch(move || -> Result<Vec<u8>, Vec<u8>> {
            let mut dec = Base64Decoder::new(SchedReader { data: t2, pos: 0, sched: s2, k: 0 });
            let mut acc = vec![];
            let mut k = 0usize;
            loop {
                // two-step consumption: after `after` calls of read the rest goes through one of the conveniences of
                // std::io::Read that sit on top of read (and that an implementation may override)
                if let Some((after, how)) = tail {
                    if k == after {
                        let r = match how {
                            0 => dec.read_to_end(&mut acc).map(|_| ()),
                            1 => {
                                let mut r = Ok(());
                                for b in dec.by_ref().bytes() {
                                    match b {
                                        Ok(b) => acc.push(b),
                                        Err(e) => {
                                            r = Err(e);
                                            break;
                                        }
                                    }
                                }
                                r
                            }
                            2 => dec.by_ref().take(u64::MAX).read_to_end(&mut acc).map(|_| ()),
                            _ => {
                                // read_exact of what is left according to the reference decoding, then read_to_end
                                let want = left.saturating_sub(acc.len()).min(40);
                                let mut buf = vec![0u8; want];
                                match dec.read_exact(&mut buf) {
                                    Ok(()) => {
                                        acc.extend_from_slice(&buf);
                                        dec.read_to_end(&mut acc).map(|_| ())
                                    }
                                    Err(e) => Err(e),
                                }
                            }
                        };
                        return match r {
                            Ok(()) => Ok(acc),
                            Err(_) => Err(acc),
                        };
                    }
                }
                let d = if d2.is_empty() { 64 } else { d2[k % d2.len()].max(1) };
                k += 1;
                let mut buf = vec![0u8; d];
                match dec.read(&mut buf) {
                    Ok(0) => return Ok(acc),
                    Ok(n) => acc.extend_from_slice(&buf[..n]),
                    Err(_) => return Err(acc),
                }
            }
        });
        let (rc, rj) = cres(&r);
        let mut j = input.clone();
        j["impl"] = rj;
        let short = sched.iter().any(|s| *s < 4);
        let kindtag = if orig.is_some() { "dec.valid" } else { "dec.malformed" };
        let restag = match &r {
            None => "dec.res=panic",
            Some(Err(p)) => if p.is_empty() { "dec.res=err" } else { "dec.res=err-after-output" },
            Some(Ok(_)) => "dec.res=ok",
        };
        Case {
            coq: format!(
                "{} {} {} {} {} {}",
                if tail.is_some() { "DecTail" } else { "Dec" },
                copt(orig.as_ref().map(|o| cbytes(o))),
                cbytes(&text),
                cnums(&sched),
                cnums(&dests),
                rc
            ),
            json: j,
            tags: vec![
                kindtag.into(),
                restag.into(),
                format!("dec.shortreads={}", short),
                format!("dec.len%4={}", text.len() % 4),
                format!("dec.tail={}", match tail {
                    None => "read-only".to_string(),
                    Some((after, how)) => format!("{}-after-{}", ["read_to_end", "bytes", "take.read_to_end", "read_exact+read_to_end"][how as usize % 4],
                                                  if after == 0 { "0-reads" } else { "reads" }),
                }),
            ],
            nontrivial: short && text.len() >= 4,
        }
    }
}

fn gen_len(rng: &mut Rng) -> usize {
    match rng.below(6) {
        0 => rng.below(8) as usize,
        1 => 44 + rng.below(10) as usize,  // around the 48-byte mark
        2 => 60 + rng.below(10) as usize,  // around the 64-byte buffer
        3 => 90 + rng.below(12) as usize,
        _ => rng.below(200) as usize,
    }
}

fn gen_partition(rng: &mut Rng, data: &[u8]) -> Vec<Vec<u8>> {
    let mut out = vec![];
    let mut i = 0;
    let style = rng.below(4);
    while i < data.len() {
        let n = match style {
            0 => 1,
            1 => 1 + rng.below(3) as usize,
            2 => rng.below(5) as usize, // includes empty writes
            _ => 1 + rng.below(70) as usize,
        }
        .min(data.len() - i);
        out.push(data[i..i + n].to_vec());
        i += n;
    }
    if rng.chance(1, 4) {
        out.push(vec![]);
    }
    out
}

fn gen_sched(rng: &mut Rng, len: usize) -> Vec<usize> {
    match rng.below(6) {
        0 => vec![],                                               // always full reads
        1 => vec![1; len + 4],                                     // one byte at a time
        2 => (0..len + 4).map(|_| 1 + rng.below(3) as usize).collect(),
        3 => (0..len / 2).map(|_| rng.below(6) as usize).collect(), // includes 0 (taken as 1), then full
        4 => (0..len + 4).map(|i| if i % 2 == 0 { 3 } else { 1 }).collect(),
        _ => (0..len + 4).map(|_| 1 + rng.below(8) as usize).collect(),
    }
}

fn gen_dests(rng: &mut Rng) -> Vec<usize> {
    match rng.below(6) {
        0 => vec![],
        1 => vec![1],
        2 => vec![2, 3],
        3 => vec![1 + rng.below(100) as usize],
        4 => (0..1 + rng.below(5)).map(|_| rng.below(9) as usize).collect(),
        _ => vec![47 + rng.below(20) as usize],
    }
}

/// after how many `read` calls the rest is taken through read_to_end / bytes() / take().read_to_end / read_exact
fn gen_tail(rng: &mut Rng) -> Value {
    let after = match rng.below(6) {
        0 => 0,
        1 | 2 => 1,
        _ => 1 + rng.below(6),
    };
    json!({"after": after, "how": rng.below(4)})
}

pub fn generate(rng: &mut Rng, n: usize, _tier: &str) -> Vec<Value> {
    let mut v = vec![];
    // fixed part: every length 0..=9 with the all-ones schedule and 1-byte destinations
    for len in 0..=9usize {
        let x: Vec<u8> = (0..len).map(|i| (i * 37 + 200) as u8).collect();
        v.push(json!({"kind":"enc","chunks": x.iter().map(|b| jbytes(&[*b])).collect::<Vec<_>>()}));
        let t = ref_encode(&x);
        v.push(json!({"kind":"dec","orig":jbytes(&x),"text":jbytes(&t),"sched":vec![1;t.len()+2],"dests":[1]}));
    }
    // a header sniffed with read, the rest with read_to_end (and the other conveniences)
    for (len, d, how) in [(100usize, 5usize, 0u64), (200, 63, 0), (70, 64, 2), (30, 1, 1), (90, 7, 3), (64, 10, 0)] {
        let x: Vec<u8> = (0..len).map(|i| (i * 29 + 3) as u8).collect();
        let t = ref_encode(&x);
        v.push(json!({"kind":"dec","orig":jbytes(&x),"text":jbytes(&t),"sched":Vec::<usize>::new(),"dests":[d],"tail":{"after":1,"how":how}}));
    }
    while v.len() < n {
        match rng.below(10) {
            0..=2 => {
                let len = gen_len(rng);
                let x = rng.bytes(len);
                let parts = gen_partition(rng, &x);
                v.push(json!({"kind":"enc","chunks": parts.iter().map(|c| jbytes(c)).collect::<Vec<_>>()}));
            }
            3..=6 => {
                let len = gen_len(rng);
                let x = rng.bytes(len);
                let t = ref_encode(&x);
                let sched = gen_sched(rng, t.len());
                let dests = gen_dests(rng);
                let mut c = json!({"kind":"dec","orig":jbytes(&x),"text":jbytes(&t),"sched":sched,"dests":dests});
                if rng.chance(1, 3) {
                    c["tail"] = gen_tail(rng);
                }
                v.push(c);
            }
            _ => {
                // malformed stream: truncated / garbage / padding in odd places
                // half of them long enough that some output is delivered before the error is met
                let len = if rng.chance(1, 2) { gen_len(rng) % 80 } else { 60 + gen_len(rng) };
                let x = rng.bytes(len);
                let mut t = ref_encode(&x);
                match rng.below(5) {
                    0 => {
                        let cut = rng.below(t.len() as u64 + 1) as usize;
                        t.truncate(cut);
                    }
                    1 => { let k = rng.below(40) as usize; t = rng.bytes(k) }
                    2 => {
                        if !t.is_empty() {
                            let i = rng.below(t.len() as u64) as usize;
                            t[i] = b'=';
                        }
                    }
                    3 => { let k = 1 + rng.below(6) as usize; t.extend(rng.bytes(k)) }
                    _ => {
                        if !t.is_empty() {
                            let i = rng.below(t.len() as u64) as usize;
                            t[i] = rng.byte();
                        }
                    }
                }
                let sched = gen_sched(rng, t.len());
                let dests = gen_dests(rng);
                let mut c = json!({"kind":"dec","orig":Value::Null,"text":jbytes(&t),"sched":sched,"dests":dests});
                if rng.chance(1, 4) {
                    c["tail"] = gen_tail(rng);
                }
                v.push(c);
            }
        }
    }
    v
}

pub fn batch(inputs: &[Value]) -> Batch {
    Batch {
        prop: "C14",
        coq_import: "Corr.C14Corr",
        case_type: "c14_case",
        report_fn: "c14_report",
        rule: "enc cases: bytes split into >=2 write calls; dec cases: >=4 text bytes read through a schedule containing a read shorter than 4 bytes; distinct by input",
        cases: inputs.iter().map(run).collect(),
        preamble: String::new(),
    }
}
