//! C10: random view trees (one AST, built through the public constructors, through
//! FlexRef<Vec<FlexChild>> and through JSON deserialisation), laid out under a constraint and
//! rendered into a view of a canvas of sentinel cells.  Observed: the whole layout tree, the
//! canvas, the surface every probe leaf was asked to paint, find_path for every position,
//! and (constructor routes) the constraint / reported size of every node via trace_layout.
use super::c09::{canvas, chain_shape, face_coq, face_from, vops_coq, vops_from, Defs, VOp, PPC_H, PPC_W};
use crate::util::*;
use serde::de::DeserializeSeed;
use serde_json::{json, Value};
use std::sync::{Arc, Mutex};
use surf_n_term::view::{
    Align, ArcView, Axis, BoxConstraint, Container, Dynamic, Either, Flex, FlexChild, FlexRef, Frame, Justify, Layout, Margins, ScrollBar,
    ScrollBarPosition, Tag, Text, Tree, TreeMut, View, ViewCache, ViewContext, ViewDeserializer, ViewLayout, ViewLayoutStore, ViewMutLayout,
};
use surf_n_term::{
    Cell, CellWrite, Error, Face, Position, Size, Surface, SurfaceMut, SurfaceMutView, SurfaceOwned, TerminalSurface, RGBA,
};

type BView = Box<dyn View + 'static>;

#[derive(Clone, Default)]
struct Logs {
    probes: Arc<Mutex<Vec<(u64, [usize; 6])>>>,
    cts: Arc<Mutex<Vec<(u64, [usize; 4], [usize; 2])>>>,
}

// ---------- harness-side views ----------
struct Probe {
    id: u64,
    pref: Size,
    logs: Logs,
}

impl View for Probe {
    fn render(&self, _ctx: &ViewContext, surf: TerminalSurface<'_>, layout: ViewLayout<'_>) -> Result<(), Error> {
        let mut surf = layout.apply_to(surf);
        let s = surf.shape();
        self.logs.probes.lock().unwrap().push((self.id, [s.start, s.end, s.width, s.height, s.row_stride, s.col_stride]));
        surf.fill(Cell::new_char(Face::default(), char::from_u32(0xF000 + self.id as u32).unwrap_or('?')));
        Ok(())
    }
    fn layout(&self, _ctx: &ViewContext, ct: BoxConstraint, mut layout: ViewMutLayout<'_>) -> Result<(), Error> {
        *layout = Layout::new().with_size(ct.clamp(self.pref));
        Ok(())
    }
}

/// the view a Dynamic builds: remembers the constraint it was built for
struct DynView {
    ct: BoxConstraint,
    inner: BView,
}

impl View for DynView {
    fn render(&self, ctx: &ViewContext, surf: TerminalSurface<'_>, layout: ViewLayout<'_>) -> Result<(), Error> {
        self.inner.render(ctx, surf, layout)
    }
    fn layout(&self, ctx: &ViewContext, ct: BoxConstraint, layout: ViewMutLayout<'_>) -> Result<(), Error> {
        self.inner.layout(ctx, ct, layout)
    }
}

/// the cache behind JSON "ref": uid -> the view built from the AST node registered under it
struct Cache {
    views: Vec<ArcView<'static>>,
}

impl ViewCache for Cache {
    fn get(&self, uid: i64) -> Option<ArcView<'static>> {
        if uid < 0 {
            return None;
        }
        self.views.get(uid as usize).cloned()
    }
}

fn base64(data: &[u8]) -> String {
    const T: &[u8; 64] = b"ABCDEFGHIJKLMNOPQRSTUVWXYZabcdefghijklmnopqrstuvwxyz0123456789+/";
    let mut out = String::new();
    for ch in data.chunks(3) {
        let b = [ch[0], *ch.get(1).unwrap_or(&0), *ch.get(2).unwrap_or(&0)];
        let n = ((b[0] as u32) << 16) | ((b[1] as u32) << 8) | b[2] as u32;
        out.push(T[(n >> 18) as usize & 63] as char);
        out.push(T[(n >> 12) as usize & 63] as char);
        out.push(if ch.len() > 1 { T[(n >> 6) as usize & 63] as char } else { '=' });
        out.push(if ch.len() > 2 { T[n as usize & 63] as char } else { '=' });
    }
    out
}

/// JSON document of an image of one colour (3 channels)
fn image_doc(h: usize, w: usize, color: u64) -> Value {
    let px = [(color >> 24) as u8, (color >> 16) as u8, (color >> 8) as u8];
    let data: Vec<u8> = (0..h * w).flat_map(|_| px).collect();
    json!({"data": base64(&data), "channels": 3, "size": {"height": h, "width": w}})
}

// ---------- AST helpers ----------
fn kind_code(t: &str) -> u64 {
    match t {
        "text" => 1,
        "str" => 2,
        "flex" => 3,
        "container" => 4,
        "frame" => 5,
        "scroll" => 6,
        "tag" => 7,
        "none" => 8,
        "dyn" => 9,
        "fill" => 10,
        "unit" => 11,
        "image" => 12,
        "glyph" => 13,
        "probe" => 14,
        "surface" => 15,
        "ascii" => 16,
        "cached" => 17,
        _ => 0,
    }
}

fn align_from(v: &Value) -> Align {
    if let Some(o) = v.get("offset") {
        return Align::Offset(o.as_i64().unwrap_or(0) as i32);
    }
    match v.as_str().unwrap_or("start") {
        "center" => Align::Center,
        "end" => Align::End,
        "expand" => Align::Expand,
        "shrink" => Align::Shrink,
        _ => Align::Start,
    }
}

fn align_coq(v: &Value) -> String {
    if let Some(o) = v.get("offset") {
        return format!("(AOffset {})", cz(o.as_i64().unwrap_or(0) as i32 as i128));
    }
    match v.as_str().unwrap_or("start") {
        "center" => "ACenter",
        "end" => "AEnd",
        "expand" => "AExpand",
        "shrink" => "AShrink",
        _ => "AStart",
    }
    .to_string()
}

fn axis_from(v: &Value) -> Axis {
    if v.as_str() == Some("v") {
        Axis::Vertical
    } else {
        Axis::Horizontal
    }
}

fn justify_from(v: &Value) -> Justify {
    match v.as_str().unwrap_or("start") {
        "center" => Justify::Center,
        "end" => Justify::End,
        "between" => Justify::SpaceBetween,
        "around" => Justify::SpaceAround,
        "evenly" => Justify::SpaceEvenly,
        _ => Justify::Start,
    }
}

fn justify_coq(v: &Value) -> &'static str {
    match v.as_str().unwrap_or("start") {
        "center" => "JCenter",
        "end" => "JEnd",
        "between" => "JBetween",
        "around" => "JAround",
        "evenly" => "JEvenly",
        _ => "JStart",
    }
}

fn color_from(code: u64) -> RGBA {
    RGBA::new((code >> 24) as u8, (code >> 16) as u8, (code >> 8) as u8, code as u8)
}

fn text_of(defs: &Defs, node: &Value) -> Text {
    let mut text = Text::new();
    text.set_wraps(node["wraps"].as_bool().unwrap_or(true));
    for c in node["cells"].as_array().cloned().unwrap_or_default() {
        text.put_cell(defs.cell_from(&c));
    }
    text
}

fn string_of(node: &Value) -> String {
    vusizes(&node["s"]).iter().filter_map(|c| char::from_u32(*c as u32)).collect()
}

/// flex factor as given (quarters); None when absent
fn flex_of(kid: &Value) -> Option<f64> {
    // "flexf": an arbitrary double (the case is then judged by the predicate alone)
    if let Some(f) = kid["flexf"].as_f64() {
        return Some(f);
    }
    match kid["flexf"].as_str() {
        Some("inf") => return Some(f64::INFINITY),
        Some("-inf") => return Some(f64::NEG_INFINITY),
        Some("nan") => return Some(f64::NAN),
        _ => {}
    }
    kid["flex"].as_i64().map(|k| k as f64 / 4.0)
}

/// how the factor of one flex child enters the case
#[derive(Clone, Copy, PartialEq, Debug)]
enum Factor {
    /// no factor, or one that is not a finite positive number: a non-flex child, by the rule of the repaired crate
    Filtered,
    /// a multiple of 1/4 with a small numerator: binary64 is exact, the model is compared
    Quarter(u64),
    /// any other finite positive double: predicate only
    Inexact,
}

fn factor_of(kid: &Value) -> Factor {
    match flex_of(kid) {
        Some(f) if f.is_finite() && f > 0.0 => {
            let q = f * 4.0;
            if q.fract() == 0.0 && q >= 1.0 && q <= 4096.0 {
                Factor::Quarter(q as u64)
            } else {
                Factor::Inexact
            }
        }
        _ => Factor::Filtered,
    }
}

/// (some flex node has a child with an explicit double that is compared exactly or filtered,
///  some flex node has an inexact factor, some child carries a non-finite / non-positive double)
fn factor_census(v: &Value, out: &mut (bool, bool, bool)) {
    match v {
        Value::Object(m) => {
            if m.get("t").and_then(|t| t.as_str()) == Some("flex") {
                for k in m.get("kids").and_then(|k| k.as_array()).cloned().unwrap_or_default() {
                    let explicit = !k["flexf"].is_null();
                    match factor_of(&k) {
                        Factor::Quarter(_) if explicit => out.0 = true,
                        Factor::Inexact => out.1 = true,
                        Factor::Filtered if explicit => out.2 = true,
                        _ => {}
                    }
                }
            }
            m.values().for_each(|x| factor_census(x, out));
        }
        Value::Array(a) => a.iter().for_each(|x| factor_census(x, out)),
        _ => {}
    }
}

fn has_scroll_den0(v: &Value) -> bool {
    match v {
        Value::Object(m) => (m.get("t").and_then(|t| t.as_str()) == Some("scroll") && m.get("den").and_then(|d| d.as_u64()) == Some(0)) || m.values().any(has_scroll_den0),
        Value::Array(a) => a.iter().any(has_scroll_den0),
        _ => false,
    }
}

fn has_flex(v: &Value) -> bool {
    match v {
        Value::Object(m) => m.iter().any(|(k, x)| (k == "flex" && x.as_i64().map(|q| q > 0).unwrap_or(false)) || (k == "flexf" && !x.is_null()) || has_flex(x)),
        Value::Array(a) => a.iter().any(has_flex),
        _ => false,
    }
}


struct Env {
    defs: Arc<Defs>,
    logs: Logs,
    route: String,
}

fn traced(view: BView, node: &Value, env: &Env) -> BView {
    let kind = kind_code(node["t"].as_str().unwrap_or(""));
    let cts = env.logs.cts.clone();
    Box::new(view.trace_layout(move |ct: &BoxConstraint, layout: ViewLayout<'_>| {
        let (mn, mx, sz) = (ct.min(), ct.max(), layout.size());
        cts.lock().unwrap().push((kind, [mn.height, mn.width, mx.height, mx.width], [sz.height, sz.width]));
    }))
}

fn build(node: &Value, env: &Arc<Env>) -> BView {
    let inner: BView = match node["t"].as_str().unwrap_or("") {
        "text" => Box::new(text_of(&env.defs, node)),
        "str" => Box::new(string_of(node)),
        "flex" => {
            let kids = node["kids"].as_array().cloned().unwrap_or_default();
            if env.route == "ref" {
                let children: Vec<FlexChild<BView>> = kids
                    .iter()
                    .map(|k| {
                        let mut c = FlexChild::new(build(&k["v"], env)).align(align_from(&k["align"]));
                        if let Some(f) = flex_of(k) {
                            c = c.flex(f);
                        }
                        if k["face"].is_object() {
                            c = c.face(face_from(&k["face"]));
                        }
                        c
                    })
                    .collect();
                Box::new(FlexRef::new(children).direction(axis_from(&node["dir"])).justify(justify_from(&node["j"])))
            } else {
                let mut f = Flex::new(axis_from(&node["dir"])).justify(justify_from(&node["j"]));
                for k in &kids {
                    let face = if k["face"].is_object() { Some(face_from(&k["face"])) } else { None };
                    f.push_child_ext(build(&k["v"], env), flex_of(k), face, align_from(&k["align"]));
                }
                Box::new(f)
            }
        }
        "container" => {
            let m = vusizes(&node["m"]);
            let sz = vusizes(&node["size"]);
            Box::new(
                Container::new(build(&node["v"], env))
                    .with_face(face_from(&node["face"]))
                    .with_vertical(align_from(&node["av"]))
                    .with_horizontal(align_from(&node["ah"]))
                    .with_margins(Margins { left: m[0], right: m[1], top: m[2], bottom: m[3] })
                    .with_size(Size::new(sz[0], sz[1])),
            )
        }
        "frame" => {
            let c = color_from(node["color"].as_u64().unwrap_or(255));
            Box::new(Frame::new(build(&node["v"], env), c, c, node["bw"].as_f64().unwrap_or(0.1), node["br"].as_f64().unwrap_or(0.2)))
        }
        "scroll" => {
            let (off, vis, den) = (node["off"].as_u64().unwrap_or(0), node["vis"].as_u64().unwrap_or(0), node["den"].as_u64().unwrap_or(8));
            let pos = if den == 0 {
                ScrollBarPosition::from_counts(0, off as usize, vis as usize)
            } else {
                ScrollBarPosition { offset: off as f64 / den as f64, visible: vis as f64 / den as f64 }
            };
            // every other one through ScrollBarFn (position evaluated at render time)
            if off % 2 == 1 {
                Box::new(surf_n_term::view::ScrollBarFn::new(axis_from(&node["dir"]), face_from(&node["face"]), move || ScrollBarPosition { offset: pos.offset, visible: pos.visible }))
            } else {
                Box::new(ScrollBar::new(axis_from(&node["dir"]), face_from(&node["face"]), pos))
            }
        }
        "tag" => Box::new(Tag::new(node["tag"].as_u64().unwrap_or(0), build(&node["v"], env))),
        "none" => Box::new(Option::<BView>::None),
        "some" => return Box::new(Some(build(&node["v"], env))),
        "either" => {
            let v = build(&node["v"], env);
            return if node["left"].as_bool().unwrap_or(true) { Box::new(Either::<BView, BView>::Left(v)) } else { Box::new(Either::<BView, BView>::Right(v)) };
        }
        "dyn" => {
            let k = node["k"].as_u64().unwrap_or(1) as usize;
            let (a, b) = (node["a"].clone(), node["b"].clone());
            let env2 = env.clone();
            Box::new(Dynamic::new(move |_ctx: &ViewContext, ct: BoxConstraint| {
                let pick = if (ct.max().width as u128) > (k as u128) * (ct.max().height as u128) { &a } else { &b };
                DynView { ct, inner: build(pick, &env2) }
            }))
        }
        "fill" => Box::new(color_from(node["color"].as_u64().unwrap_or(255))),
        "unit" => Box::new(()),
        "image" => match env.defs.images.get(node["id"].as_u64().unwrap_or(0) as usize) {
            Some(i) => Box::new(i.clone()),
            None => Box::new(()),
        },
        "glyph" => match env.defs.glyphs.get(node["id"].as_u64().unwrap_or(0) as usize) {
            Some(g) => Box::new(g.clone()),
            None => Box::new(()),
        },
        "surface" => {
            // SurfaceView<'static, Cell> over a leaked surface filled with one cell
            let cell = Cell::new_char(face_from(&node["face"]), char::from_u32(node["ch"].as_u64().unwrap_or(83) as u32).unwrap_or('S'));
            let owned: &'static SurfaceOwned<Cell> = Box::leak(Box::new(SurfaceOwned::new_with(
                Size::new(node["h"].as_u64().unwrap_or(1) as usize, node["w"].as_u64().unwrap_or(1) as usize),
                |_| cell.clone(),
            )));
            Box::new(owned.as_ref())
        }
        "ascii" => {
            let doc = image_doc(node["h"].as_u64().unwrap_or(1) as usize, node["w"].as_u64().unwrap_or(1) as usize, node["color"].as_u64().unwrap_or(255));
            let v: surf_n_term::image::ImageAsciiView = serde_json::from_value(doc).expect("image_ascii");
            Box::new(v)
        }
        "cached" => {
            // ViewCached is only reachable through JSON: {"type": "ref", "ref": uid}
            let cache = Cache { views: match node.get("v") { Some(v) if !v.is_null() => vec![Arc::from(build(v, env))], _ => vec![] } };
            let de = ViewDeserializer::new(None, Some(Arc::new(cache)));
            let v = (&de).deserialize(json!({"type": "ref", "ref": 0})).expect("ref");
            return Box::new(v);
        }
        _ => Box::new(Probe {
            id: node["id"].as_u64().unwrap_or(0),
            pref: Size::new(node["ph"].as_u64().unwrap_or(1) as usize, node["pw"].as_u64().unwrap_or(1) as usize),
            logs: env.logs.clone(),
        }),
    };
    traced(inner, node, env)
}

// ---------- JSON route ----------
fn face_str(v: &Value) -> String {
    let mut parts = vec![];
    if let Some(c) = v["fg"].as_u64() {
        parts.push(format!("fg=#{:06x}", c >> 8));
    }
    if let Some(c) = v["bg"].as_u64() {
        parts.push(format!("bg=#{:06x}", c >> 8));
    }
    let a = v["attrs"].as_u64().unwrap_or(0);
    if a & 8 != 0 {
        parts.push("bold".to_string());
    }
    if a & 16 != 0 {
        parts.push("italic".to_string());
    }
    parts.join(",")
}

fn align_doc(v: &Value) -> Value {
    if let Some(o) = v.get("offset") {
        json!({"offset": o})
    } else {
        json!(v.as_str().unwrap_or("start"))
    }
}

/// JSON document of the subtree; flex / container / tag / plain text are genuine library types,
/// every other node goes through the custom type "h" registered by the harness
fn doc(node: &Value, env: &Env) -> Value {
    match node["t"].as_str().unwrap_or("") {
        "flex" => {
            let kids: Vec<Value> = node["kids"]
                .as_array()
                .cloned()
                .unwrap_or_default()
                .iter()
                .map(|k| {
                    let mut c = json!({"view": doc(&k["v"], env), "align": align_doc(&k["align"])});
                    if let Some(f) = flex_of(k) {
                        // JSON has no literal for inf / NaN: such a factor cannot come from a document
                        if f.is_finite() {
                            c["flex"] = json!(f);
                        }
                    }
                    if k["face"].is_object() {
                        c["face"] = json!(face_str(&k["face"]));
                    }
                    c
                })
                .collect();
            json!({"type": "flex", "direction": if node["dir"].as_str() == Some("v") { "vertical" } else { "horizontal" },
                   "justify": match node["j"].as_str().unwrap_or("start") { "between" => "space-between", "around" => "space-around", "evenly" => "space-evenly", x => x },
                   "children": kids})
        }
        "container" => {
            let m = vusizes(&node["m"]);
            let sz = vusizes(&node["size"]);
            json!({"type": "container", "child": doc(&node["v"], env), "face": face_str(&node["face"]),
                   "vertical": align_doc(&node["av"]), "horizontal": align_doc(&node["ah"]),
                   "margins": {"left": m[0], "right": m[1], "top": m[2], "bottom": m[3]},
                   "size": {"height": sz[0], "width": sz[1]}})
        }
        "tag" => json!({"type": "tag", "tag": node["tag"], "view": doc(&node["v"], env)}),
        "str" => json!({"type": "text", "text": string_of(node)}),
        "image" => match env.defs.images.get(node["id"].as_u64().unwrap_or(0) as usize) {
            Some(i) => {
                let mut d = image_doc(i.height(), i.width(), 0x204060ff);
                d["type"] = json!("image");
                d
            }
            None => json!({"type": "h", "node": node}),
        },
        "glyph" => match env.defs.glyphs.get(node["id"].as_u64().unwrap_or(0) as usize) {
            Some(g) => json!({"type": "glyph", "path": "M0,0L1,1L1,0Z", "size": {"height": g.size().height, "width": g.size().width},
                              "fallback": g.fallback_str()}),
            None => json!({"type": "h", "node": node}),
        },
        "ascii" => {
            let mut d = image_doc(node["h"].as_u64().unwrap_or(1) as usize, node["w"].as_u64().unwrap_or(1) as usize, node["color"].as_u64().unwrap_or(255));
            d["type"] = json!("image_ascii");
            d
        }
        _ => json!({"type": "h", "node": node}),
    }
}

// ---------- Coq printing ----------
fn node_coq(node: &Value, env: &Env, genuine: bool) -> String {
    // genuine: the node is deserialised by the library itself (JSON route, below flex / container / tag only);
    // images and glyphs are then fresh objects, not the ones of the case's tables
    let defs = &env.defs;
    match node["t"].as_str().unwrap_or("") {
        "text" => {
            let t = text_of(defs, node);
            format!("(VText {} {})", clist(t.cells().iter().map(|c| defs.cell_coq(c))), cbool(node["wraps"].as_bool().unwrap_or(true)))
        }
        "str" => format!("(VStr {})", clist(vusizes(&node["s"]).iter().map(|c| c.to_string()))),
        "flex" => {
            let kids = clist(node["kids"].as_array().cloned().unwrap_or_default().iter().map(|k| {
                // numerators over the common denominator 4; an inexact factor makes the whole case predicate-only,
                // what is printed for it only has to be a flex child
                let fl = match factor_of(k) {
                    Factor::Quarter(q) => format!("(Some {}%positive)", q),
                    Factor::Inexact => "(Some 1%positive)".to_string(),
                    Factor::Filtered => "None".to_string(),
                };
                let face = if k["face"].is_object() { format!("(Some {})", face_coq(&face_from(&k["face"]))) } else { "None".to_string() };
                format!("({}, {}, {}, {})", node_coq(&k["v"], env, genuine), fl, face, align_coq(&k["align"]))
            }));
            format!("(VFlex {} {} {})", if node["dir"].as_str() == Some("v") { "Ver" } else { "Hor" }, justify_coq(&node["j"]), kids)
        }
        "container" => {
            let m = vusizes(&node["m"]);
            let sz = vusizes(&node["size"]);
            format!(
                "(VContainer {} {} {} {} (mkM {} {} {} {}) {} {})",
                node_coq(&node["v"], env, genuine),
                face_coq(&face_from(&node["face"])),
                align_coq(&node["av"]),
                align_coq(&node["ah"]),
                m[0],
                m[1],
                m[2],
                m[3],
                sz[0],
                sz[1]
            )
        }
        "frame" => format!("(VFrame {} {})", node_coq(&node["v"], env, false), node["color"].as_u64().unwrap_or(255)),
        "scroll" => format!(
            "(VScrollBar {} {} {} {} {})",
            if node["dir"].as_str() == Some("v") { "Ver" } else { "Hor" },
            face_coq(&face_from(&node["face"])),
            node["off"].as_u64().unwrap_or(0),
            node["vis"].as_u64().unwrap_or(0),
            node["den"].as_u64().unwrap_or(8)
        ),
        "tag" => format!("(VTag {} {})", node["tag"].as_u64().unwrap_or(0), node_coq(&node["v"], env, genuine)),
        "none" => "VNone".to_string(),
        "some" | "either" => node_coq(&node["v"], env, false),
        "dyn" => format!(
            "(VDynamic (fun c => if ({} * c_maxh c <? c_maxw c) then {} else {}))",
            node["k"].as_u64().unwrap_or(1),
            node_coq(&node["a"], env, false),
            node_coq(&node["b"], env, false)
        ),
        "fill" => format!("(VFill {})", node["color"].as_u64().unwrap_or(255)),
        "unit" => "VUnit".to_string(),
        "image" => match defs.images.get(node["id"].as_u64().unwrap_or(0) as usize) {
            Some(i) => format!("(VImage {} {} {})", if genuine { 999 } else { node["id"].as_u64().unwrap_or(0) }, i.height(), i.width()),
            None => "VUnit".to_string(),
        },
        "glyph" => match defs.glyphs.get(node["id"].as_u64().unwrap_or(0) as usize) {
            Some(g) => format!(
                "(VGlyph {} {} {} {})",
                if genuine { 999 } else { node["id"].as_u64().unwrap_or(0) },
                cnat(g.size().height),
                cnat(g.size().width),
                clist(g.fallback_str().chars().map(|c| (c as u32).to_string()))
            ),
            None => "VUnit".to_string(),
        },
        "surface" => format!(
            "(VSurface {} {} (mkCell {} (KChar {})))",
            node["h"].as_u64().unwrap_or(1),
            node["w"].as_u64().unwrap_or(1),
            face_coq(&face_from(&node["face"])),
            node["ch"].as_u64().unwrap_or(83)
        ),
        "ascii" => format!("(VImageAscii {} {} {})", node["h"].as_u64().unwrap_or(1), node["w"].as_u64().unwrap_or(1), (node["color"].as_u64().unwrap_or(255) & 0xffffff00) | 255),
        "cached" => match node.get("v") {
            Some(v) if !v.is_null() => format!("(VRef (Some {}))", node_coq(v, env, false)),
            _ => "(VRef None)".to_string(),
        },
        _ => format!("(VProbe {} {} {})", node["id"].as_u64().unwrap_or(0), node["ph"].as_u64().unwrap_or(1), node["pw"].as_u64().unwrap_or(1)),
    }
}

fn tree_coq(t: ViewLayout<'_>) -> String {
    let data = if let Some(tag) = t.data::<u64>() {
        format!("(DTag {})", tag)
    } else if let Some(tag) = t.data::<Value>() {
        format!("(DTag {})", tag.as_u64().unwrap_or(0))
    } else if t.data::<ArcView<'static>>().is_some() {
        "DRef".to_string()
    } else if let Some(d) = t.data::<DynView>() {
        format!("(DCt (mkCt {} {} {} {}))", d.ct.min().height, d.ct.min().width, d.ct.max().height, d.ct.max().width)
    } else {
        "DNone".to_string()
    };
    let kids = clist(t.children().map(tree_coq));
    format!("(LNode {} {} {} {} {} {})", t.position().row, t.position().col, t.size().height, t.size().width, data, kids)
}

fn tree_json(t: ViewLayout<'_>) -> Value {
    json!({"pos": [t.position().row, t.position().col], "size": [t.size().height, t.size().width], "kids": t.children().map(tree_json).collect::<Vec<_>>()})
}

struct Out {
    tree: String,
    tree_j: Value,
    canvas: Vec<u64>,
    probes: Vec<(u64, [usize; 6])>,
    cts: Vec<(u64, [usize; 4], [usize; 2])>,
    paths: Vec<Vec<usize>>,
}

fn run_case(input: &Value, env: &Arc<Env>, hh: usize, ww: usize, vops: &[VOp]) -> Out {
    let ct = vusizes(&input["ct"]);
    let ct = BoxConstraint::new(Size::new(ct[0], ct[1]), Size::new(ct[2], ct[3]));
    let ctx = env.defs.ctx.clone();
    let view: Box<dyn View> = if env.route == "json" {
        let mut de = ViewDeserializer::new(None, None);
        let env2 = env.clone();
        de.register("h", move |_seed: &ViewDeserializer<'_>, value: &Value| -> Arc<dyn View> { Arc::from(build(&value["node"], &env2)) });
        let v = (&de).deserialize(doc(&input["tree"], env)).expect("deserialize");
        Box::new(v)
    } else {
        build(&input["tree"], env)
    };
    let mut store = ViewLayoutStore::new();
    let layout = view.layout_new(&ctx, ct, &mut store).expect("layout");
    let tree = tree_coq(layout.view());
    let tree_j = tree_json(layout.view());
    let shape = chain_shape(hh, ww, vops);
    let mut data = canvas(hh * ww);
    {
        let surf = SurfaceMutView::new(shape, &mut data[..]);
        view.render(&ctx, surf, layout.view()).expect("render");
    }
    // the nine fragments Frame paints, per frame colour of the tree: rendered once into a 3 x 3 scratch
    // surface (Frame caches its fragments per colour and context, so the images are the same objects)
    let mut frags: Vec<(surf_n_term::Image, u64)> = vec![];
    if env.defs.ctx.has_glyphs() {
        let mut colors = vec![];
        frame_colors(&input["tree"], &mut colors);
        for (col, bw, br) in colors {
            let c = color_from(col);
            let fr = Frame::new((), c, c, bw, br);
            let mut st = ViewLayoutStore::new();
            let lay = fr.layout_new(&ctx, BoxConstraint::tight(Size::new(3, 3)), &mut st).expect("layout");
            let mut scratch = SurfaceOwned::<Cell>::new(Size::new(3, 3));
            fr.render(&ctx, scratch.as_mut(), lay.view()).expect("render");
            for r in 0..3 {
                for cc in 0..3 {
                    if let Some(cell) = scratch.get(Position::new(r, cc)) {
                        if let surf_n_term::render::CellKind::Image(img) = cell.kind() {
                            frags.push((img.clone(), (cc + 3 * r) as u64));
                        }
                    }
                }
            }
        }
    }
    let mut nums = vec![];
    for c in &data {
        let at = nums.len();
        env.defs.cell_nums(c, &mut nums);
        if nums[at + 3] == 2 && nums[at + 4] == 999 {
            if let surf_n_term::render::CellKind::Image(img) = c.kind() {
                if let Some((_, idx)) = frags.iter().find(|(f, _)| f == img) {
                    nums[at + 4] = 1000 + idx;
                }
            }
        }
    }
    // find_path for every position of a grid a little larger than the root
    let root = layout.view();
    let (qh, qw) = (root.size().height.saturating_add(2).min(14), root.size().width.saturating_add(2).min(14));
    let mut paths = vec![];
    for r in 0..qh {
        for c in 0..qw {
            paths.push(path_of_borrowed(&root, Position::new(r, c)));
        }
    }
    Out { tree, tree_j, canvas: nums, probes: env.logs.probes.lock().unwrap().clone(), cts: env.logs.cts.lock().unwrap().clone(), paths }
}

/// find_path as child indices, walking the tree with borrowed views
fn path_of_borrowed(root: &ViewLayout<'_>, pos: Position) -> Vec<usize> {
    let found: Vec<*const Layout> = root.find_path(pos).map(|l| l as *const Layout).collect();
    fn walk(node: ViewLayout<'_>, rest: &[*const Layout], out: &mut Vec<usize>) {
        if rest.is_empty() {
            return;
        }
        for (i, child) in node.children().enumerate() {
            if std::ptr::eq(child.value() as *const Layout, rest[0]) {
                out.push(i);
                walk(child, &rest[1..], out);
                return;
            }
        }
        out.push(9999);
    }
    let mut out = vec![];
    if found.is_empty() || !std::ptr::eq(found[0], root.value() as *const Layout) {
        return vec![9998];
    }
    walk(root.view(), &found[1..], &mut out);
    out
}

// ---------- FindPath on hand-made layout trees ----------
fn push_tree(mut parent: ViewMutLayout<'_>, node: &Value) {
    for k in node["kids"].as_array().cloned().unwrap_or_default() {
        let p = vusizes(&k["pos"]);
        let z = vusizes(&k["size"]);
        let child = parent.push(Layout::new().with_position(Position::new(p[0], p[1])).with_size(Size::new(z[0], z[1])));
        push_tree(child, &k);
    }
}

fn ltree_coq(node: &Value) -> String {
    let p = vusizes(&node["pos"]);
    let z = vusizes(&node["size"]);
    format!(
        "(LNode {} {} {} {} DNone {})",
        p[0],
        p[1],
        z[0],
        z[1],
        clist(node["kids"].as_array().cloned().unwrap_or_default().iter().map(ltree_coq))
    )
}

/// some node of a hand-made layout tree has two children whose rectangles share a cell / has a huge extent
fn fp_census(node: &Value, out: &mut (bool, bool)) {
    let kids = node["kids"].as_array().cloned().unwrap_or_default();
    let rect = |k: &Value| -> (u64, u64, u64, u64) {
        let p = vusizes(&k["pos"]);
        let z = vusizes(&k["size"]);
        (p[0] as u64, (p[0] as u64).saturating_add(z[0] as u64), p[1] as u64, (p[1] as u64).saturating_add(z[1] as u64))
    };
    for (i, a) in kids.iter().enumerate() {
        let ra = rect(a);
        if ra.1 == u64::MAX || ra.3 == u64::MAX {
            out.1 = true;
        }
        for b in kids.iter().skip(i + 1) {
            let rb = rect(b);
            if ra.0.max(rb.0) < ra.1.min(rb.1) && ra.2.max(rb.2) < ra.3.min(rb.3) {
                out.0 = true;
            }
        }
        fp_census(a, out);
    }
}

fn run_fp(input: &Value) -> Case {
    let t = &input["tree"];
    let out = catch(std::panic::AssertUnwindSafe(|| {
        let p = vusizes(&t["pos"]);
        let z = vusizes(&t["size"]);
        let mut store = ViewLayoutStore::new();
        let mut root = ViewMutLayout::new(&mut store, Layout::new().with_position(Position::new(p[0], p[1])).with_size(Size::new(z[0], z[1])));
        push_tree(root.view_mut(), t);
        let view = root.view();
        let mut paths = vec![];
        for r in 0..13 {
            for c in 0..13 {
                paths.push(path_of_borrowed(&view, Position::new(r, c)));
            }
        }
        paths
    }));
    let mut j = input.clone();
    let coq = match &out {
        Some(paths) => {
            j["impl"] = json!({"paths": paths});
            format!("CF {} {}", ltree_coq(t), clist(paths.iter().map(|p| clist(p.iter().map(|i| cnat(*i))))))
        }
        None => {
            j["impl"] = json!("panic");
            format!("CF {} []", ltree_coq(t))
        }
    };
    let mut census = (false, false);
    fp_census(t, &mut census);
    let tags = vec!["kind=find_path".to_string(), format!("fp_siblings_overlap={}", census.0), format!("fp_saturating_extent={}", census.1)];
    Case { coq, json: j, tags, nontrivial: out.is_some() }
}

fn gen_fp_node(rng: &mut Rng, depth: usize) -> Value {
    let ext = |rng: &mut Rng| -> u64 {
        match rng.below(14) {
            0 => u64::MAX,
            1 => u64::MAX - rng.below(4),
            _ => rng.below(9),
        }
    };
    let n = if depth == 0 { 0 } else { rng.below(5) as usize };
    let kids: Vec<Value> = (0..n).map(|_| gen_fp_node(rng, depth - 1)).collect();
    json!({"pos": [ext(rng), ext(rng)], "size": [ext(rng), ext(rng)], "kids": kids})
}

pub fn run(input: &Value) -> Case {
    if input["k"].as_str() == Some("fp") {
        return run_fp(input);
    }
    let hh = input["H"].as_u64().unwrap_or(1) as usize;
    let ww = input["W"].as_u64().unwrap_or(1) as usize;
    let vops = vops_from(&input["vops"]);
    let glyphs = input["glyphs"].as_bool().unwrap_or(true);
    let route = input["route"].as_str().unwrap_or("ctor").to_string();
    let defs = Arc::new(Defs::new(input));
    let env = Arc::new(Env { defs: defs.clone(), logs: Logs::default(), route: route.clone() });
    let mut chars = vec![];
    collect_chars(&input["tree"], &mut chars);
    for g in input["glyph_defs"].as_array().cloned().unwrap_or_default() {
        chars.extend(vusizes(&g["fb"]).iter().map(|c| *c as u32));
    }
    let ct = vusizes(&input["ct"]);
    let mut census = (false, false, false);
    factor_census(&input["tree"], &mut census);
    let huge_ct = ct[2] >= 1 << 40 || ct[3] >= 1 << 40;
    let exact = !census.1 && !(has_flex(&input["tree"]) && huge_ct);
    let head = format!(
        "CV {} {} {} {} {} {} {} {} (mkCt {} {} {} {}) {}",
        // f64 shares are exact for quarter factors while remain * factor stays below 2^53; decided per flex node
        cbool(exact),
        cnat(hh),
        cnat(ww),
        vops_coq(&vops),
        cbool(glyphs),
        defs.width_table(&chars),
        defs.ctx.pixels_per_cell().height,
        defs.ctx.pixels_per_cell().width,
        ct[0],
        ct[1],
        ct[2],
        ct[3],
        node_coq(&input["tree"], &env, route == "json")
    );
    let out = {
        let e = &env;
        let v = &vops;
        catch(std::panic::AssertUnwindSafe(|| run_case(input, e, hh, ww, v)))
    };
    let mut j = input.clone();
    let (res, nontrivial, nodes) = match &out {
        Some(o) => {
            j["impl"] = json!({"tree": o.tree_j, "canvas": o.canvas, "probes": o.probes.iter().map(|(i, s)| json!([i, s])).collect::<Vec<_>>(),
                               "paths": o.paths});
            let probes = clist(o.probes.iter().map(|(id, s)| {
                format!("({}, mkShape {} {} {} {} {} {})", id, cnat(s[0]), cnat(s[1]), cnat(s[2]), cnat(s[3]), cnat(s[4]), cnat(s[5]))
            }));
            let cts = clist(o.cts.iter().map(|(k, c, s)| format!("({}, mkCt {} {} {} {}, {}, {})", k, c[0], c[1], c[2], c[3], s[0], s[1])));
            let paths = clist(o.paths.iter().map(|p| clist(p.iter().map(|i| cnat(*i)))));
            let nodes = o.tree.matches("LNode").count();
            (format!("(VRes {} {} {} {} {})", o.tree, cnums(&o.canvas), probes, cts, paths), nodes >= 3 && !o.probes.is_empty(), nodes)
        }
        None => {
            j["impl"] = json!("panic");
            ("VPanic".to_string(), true, 0)
        }
    };
    if input["known_class"].is_array() {
        j["known_class"] = input["known_class"].clone();
    }
    let tags = vec![
        format!("route={}", route),
        format!("glyphs={}", glyphs),
        format!("nodes={}", if nodes == 0 { "panic" } else if nodes < 3 { "1-2" } else if nodes < 8 { "3-7" } else { "8+" }),
        format!("tiny_ct={}", ct[2] <= 1 || ct[3] <= 1),
        format!("root={}", input["tree"]["t"].as_str().unwrap_or("?")),
        format!("model_compared={}", exact),
        format!("fixed_leaf_grid={}", input["fixed"].as_bool().unwrap_or(false)),
        format!("empty_surface={}", input["vops"].as_array().map(|a| a.iter().any(|o| o["r"]["a"] == o["r"]["b"] && o["r"].is_object() || o["c"]["a"] == o["c"]["b"] && o["c"].is_object())).unwrap_or(false)),
        format!("tight_ct={}", ct[0] == ct[2] && ct[1] == ct[3]),
        format!("zero_max={}", ct[2] == 0 || ct[3] == 0),
        format!("factor_double_compared={}", census.0 && exact),
        format!("factor_inexact={}", census.1),
        format!("factor_filtered_double={}", census.2),
        format!("huge_ct={}", huge_ct),
        format!("scroll_den0={}", has_scroll_den0(&input["tree"])),
        format!("ppc={}", if defs.ctx.pixels_per_cell() == Size::new(20, 10) { "default" } else { "varied" }),
    ];
    Case { coq: format!("{} {}", head, res), json: j, tags, nontrivial }
}

fn frame_colors(v: &Value, out: &mut Vec<(u64, f64, f64)>) {
    match v {
        Value::Object(m) => {
            if m.get("t").and_then(|t| t.as_str()) == Some("frame") {
                let c = (
                    m.get("color").and_then(|c| c.as_u64()).unwrap_or(255),
                    m.get("bw").and_then(|c| c.as_f64()).unwrap_or(0.1),
                    m.get("br").and_then(|c| c.as_f64()).unwrap_or(0.2),
                );
                if !out.contains(&c) {
                    out.push(c);
                }
            }
            m.values().for_each(|x| frame_colors(x, out));
        }
        Value::Array(a) => a.iter().for_each(|x| frame_colors(x, out)),
        _ => {}
    }
}

fn collect_chars(v: &Value, out: &mut Vec<u32>) {
    match v {
        Value::Object(m) => {
            for (k, x) in m {
                match k.as_str() {
                    "ch" => out.extend(x.as_u64().map(|c| c as u32)),
                    "s" | "fb" => out.extend(vusizes(x).iter().map(|c| *c as u32)),
                    _ => collect_chars(x, out),
                }
            }
        }
        Value::Array(a) => a.iter().for_each(|x| collect_chars(x, out)),
        _ => {}
    }
}

// ---------- generators ----------
const CHARS: [u32; 10] = [97, 98, 99, 100, 32, 0x6F22, 0x3042, 10, 9, 0x301];

fn gen_small_face(rng: &mut Rng) -> Value {
    let col = |rng: &mut Rng| -> Value {
        if rng.chance(1, 2) {
            Value::Null
        } else {
            json!(((rng.below(256) << 24) | (rng.below(256) << 16) | (rng.below(256) << 8) | 255) as u64)
        }
    };
    json!({"fg": col(rng), "bg": col(rng), "attrs": *rng.pick(&[0u64, 0, 8, 16, 24])})
}

fn gen_align(rng: &mut Rng) -> Value {
    match rng.below(9) {
        0 | 1 => json!("start"),
        2 => json!("center"),
        3 => json!("end"),
        4 => json!("expand"),
        5 | 6 => json!("shrink"),
        _ => json!({"offset": *rng.pick(&[0i64, 1, 2, -1, -2, 5, -7, 2147483647, -2147483648])}),
    }
}

fn gen_extent(rng: &mut Rng) -> u64 {
    match rng.below(12) {
        0 | 1 => 0,
        2 | 3 => 1,
        4 => 2,
        5 => u64::MAX,
        6 => u64::MAX - rng.below(3),
        7 => 1 << 32,
        _ => rng.below(9),
    }
}

struct Gen {
    next_probe: u64,
    ng: usize,
    ni: usize,
    json_ok: bool,
    inexact: bool,
    /// small integer constants written in the view sources (and their neighbours): child counts, margins, factors,
    /// extents and text lengths are aimed at them now and then
    bnd: Vec<u64>,
}

const BOUNDARY_FILES: [&str; 7] = ["src/view/text.rs", "src/view/flex.rs", "src/view/container.rs", "src/view/scrollbar.rs", "src/view/layout.rs", "src/view/frame.rs", "src/render.rs"];

fn pick_bnd(rng: &mut Rng, bnd: &[u64], lo: u64, hi: u64) -> Option<u64> {
    let c: Vec<u64> = bnd.iter().cloned().filter(|x| *x >= lo && *x <= hi).collect();
    if c.is_empty() {
        None
    } else {
        Some(*rng.pick(&c))
    }
}

fn gen_leaf(rng: &mut Rng, g: &mut Gen) -> Value {
    match rng.below(18) {
        0 | 1 => {
            let mut n = rng.below(7) as usize;
            if rng.chance(1, 8) {
                n = pick_bnd(rng, &g.bnd, 0, 40).unwrap_or(n as u64) as usize;
            }
            let cells: Vec<Value> = (0..n)
                .map(|_| {
                    let kind = if g.ng > 0 && rng.chance(1, 8) { json!({"t": "g", "id": rng.below(g.ng as u64)}) } else { json!({"t": "c", "ch": *rng.pick(&CHARS)}) };
                    json!({"face": gen_small_face(rng), "kind": kind})
                })
                .collect();
            json!({"t": "text", "cells": cells, "wraps": rng.chance(3, 4)})
        }
        2 => {
            let mut n = rng.below(6) as usize;
            if rng.chance(1, 8) {
                n = pick_bnd(rng, &g.bnd, 0, 40).unwrap_or(n as u64) as usize;
            }
            json!({"t": "str", "s": (0..n).map(|_| *rng.pick(&CHARS)).collect::<Vec<u32>>()})
        }
        3 => {
            let (lim_o, lim_v) = (if rng.chance(1, 6) { 20 } else { 9 }, if rng.chance(1, 6) { 20 } else { 9 });
            json!({"t": "scroll", "dir": if rng.chance(1, 2) { "h" } else { "v" }, "face": gen_small_face(rng),
                   "off": rng.below(lim_o), "vis": rng.below(lim_v), "den": *rng.pick(&[8u64, 8, 8, 8, 3, 7, 0])})
        }
        4 => json!({"t": "none"}),
        14 => json!({"t": "surface", "h": rng.below(5), "w": rng.below(6), "ch": 83 + rng.below(3), "face": gen_small_face(rng)}),
        15 => json!({"t": "ascii", "h": rng.below(7), "w": rng.below(6), "color": ((rng.below(256) << 24) | (rng.below(256) << 16) | 0x33ff) as u64}),
        5 => json!({"t": "fill", "color": ((rng.below(256) << 24) | (rng.below(256) << 16) | 0x55ff) as u64}),
        6 => json!({"t": "unit"}),
        7 if g.ni > 0 => json!({"t": "image", "id": rng.below(g.ni as u64)}),
        8 if g.ng > 0 => json!({"t": "glyph", "id": rng.below(g.ng as u64)}),
        _ => {
            g.next_probe += 1;
            json!({"t": "probe", "id": g.next_probe, "ph": rng.below(6), "pw": rng.below(8)})
        }
    }
}

fn gen_node(rng: &mut Rng, g: &mut Gen, depth: usize) -> Value {
    if depth == 0 || rng.chance(1, 7) {
        return gen_leaf(rng, g);
    }
    match rng.below(12) {
        0..=3 => {
            let n = match rng.below(8) {
                0 => 0,
                1 => 1,
                2 | 3 => 2,
                4 | 5 => 3,
                _ => 4,
            } as usize;
            let n = if rng.chance(1, 12) { pick_bnd(rng, &g.bnd, 0, 9).unwrap_or(n as u64) as usize } else { n };
            let exact_node = rng.chance(1, 2);
            let kids: Vec<Value> = (0..n)
                .map(|_| {
                    let flex: Value = match rng.below(8) {
                        0..=3 => Value::Null,
                        4 => json!(*rng.pick(&[0i64, -4, -10])),
                        5 => json!(pick_bnd(rng, &g.bnd, 1, 64).unwrap_or(1)),
                        _ => json!(1 + rng.below(12)),
                    };
                    let mut kid = json!({"v": gen_node(rng, g, depth - 1), "flex": flex, "face": if rng.chance(1, 4) { gen_small_face(rng) } else { Value::Null }, "align": gen_align(rng)});
                    if g.inexact && rng.chance(1, 2) {
                        // doubles given as such: in half of the flex nodes only factors binary64 handles exactly
                        // (quarters) and factors the crate must filter, so that the model is compared there too
                        kid["flexf"] = if rng.chance(1, 5) {
                            json!(*rng.pick(&["inf", "-inf", "nan"]))
                        } else if exact_node {
                            json!(*rng.pick(&[1.0f64, 2.5, 7.0, 0.25, 0.5, 1.75, 12.0, 3.0, -1e-20, 0.0, -2.0]))
                        } else {
                            json!(*rng.pick(&[1.0f64, 1e-20, 1e300, 0.1, 0.2, 0.3, 3.3, 1e-300, 5e-324, 2.2250738585072014e-308, 1.7976931348623157e308, 2.5, -1e-20, 0.0, 7.0]))
                        };
                    }
                    kid
                })
                .collect();
            json!({"t": "flex", "dir": if rng.chance(1, 2) { "h" } else { "v" },
                   "j": *rng.pick(&["start", "center", "end", "between", "around", "evenly"]), "kids": kids})
        }
        4..=6 => {
            let m: Vec<u64> = if rng.chance(1, 3) {
                // margins of a few cells on every side: larger than the box for tiny constraints
                (0..4).map(|_| 1 + rng.below(3)).collect()
            } else {
                (0..4).map(|_| if rng.chance(1, 2) { 0 } else if rng.chance(1, 6) { pick_bnd(rng, &g.bnd, 0, 64).unwrap_or(1) } else { gen_extent(rng) }).collect()
            };
            json!({"t": "container", "v": gen_node(rng, g, depth - 1), "face": if rng.chance(1, 3) { gen_small_face(rng) } else { json!({"fg": null, "bg": null, "attrs": 0}) },
                   "av": gen_align(rng), "ah": gen_align(rng), "m": m, "size": [gen_extent(rng), gen_extent(rng)]})
        }
        7 => json!({"t": "frame", "v": gen_node(rng, g, depth - 1), "color": ((rng.below(256) << 24) | 0x1020ff) as u64,
                    "bw": *rng.pick(&[0.1f64, 0.1, 0.0, 1.0, 0.5]), "br": *rng.pick(&[0.2f64, 0.2, 0.0, 1.0, 0.5])}),
        8 => json!({"t": "tag", "tag": rng.below(100), "v": gen_node(rng, g, depth - 1)}),
        9 => {
            if rng.chance(1, 2) {
                json!({"t": "some", "v": gen_node(rng, g, depth - 1)})
            } else {
                json!({"t": "either", "left": rng.chance(1, 2), "v": gen_node(rng, g, depth - 1)})
            }
        }
        10 => {
            if rng.chance(1, 5) {
                json!({"t": "cached", "v": Value::Null})
            } else {
                json!({"t": "cached", "v": gen_node(rng, g, depth - 1)})
            }
        }
        _ => json!({"t": "dyn", "k": 1 + rng.below(3), "a": gen_node(rng, g, depth - 1), "b": gen_node(rng, g, depth - 1)}),
    }
}

/// every leaf view, bare and inside the combinators that hand down their own constraint, under the
/// constraints a fast path is most likely to get wrong: tight (zero, one cell, larger than the natural
/// size), zero height or width, a minimum above the natural size
fn fixed_cases() -> Vec<Value> {
    let f0 = json!({"fg": null, "bg": null, "attrs": 0});
    let cell = |ch: u32| json!({"face": f0, "kind": {"t": "c", "ch": ch}});
    let leaves: Vec<Value> = vec![
        json!({"t": "text", "cells": [cell(97), cell(98), cell(32), cell(99)], "wraps": true}),
        json!({"t": "text", "cells": [cell(97), cell(0x6F22), cell(10), cell(98)], "wraps": true}),
        json!({"t": "text", "cells": [cell(97), cell(98), cell(99), cell(100), cell(97), cell(98)], "wraps": false}),
        json!({"t": "text", "cells": [], "wraps": true}),
        json!({"t": "str", "s": [97, 98, 99]}),
        json!({"t": "fill", "color": 0x102055ffu64}),
        json!({"t": "unit"}),
        json!({"t": "none"}),
        json!({"t": "scroll", "dir": "h", "face": f0, "off": 1, "vis": 3, "den": 8}),
        json!({"t": "scroll", "dir": "v", "face": f0, "off": 0, "vis": 8, "den": 8}),
        json!({"t": "surface", "h": 2, "w": 3, "ch": 83, "face": f0}),
        json!({"t": "ascii", "h": 3, "w": 2, "color": 0x204033ffu64}),
        json!({"t": "image", "id": 0}),
        json!({"t": "glyph", "id": 0}),
        json!({"t": "probe", "id": 1, "ph": 2, "pw": 3}),
    ];
    let cts: [[u64; 4]; 7] = [[0, 0, 0, 0], [1, 1, 1, 1], [3, 7, 3, 7], [0, 5, 0, 5], [0, 0, 8, 0], [4, 9, 6, 12], [0, 0, 5, 10]];
    let mut v = vec![];
    let mut k = 0usize;
    for leaf in &leaves {
        let wrapped: Vec<Value> = vec![
            leaf.clone(),
            json!({"t": "container", "v": leaf, "face": f0, "av": "expand", "ah": "expand", "m": [0, 0, 0, 0], "size": [0, 0]}),
            json!({"t": "flex", "dir": "h", "j": "start", "kids": [{"v": leaf, "flex": 4, "face": null, "align": "expand"}]}),
        ];
        for tree in wrapped {
            for ct in cts.iter() {
                let t = tree["t"].as_str().unwrap_or("");
                // frames, scroll bars and Option::None have no JSON form; the other routes take every tree
                let route = match k % 3 {
                    0 => "ctor",
                    1 => "ref",
                    _ => if t == "frame" { "ctor" } else { "json" },
                };
                k += 1;
                v.push(json!({"H": 9, "W": 14, "vops": [{"r": {"f": "rng", "a": 1, "b": 8}, "c": {"f": "rng", "a": 1, "b": 12}}], "ppc": [PPC_H as u64, PPC_W as u64],
                              "glyphs": k % 2 == 0, "route": route, "glyph_defs": [{"h": 1, "w": 2, "fb": [120, 121]}], "image_defs": [{"ph": 30, "pw": 25}],
                              "ct": ct, "tree": tree, "fixed": true}));
            }
        }
    }
    v
}

pub fn generate(rng: &mut Rng, n: usize, _tier: &str) -> Vec<Value> {
    let bnd = source_boundaries(&BOUNDARY_FILES, 64);
    let mut v = fixed_cases();
    let n = n + v.len();
    while v.len() < n {
        if rng.chance(1, 12) {
            let depth = 1 + rng.below(3) as usize;
            v.push(json!({"k": "fp", "tree": gen_fp_node(rng, depth)}));
            continue;
        }
        let ng = rng.below(3) as usize;
        let glyph_defs: Vec<Value> = (0..ng)
            .map(|_| {
                let k = rng.below(5) as usize;
                json!({"h": rng.below(3), "w": rng.below(4), "fb": (0..k).map(|_| *rng.pick(&[97u32, 98, 0x6F22, 120])).collect::<Vec<u32>>()})
            })
            .collect();
        let ni = rng.below(3) as usize;
        let image_defs: Vec<Value> = (0..ni).map(|_| json!({"ph": rng.below(3 * PPC_H as u64), "pw": rng.below(4 * PPC_W as u64)})).collect();
        let mut g = Gen { next_probe: 0, ng, ni, json_ok: true, inexact: rng.chance(1, 6), bnd: bnd.clone() };
        let depth = match rng.below(10) {
            0 => 0,
            1 => 1,
            _ => 2 + rng.below(3) as usize,
        };
        let tree = gen_node(rng, &mut g, depth);
        let _ = g.json_ok;
        // constraint: min <= max, including zero and one-cell extents
        let ext = |rng: &mut Rng| -> u64 {
            match rng.below(16) {
                0 => 0,
                1 | 2 => 1,
                3 => 2,
                4 => *rng.pick(&[u64::MAX, u64::MAX - 1, u64::MAX - 2, 1 << 63, (1 << 63) - 1, 1 << 32, 1_000_000]),
                5 => pick_bnd(rng, &bnd, 0, 64).unwrap_or(3),
                _ => rng.below(13),
            }
        };
        let (maxh, maxw) = (ext(rng), ext(rng));
        let min_of = |rng: &mut Rng, mx: u64| -> u64 {
            match rng.below(9) {
                0 | 1 => rng.below(mx.min(20) + 1),
                2 => mx,
                _ => 0,
            }
        };
        let (minh, minw) = (min_of(rng, maxh), min_of(rng, maxw));
        // canvas and view: room for the root plus what frames / scroll bars add, padded
        // the surface: usually smaller or larger than what the layout says; now and then without any cell
        let (mut vh, mut vw) = (1 + rng.below(12) as usize, 1 + rng.below(14) as usize);
        if rng.chance(1, 20) {
            if rng.chance(1, 2) {
                vh = 0;
            } else {
                vw = 0;
            }
        }
        let pad: Vec<usize> = (0..4).map(|_| rng.below(3) as usize).collect();
        let (mut hh, mut ww) = (pad[0] + vh + pad[2], pad[1] + vw + pad[3]);
        let mut vops = vec![];
        if rng.chance(1, 3) {
            std::mem::swap(&mut hh, &mut ww);
            vops.push(json!("t"));
        }
        vops.push(json!({"r": {"f": "rng", "a": pad[0], "b": pad[0] + vh}, "c": {"f": "rng", "a": pad[1], "b": pad[1] + vw}}));
        let ppc = if rng.chance(1, 3) { vec![1 + rng.below(40), 1 + rng.below(24)] } else { vec![PPC_H as u64, PPC_W as u64] };
        v.push(json!({"H": hh, "W": ww, "vops": vops, "ppc": ppc, "glyphs": rng.chance(1, 2), "route": *rng.pick(&["ctor", "ctor", "ref", "json"]),
                      "glyph_defs": glyph_defs, "image_defs": image_defs, "ct": [minh, minw, maxh, maxw], "tree": tree}));
    }
    v
}

pub fn batch(inputs: &[Value]) -> Batch {
    Batch {
        prop: "C10",
        coq_import: "Corr.C10Corr",
        case_type: "c10_case",
        report_fn: "c10_report",
        rule: "tree with at least three layout nodes and at least one probe leaf that was asked to paint; distinct by input",
        cases: {
            let dir = std::env::var("SNT_HARNESS_OUT").ok();
            let cases = inputs
                .iter()
                .map(|i| {
                    if let Some(d) = &dir {
                        let _ = std::fs::write(format!("{}/current_case.json", d), i.to_string());
                    }
                    run(i)
                })
                .collect();
            if let Some(d) = &dir {
                let _ = std::fs::remove_file(format!("{}/current_case.json", d));
            }
            cases
        },
        preamble: String::new(),
    }
}
