//! C18: KeyMap / KeyMapHandler histories and the Key / KeyChord / KeyName parsers and printers.
use crate::util::*;
use serde_json::{json, Value};
use std::str::FromStr;
use surf_n_term::keys::KeyMapResult;
use surf_n_term::{Key, KeyChord, KeyMap, KeyMapHandler, KeyMod, KeyName};

// ---------------------------------------------------------------- keys <-> JSON / Coq

const SIMPLE_NAMES: [(&str, KeyName); 20] = [
    ("Backspace", KeyName::Backspace),
    ("Delete", KeyName::Delete),
    ("Insert", KeyName::Insert),
    ("Down", KeyName::Down),
    ("End", KeyName::End),
    ("Enter", KeyName::Enter),
    ("Esc", KeyName::Esc),
    ("Home", KeyName::Home),
    ("Left", KeyName::Left),
    ("MouseLeft", KeyName::MouseLeft),
    ("MouseMiddle", KeyName::MouseMiddle),
    ("MouseMove", KeyName::MouseMove),
    ("MouseRight", KeyName::MouseRight),
    ("MouseWheelDown", KeyName::MouseWheelDown),
    ("MouseWheelUp", KeyName::MouseWheelUp),
    ("PageDown", KeyName::PageDown),
    ("PageUp", KeyName::PageUp),
    ("Right", KeyName::Right),
    ("Tab", KeyName::Tab),
    ("Up", KeyName::Up),
];

const MOD_BITS: [(u32, KeyMod); 9] = [
    (1, KeyMod::SHIFT),
    (2, KeyMod::ALT),
    (4, KeyMod::CTRL),
    (8, KeyMod::SUPER),
    (16, KeyMod::HYPER),
    (32, KeyMod::META),
    (64, KeyMod::CAPSLOCK),
    (128, KeyMod::NUMLOCK),
    (256, KeyMod::PRESS),
];

fn mod_bits(m: KeyMod) -> u32 {
    MOD_BITS.iter().filter(|(_, f)| m.contains(*f)).map(|(b, _)| *b).sum()
}

/// JSON form of a key: [variant, payload (decimal string), mode bits]
fn key_json(k: &Key) -> Value {
    let (n, p) = name_parts(&k.name);
    json!([n, p, mod_bits(k.mode)])
}

fn name_parts(n: &KeyName) -> (String, String) {
    match n {
        KeyName::Char(c) => ("Char".to_string(), (*c as u32).to_string()),
        KeyName::F(i) => ("F".to_string(), i.to_string()),
        other => {
            let s = SIMPLE_NAMES.iter().find(|(_, v)| v == other).map(|(s, _)| *s).unwrap_or("?");
            (s.to_string(), String::new())
        }
    }
}

fn key_of(v: &Value) -> Key {
    let variant = v[0].as_str().unwrap_or("Esc");
    let payload = v[1].as_str().unwrap_or("");
    let mode = KeyMod::from_bits(v[2].as_u64().unwrap_or(0) as u32);
    let name = match variant {
        "Char" => KeyName::Char(char::from_u32(payload.parse().unwrap_or(97)).unwrap_or('a')),
        "F" => KeyName::F(payload.parse().unwrap_or(0)),
        s => SIMPLE_NAMES.iter().find(|(n, _)| *n == s).map(|(_, v)| *v).unwrap_or(KeyName::Esc),
    };
    Key::new(name, mode)
}

fn chord_of(v: &Value) -> Vec<Key> {
    v.as_array().map(|a| a.iter().map(key_of).collect()).unwrap_or_default()
}

fn coq_name(n: &KeyName) -> String {
    match n {
        KeyName::Char(c) => format!("(KChar {})", *c as u32),
        KeyName::F(i) => format!("(KF {})", i),
        other => {
            let s = SIMPLE_NAMES.iter().find(|(_, v)| v == other).map(|(s, _)| *s).unwrap_or("?");
            format!("K{}", s)
        }
    }
}

fn coq_key(k: &Key) -> String {
    format!("(Key {} {})", coq_name(&k.name), mod_bits(k.mode))
}

fn coq_chord(c: &[Key]) -> String {
    clist(c.iter().map(coq_key))
}

fn coq_str(s: &str) -> String {
    clist(s.chars().map(|c| (c as u32).to_string()))
}

fn coq_bindings(l: &[(Vec<Key>, u64)]) -> String {
    clist(l.iter().map(|(c, v)| format!("({}, {})", coq_chord(c), v)))
}

fn coq_opt(v: Option<u64>) -> String {
    match v {
        None => "None".to_string(),
        Some(x) => format!("(Some {})", x),
    }
}

// ---------------------------------------------------------------- key map histories

fn bindings_of(m: &KeyMap<u64>) -> Vec<(Vec<Key>, u64)> {
    let mut out = vec![];
    m.for_each(|c, v| out.push((c.to_vec(), *v)));
    out
}

struct World {
    maps: [KeyMap<u64>; 2],
    states: [Vec<Key>; 2],
    handlers: [KeyMapHandler<u64>; 2],
}

fn run_map(input: &Value) -> Case {
    let literal = input["kind"] == "map_literal";
    let ops = input["ops"].as_array().cloned().unwrap_or_default();
    let ops2 = ops.clone();
    // every operation of the history runs under one catch: a panic anywhere ends the observation list with BPanic
    let result = catch(move || {
        let mut w = World {
            maps: [KeyMap::new(), KeyMap::new()],
            states: [vec![], vec![]],
            handlers: [KeyMapHandler::new(), KeyMapHandler::new()],
        };
        let mut coq_ops: Vec<String> = vec![];
        let mut coq_obs: Vec<String> = vec![];
        let mut jobs: Vec<Value> = vec![];
        let mut tags: Vec<String> = vec![];
        let mut known_class = false;
        for op in ops2.iter() {
            let kind = op["op"].as_str().unwrap_or("");
            let m = (op["m"].as_u64().unwrap_or(0) % 2) as usize;
            match kind {
                "reg" => {
                    let c = chord_of(&op["c"]);
                    let v = op["v"].as_u64().unwrap_or(0);
                    let old = w.maps[m].register(&c, v);
                    w.handlers[m].register(&c, v);
                    coq_ops.push(format!("ORegister {} {} {}", m, coq_chord(&c), v));
                    let (o, j) = match old {
                        None => ("OldNone".to_string(), json!("none")),
                        Some(Ok(v)) => (format!("(OldVal {})", v), json!({ "val": v })),
                        Some(Err(sub)) => {
                            let b = bindings_of(&sub);
                            (format!("(OldMap {})", coq_bindings(&b)), json!({"map": b.len()}))
                        }
                    };
                    coq_obs.push(format!("BOld {}", o));
                    jobs.push(j);
                    tags.push(format!("reg.len={}", c.len()));
                }
                "lookup" => {
                    let c = chord_of(&op["c"]);
                    let r = w.maps[m].lookup(&c);
                    coq_ops.push(format!("OLookup {} {}", m, coq_chord(&c)));
                    let (o, j) = match r {
                        KeyMapResult::Success(v) => (format!("(Success {})", v), json!({ "success": v })),
                        KeyMapResult::Failure => ("Failure".to_string(), json!("failure")),
                        KeyMapResult::Continue => ("Continue".to_string(), json!("continue")),
                    };
                    tags.push(format!("lookup={}", if j.is_object() { "success" } else { j.as_str().unwrap_or("") }));
                    coq_obs.push(format!("BRes {}", o));
                    jobs.push(j);
                }
                "each" => {
                    let b = bindings_of(&w.maps[m]);
                    coq_ops.push(format!("OForEach {}", m));
                    coq_obs.push(format!("BList {}", coq_bindings(&b)));
                    jobs.push(json!({"each": b.iter().map(|(c, v)| json!([c.iter().map(key_json).collect::<Vec<_>>(), v])).collect::<Vec<_>>()}));
                    tags.push("each".to_string());
                }
                "override" => {
                    let d = (op["d"].as_u64().unwrap_or(0) % 2) as usize;
                    let s = (op["s"].as_u64().unwrap_or(1) % 2) as usize;
                    let other = w.maps[s].clone();
                    w.maps[d].register_override(&other);
                    // KeyMapHandler has no override: replay the other map's bindings on it
                    let mut b = vec![];
                    other.for_each(|c, v| b.push((c.to_vec(), *v)));
                    for (c, v) in b {
                        w.handlers[d].register(&c, v);
                    }
                    coq_ops.push(format!("OOverride {} {}", d, s));
                    coq_obs.push("BUnit".to_string());
                    jobs.push(json!("unit"));
                    tags.push("override".to_string());
                }
                "handle" => {
                    let k = key_of(&op["k"]);
                    let World { maps, states, handlers } = &mut w;
                    // where this call falls with respect to the clauses of the property
                    {
                        let res_name = |r: KeyMapResult<&u64>| match r {
                            KeyMapResult::Success(_) => "success",
                            KeyMapResult::Continue => "continue",
                            KeyMapResult::Failure => "failure",
                        };
                        let mut extended = states[m].clone();
                        extended.push(k);
                        let first = res_name(maps[m].lookup(&extended));
                        tags.push(format!("handle.first_pass={}", first));
                        if first == "failure" {
                            tags.push(format!("handle.second_pass={}", res_name(maps[m].lookup(&[k]))));
                        }
                        let mut begins = false;
                        let mut inside = false;
                        maps[m].for_each(|c, _| {
                            begins |= c.first() == Some(&k);
                            inside |= c.iter().skip(1).any(|x| *x == k);
                        });
                        if !begins {
                            tags.push(format!("handle.unbound_key.{}", if inside { "inside_a_chord" } else { "in_no_chord" }));
                            if first == "continue" {
                                // the unbound key continues the pending chord: the class of the known finding
                                tags.push("handle.unbound_key.continues_pending".to_string());
                                known_class = true;
                            }
                        }
                    }
                    let fired = maps[m].lookup_state(&mut states[m], k).copied();
                    let hfired = handlers[m].handle(k).copied();
                    coq_ops.push(format!("OHandle {} {}", m, coq_key(&k)));
                    coq_obs.push(format!("BHandle {} {} {}", coq_opt(fired), coq_chord(&states[m]), coq_opt(hfired)));
                    jobs.push(json!({"fired": fired, "state": states[m].iter().map(key_json).collect::<Vec<_>>(), "handler": hfired}));
                    tags.push(format!("handle={}", if fired.is_some() { "fired" } else { "none" }));
                }
                _ => {
                    w.maps[m].clear();
                    w.states[m].clear();
                    w.handlers[m].clear();
                    coq_ops.push(format!("OClear {}", m));
                    coq_obs.push("BUnit".to_string());
                    jobs.push(json!("unit"));
                    tags.push("clear".to_string());
                }
            }
        }
        (coq_ops, coq_obs, jobs, tags, known_class)
    });
    let mut j = input.clone();
    match result {
        Some((coq_ops, coq_obs, jobs, mut tags, known_class)) => {
            j["impl"] = Value::Array(jobs);
            let _ = known_class;
            if literal {
                // judged by the literal wording of clause B: every such case may fall in the class of the known
                // finding; whether it does is decided in Coq on the dictionary side (first component of the check)
                j["known_class"] = json!(["unbound-key-continues-pending-chord"]);
            }
            let nontrivial = tags.iter().filter(|t| t.starts_with("reg.")).count() >= 2
                && tags.iter().any(|t| t.starts_with("lookup") || t.starts_with("handle") || t == "each");
            tags.sort();
            tags.dedup();
            tags.push(if literal { "kind=map_literal".to_string() } else { "kind=map".to_string() });
            Case {
                coq: format!("{} {} {}", if literal { "CMapLiteral" } else { "CMap" }, clist(coq_ops), clist(coq_obs)),
                json: j,
                tags,
                nontrivial: nontrivial && !literal,
            }
        }
        None => {
            j["impl"] = json!("panic");
            // re-print the operations so that the case is still well-formed; the observation list is [BPanic]
            Case {
                coq: "CMap [] [BPanic]".to_string(),
                json: j,
                tags: vec!["kind=map".to_string(), "panic".to_string()],
                nontrivial: true,
            }
        }
    }
}

// ---------------------------------------------------------------- parsers / printers

/// (string, to_lowercase(string)) for every string the parsers can ask about while parsing `s`
fn oracle_pairs(s: &str, out: &mut Vec<(String, String)>) {
    let mut push = |a: &str| {
        let l = a.to_lowercase();
        let ll = l.to_lowercase();
        if !out.iter().any(|(x, _)| x == a) {
            out.push((a.to_string(), l.clone()));
        }
        if !out.iter().any(|(x, _)| *x == l) {
            out.push((l, ll));
        }
    };
    push(s);
    for tok in s.split(' ') {
        push(tok);
        for a in tok.split('+') {
            push(a);
        }
    }
    for a in s.split('+') {
        push(a);
    }
}

enum PVal {
    Name(KeyName),
    Key(Key),
    Chord(Vec<Key>),
}

fn coq_pval(v: &PVal) -> String {
    match v {
        PVal::Name(n) => format!("(VName {})", coq_name(n)),
        PVal::Key(k) => format!("(VKey {})", coq_key(k)),
        PVal::Chord(c) => format!("(VChord {})", coq_chord(c)),
    }
}

fn pval_json(v: &PVal) -> Value {
    match v {
        PVal::Name(n) => {
            let (a, b) = name_parts(n);
            json!([a, b])
        }
        PVal::Key(k) => key_json(k),
        PVal::Chord(c) => Value::Array(c.iter().map(key_json).collect()),
    }
}

fn parse_as(what: &str, s: &str) -> Option<Result<PVal, ()>> {
    let s = s.to_string();
    match what {
        "name" => catch(move || KeyName::from_str(&s).map(PVal::Name).map_err(|_| ())),
        "key" => catch(move || Key::from_str(&s).map(PVal::Key).map_err(|_| ())),
        _ => catch(move || KeyChord::from_str(&s).map(|c| PVal::Chord(c.keys().to_vec())).map_err(|_| ())),
    }
}

/// Display of a value, as an observation: None = it panicked
fn print_pval(v: &PVal) -> Option<String> {
    match v {
        PVal::Name(n) => {
            let n = *n;
            catch(move || n.to_string())
        }
        PVal::Key(k) => {
            let k = *k;
            catch(move || k.to_string())
        }
        PVal::Chord(c) => {
            let c = c.clone();
            catch(move || KeyChord::new(c).to_string())
        }
    }
}

fn coq_pout(r: &Option<Result<PVal, ()>>) -> (String, Value) {
    match r {
        None => ("PPanic".to_string(), json!("panic")),
        Some(Err(())) => ("PErr".to_string(), json!("err")),
        Some(Ok(v)) => (format!("(POk {})", coq_pval(v)), json!({ "ok": pval_json(v) })),
    }
}

fn coq_kind(what: &str) -> &'static str {
    match what {
        "name" => "PName",
        "key" => "PKey",
        _ => "PChord",
    }
}

fn run_parse(input: &Value) -> Case {
    let what = input["what"].as_str().unwrap_or("key").to_string();
    let s = input["s"].as_str().unwrap_or("").to_string();
    let parsed = parse_as(&what, &s);
    let mut pairs = vec![];
    oracle_pairs(&s, &mut pairs);
    let (printed, reparsed) = match &parsed {
        Some(Ok(v)) => match print_pval(v) {
            Some(p) => {
                oracle_pairs(&p, &mut pairs);
                let r = parse_as(&what, &p);
                (p, r)
            }
            // Display panicked: an observation (empty text whose re-parse "panicked")
            None => (String::new(), None),
        },
        _ => (String::new(), Some(Err(()))),
    };
    let (pc, pj) = coq_pout(&parsed);
    let (rc, rj) = coq_pout(&reparsed);
    let tbl = clist(pairs.iter().map(|(a, b)| format!("({}, {})", coq_str(a), coq_str(b))));
    let mut j = input.clone();
    j["impl"] = json!({"parsed": pj, "printed": printed, "reparsed": rj});
    let res = match &parsed {
        None => "panic",
        Some(Err(())) => "err",
        Some(Ok(_)) => "ok",
    };
    Case {
        coq: format!("CParse {} {} {} {} {} {}", coq_kind(&what), coq_str(&s), tbl, pc, coq_str(&printed), rc),
        json: j,
        tags: vec!["kind=parse".to_string(), format!("parse.{}={}", what, res)],
        nontrivial: s.chars().count() >= 2,
    }
}

fn run_print(input: &Value) -> Case {
    let what = input["what"].as_str().unwrap_or("key").to_string();
    let keys = chord_of(&input["keys"]);
    let v = match what.as_str() {
        "name" => PVal::Name(keys.first().map(|k| k.name).unwrap_or(KeyName::Esc)),
        "key" => PVal::Key(keys.first().copied().unwrap_or(Key::new(KeyName::Esc, KeyMod::EMPTY))),
        _ => PVal::Chord(keys.clone()),
    };
    let printed = print_pval(&v);
    let p = printed.clone().unwrap_or_default();
    let mut pairs = vec![];
    oracle_pairs(&p, &mut pairs);
    // a panic of Display shows as an empty text whose re-parse "panicked"
    let reparsed = if printed.is_some() { parse_as(&what, &p) } else { None };
    let (rc, rj) = coq_pout(&reparsed);
    let tbl = clist(pairs.iter().map(|(a, b)| format!("({}, {})", coq_str(a), coq_str(b))));
    let mut j = input.clone();
    j["impl"] = json!({"printed": p, "reparsed": rj});
    let roundtrip = match (&reparsed, &v) {
        (Some(Ok(PVal::Name(a))), PVal::Name(b)) => a == b,
        (Some(Ok(PVal::Key(a))), PVal::Key(b)) => a == b,
        (Some(Ok(PVal::Chord(a))), PVal::Chord(b)) => a == b,
        _ => false,
    };
    Case {
        coq: format!("CPrint {} {} {} {}", coq_pval(&v), coq_str(&p), tbl, rc),
        json: j,
        tags: vec![
            "kind=print".to_string(),
            format!("print.reparse_same={}", roundtrip),
            format!("print.display={}", if printed.is_some() { "ok" } else { "panic" }),
        ],
        nontrivial: roundtrip,
    }
}

pub fn run(input: &Value) -> Case {
    match input["kind"].as_str().unwrap_or("") {
        "map" | "map_literal" => run_map(input),
        "parse" => run_parse(input),
        _ => run_print(input),
    }
}

// ---------------------------------------------------------------- generators

/// the small alphabet of the histories: neighbours under the derived Ord in all three components
/// (variant, payload, mode), so that BTreeMap order is exercised
fn alphabet() -> Vec<Value> {
    vec![
        json!(["Char", "97", 0]),
        json!(["Char", "98", 0]),
        json!(["Char", "97", 4]),
        json!(["F", "1", 0]),
        json!(["F", "10", 0]),
        json!(["Up", "", 0]),
        json!(["Backspace", "", 2]),
    ]
}

/// a key drawn from all 22 KeyName variants (payloads and modes near each other), so that the derived
/// Ord of Key (variant index, payload, mode) is exercised on every variant through BTreeMap order
fn any_alphabet_key(rng: &mut Rng) -> Value {
    let mode = *rng.pick(&[0u64, 0, 0, 1, 2, 4, 6, 256, 511]);
    match rng.below(6) {
        0 => json!(["Char", rng.pick(&[32u32, 97, 98, 122, 48, 0xe9, 0x1f600]).to_string(), mode]),
        1 => json!(["F", rng.pick(&[0u64, 1, 2, 10, 35, u64::MAX]).to_string(), mode]),
        _ => json!([rng.pick(&SIMPLE_NAMES).0, "", mode]),
    }
}

/// seven distinct keys
fn random_alphabet(rng: &mut Rng) -> Vec<Value> {
    let mut v: Vec<Value> = vec![];
    while v.len() < 7 {
        let k = any_alphabet_key(rng);
        if !v.contains(&k) {
            v.push(k);
        }
    }
    v
}

fn gen_chord(rng: &mut Rng, alpha: &[Value], pool: &[Vec<Value>]) -> Vec<Value> {
    let fresh = |rng: &mut Rng| -> Vec<Value> {
        let len = 1 + rng.below(4) as usize;
        (0..len).map(|_| rng.pick(alpha).clone()).collect()
    };
    if pool.is_empty() || rng.chance(1, 4) {
        return fresh(rng);
    }
    let base = rng.pick(pool).clone();
    match rng.below(5) {
        0 => base,
        1 => {
            // proper prefix
            let n = 1 + rng.below(base.len() as u64) as usize;
            base[..n.min(base.len())].to_vec()
        }
        2 => {
            // extension
            let mut c = base;
            let extra = 1 + rng.below(2) as usize;
            for _ in 0..extra {
                c.push(rng.pick(alpha).clone());
            }
            c
        }
        3 => {
            // sibling: same prefix, different last key
            let mut c = base;
            c.pop();
            c.push(rng.pick(alpha).clone());
            c
        }
        _ => {
            // diverge in the middle
            let mut c = base;
            let i = rng.below(c.len() as u64) as usize;
            c[i] = rng.pick(alpha).clone();
            c
        }
    }
}

/// Chord lengths around the integer constants of keys.rs as it is NOW (a length counter or a depth bound kept in
/// a narrow integer shows at its limit), together with the limits of the narrow integer types themselves.
fn chord_length_bounds() -> Vec<usize> {
    let mut b: Vec<usize> = source_boundaries(&["src/keys.rs"], 1100).into_iter().map(|v| v as usize).filter(|&v| v >= 7).collect();
    for v in [127usize, 128, 129, 255, 256, 257] {
        b.push(v);
    }
    b.sort_unstable();
    b.dedup();
    b
}

/// A history around ONE long chord of `len` keys: it is registered (with a sibling that differs in the last key and
/// a short chord), looked up whole, at proper prefixes (short and as long as the chord allows) and one key too
/// far, listed, typed key by key (when `typed`), superseded by a prefix, re-registered, carried over by override.
fn long_chord_program(rng: &mut Rng, len: usize, typed: bool) -> Value {
    let alpha = alphabet();
    let chord: Vec<Value> = (0..len).map(|_| rng.pick(&alpha).clone()).collect();
    let mut sibling = chord.clone();
    let last = sibling.pop().unwrap_or(json!(["Char", "97", 0]));
    sibling.push(alpha.iter().find(|k| **k != last).cloned().unwrap_or(json!(["Char", "120", 0])));
    let mut longer = chord.clone();
    longer.push(rng.pick(&alpha).clone());
    let mut ops: Vec<Value> = vec![];
    ops.push(json!({"op": "reg", "m": 0, "c": [alpha[0].clone(), alpha[1].clone()], "v": 1}));
    ops.push(json!({"op": "reg", "m": 0, "c": chord, "v": 2}));
    ops.push(json!({"op": "reg", "m": 0, "c": sibling, "v": 3}));
    ops.push(json!({"op": "each", "m": 0}));
    let mut cuts: Vec<usize> = vec![1, 2, len / 2, len.saturating_sub(2), len.saturating_sub(1)];
    cuts.retain(|&c| c >= 1 && c < len);
    cuts.dedup();
    for who in [&chord, &sibling, &longer] {
        ops.push(json!({"op": "lookup", "m": 0, "c": who}));
    }
    for c in cuts.iter() {
        ops.push(json!({"op": "lookup", "m": 0, "c": chord[..*c].to_vec()}));
    }
    if typed {
        for k in chord.iter() {
            ops.push(json!({"op": "handle", "m": 0, "k": k}));
        }
    }
    // carried over to the other map, looked up there
    ops.push(json!({"op": "override", "d": 1, "s": 0}));
    ops.push(json!({"op": "lookup", "m": 1, "c": chord}));
    ops.push(json!({"op": "lookup", "m": 1, "c": chord[..len - 1].to_vec()}));
    // superseded by a proper prefix, then registered again
    ops.push(json!({"op": "reg", "m": 0, "c": chord[..len - 1].to_vec(), "v": 4}));
    ops.push(json!({"op": "lookup", "m": 0, "c": chord}));
    ops.push(json!({"op": "lookup", "m": 0, "c": sibling}));
    ops.push(json!({"op": "reg", "m": 0, "c": chord, "v": 5}));
    ops.push(json!({"op": "lookup", "m": 0, "c": chord}));
    ops.push(json!({"op": "lookup", "m": 0, "c": chord[..len - 1].to_vec()}));
    ops.push(json!({"op": "clear", "m": 0}));
    ops.push(json!({"op": "lookup", "m": 0, "c": chord}));
    ops.push(json!({"op": "each", "m": 1}));
    json!({"kind": "map", "ops": ops})
}

fn gen_map(rng: &mut Rng) -> Value {
    let mut alpha = if rng.chance(1, 2) { alphabet() } else { random_alphabet(rng) };
    // a key that occurs inside chords but never first: it begins no bound chord
    let inner = alpha.pop().unwrap_or(json!(["Char", "121", 0]));
    // sometimes a smaller alphabet: more collisions
    if rng.chance(1, 3) {
        alpha.truncate(3);
    }
    let unbound = json!(["Char", "122", 1]); // never registered at all: begins no bound chord
    let with_inner = |rng: &mut Rng, mut c: Vec<Value>| -> Vec<Value> {
        for i in 1..c.len() {
            if rng.chance(1, 5) {
                c[i] = inner.clone();
            }
        }
        c
    };
    let mut pool: Vec<Vec<Value>> = vec![];
    let mut ops: Vec<Value> = vec![];
    let mut counter = 0u64;
    let nops = 4 + rng.below(28) as usize;
    while ops.len() < nops {
        let m = if rng.chance(3, 4) { 0 } else { 1 };
        match rng.below(100) {
            0..=37 => {
                let c = if rng.chance(1, 40) { vec![] } else { let c = gen_chord(rng, &alpha, &pool); with_inner(rng, c) };
                counter += 1;
                if !c.is_empty() {
                    pool.push(c.clone());
                }
                ops.push(json!({"op": "reg", "m": m, "c": c, "v": counter}));
            }
            38..=59 => {
                let c = if rng.chance(1, 30) { vec![] } else { gen_chord(rng, &alpha, &pool) };
                ops.push(json!({"op": "lookup", "m": m, "c": c}));
            }
            60..=66 => ops.push(json!({"op": "each", "m": m})),
            67..=71 => {
                let d = rng.below(2);
                ops.push(json!({"op": "override", "d": d, "s": 1 - d}));
                ops.push(json!({"op": "each", "m": d}));
            }
            72..=84 => {
                // type a whole chord from the pool, sometimes after an unbound key or a stray key
                match rng.below(8) {
                    0 | 1 => ops.push(json!({"op": "handle", "m": m, "k": unbound.clone()})),
                    2 => ops.push(json!({"op": "handle", "m": m, "k": inner.clone()})),
                    3 => {
                        // part of a chord that has the inner key, up to and including it, then another chord:
                        // the unbound key arrives while a chord is pending
                        if let Some(c) = pool.iter().find(|c| c.contains(&inner)) {
                            let upto = c.iter().position(|k| *k == inner).unwrap_or(0);
                            for k in c[..=upto].iter() {
                                ops.push(json!({"op": "handle", "m": m, "k": k}));
                            }
                        }
                    }
                    4 => ops.push(json!({"op": "handle", "m": m, "k": rng.pick(&alpha).clone()})),
                    _ => {}
                }
                let c = gen_chord(rng, &alpha, &pool);
                let c = with_inner(rng, c);
                for k in c {
                    ops.push(json!({"op": "handle", "m": m, "k": k}));
                }
            }
            85..=96 => {
                let k = match rng.below(6) {
                    0 => unbound.clone(),
                    1 => inner.clone(),
                    _ => rng.pick(&alpha).clone(),
                };
                ops.push(json!({"op": "handle", "m": m, "k": k}));
            }
            _ => ops.push(json!({"op": "clear", "m": m})),
        }
    }
    // always end with the enumeration and a lookup of every pool chord on map 0
    ops.push(json!({"op": "each", "m": 0}));
    for c in pool.iter().take(6) {
        ops.push(json!({"op": "lookup", "m": 0, "c": c}));
    }
    json!({"kind": "map", "ops": ops})
}

const NAME_LITS: [&str; 22] = [
    "left", "up", "right", "down", "pageup", "pagedown", "end", "home", "tab", "enter", "escape", "esc", "space",
    "backspace", "delete", "insert", "mouseleft", "mousemiddle", "mousemove", "mouseright", "mousewheeldown", "mousewheelup",
];
const MOD_LITS: [&str; 10] = ["alt", "ctrl", "shift", "press", "super", "hyper", "meta", "capslock", "numlock", "none"];
const PLAIN: &str = "abcfxyz0189`-=[]\\;,./";
const ODD: [&str; 24] = [
    "+", "\"", "'", " ", "\t", "\n", "A", "F", "Z", "\u{e9}", "\u{c9}", "\u{3a3}", "\u{3c3}", "\u{130}", "\u{212a}", "\u{fb00}",
    "\u{ff26}", "\u{17f}", "\u{1f600}", "_", "~", "f", "\u{a0}", "\u{0}",
];

fn random_case(rng: &mut Rng, s: &str) -> String {
    match rng.below(4) {
        0 => s.to_uppercase(),
        1 => s.chars().map(|c| if rng.chance(1, 2) { c.to_ascii_uppercase() } else { c }).collect(),
        _ => s.to_string(),
    }
}

/// a character from blocks where to_lowercase does something (or nothing), or any scalar value
fn random_unicode(rng: &mut Rng) -> char {
    let (lo, hi) = *rng.pick(&[
        (0xC0u32, 0xFFu32),   // Latin-1 letters
        (0x100, 0x17F),       // Latin Extended-A (incl. U+0130, U+017F)
        (0x1C4, 0x1CC),       // titlecase digraphs
        (0x370, 0x3FF),       // Greek (final sigma context)
        (0x400, 0x4FF),       // Cyrillic
        (0x531, 0x587),       // Armenian
        (0x10A0, 0x10FF),     // Georgian
        (0x13A0, 0x13FF),     // Cherokee
        (0x1E00, 0x1EFF),     // Latin Extended Additional (U+1E9E)
        (0x2100, 0x214F),     // Letterlike (Kelvin, Angstrom, Ohm)
        (0x2160, 0x2188),     // Roman numerals
        (0x24B6, 0x24E9),     // circled letters
        (0xFB00, 0xFB06),     // ligatures ff fi fl
        (0xFF21, 0xFF5A),     // fullwidth letters
        (0x10400, 0x1044F),   // Deseret
        (0x0, 0x10FFFF),
    ]);
    for _ in 0..8 {
        if let Some(c) = char::from_u32(lo + rng.below((hi - lo + 1) as u64) as u32) {
            return c;
        }
    }
    'x'
}

fn gen_fkey(rng: &mut Rng) -> String {
    let body = match rng.below(10) {
        0 => "18446744073709551615".to_string(),
        1 => "18446744073709551616".to_string(),
        2 => "99999999999999999999999".to_string(),
        3 => format!("{}{}", "0".repeat(rng.below(30) as usize), rng.below(100)),
        4 => (0..(18 + rng.below(5))).map(|_| char::from(b'0' + rng.below(10) as u8)).collect(),
        5 => String::new(),
        6 => format!("{}x", rng.below(100)),
        7 => format!("{}{}", random_unicode(rng), rng.below(10)),
        _ => rng.below(40).to_string(),
    };
    let f = match rng.below(8) {
        0 => "F",
        1 => "\u{ff26}",
        _ => "f",
    };
    if rng.chance(1, 12) {
        return format!("{}{}", random_unicode(rng), body);
    }
    format!("{}{}", f, body)
}

fn gen_name_str(rng: &mut Rng) -> String {
    match rng.below(10) {
        0..=2 => {
            let lit: &str = *rng.pick(&NAME_LITS[..]);
            random_case(rng, lit)
        }
        3..=4 => gen_fkey(rng),
        5..=6 => {
            let cs: Vec<char> = PLAIN.chars().collect();
            rng.pick(&cs).to_string()
        }
        7 => if rng.chance(1, 2) { rng.pick(&ODD).to_string() } else { random_unicode(rng).to_string() },
        8 => {
            // near miss of a literal
            let mut s: Vec<char> = rng.pick(&NAME_LITS).chars().collect();
            let i = rng.below(s.len() as u64) as usize;
            match rng.below(3) {
                0 => {
                    s.remove(i);
                }
                1 => s.insert(i, 'e'),
                _ => s[i] = 'q',
            }
            s.into_iter().collect()
        }
        _ => {
            let n = rng.below(4) as usize;
            (0..n).map(|_| if rng.chance(1, 2) { rng.pick(&ODD).to_string() } else { "a".to_string() }).collect()
        }
    }
}

fn gen_key_str(rng: &mut Rng) -> String {
    let mut parts: Vec<String> = vec![];
    let nm = match rng.below(6) {
        0 => 0,
        1..=3 => 1 + rng.below(2),
        _ => rng.below(6),
    };
    for _ in 0..nm {
        let lit: &str = *rng.pick(&MOD_LITS[..]);
        parts.push(random_case(rng, lit));
    }
    match rng.below(12) {
        0 => {}                                // no name at all
        1 => {
            parts.push(gen_name_str(rng));     // two names
            parts.push(gen_name_str(rng));
        }
        2 => {
            parts.push(gen_name_str(rng));     // name, then garbage, then a modifier
            parts.push("??".to_string());
            parts.push("shift".to_string());
        }
        3 => {
            let i = rng.below(parts.len() as u64 + 1) as usize; // name in the middle
            parts.insert(i, gen_name_str(rng));
        }
        4 => {
            parts.push(String::new());         // empty piece ("ctrl++a")
            parts.push(gen_name_str(rng));
        }
        _ => parts.push(gen_name_str(rng)),
    }
    parts.join("+")
}

fn gen_chord_str(rng: &mut Rng) -> String {
    let n = match rng.below(8) {
        0 => 0,
        _ => 1 + rng.below(4),
    };
    let mut s = String::new();
    if rng.chance(1, 6) {
        s.push(' ');
    }
    for i in 0..n {
        if i > 0 {
            s.push(' ');
            if rng.chance(1, 6) {
                s.push(' ');
            }
        }
        s.push_str(&gen_key_str(rng));
    }
    if rng.chance(1, 6) {
        s.push(' ');
    }
    if rng.chance(1, 20) {
        s.push('\t');
    }
    s
}

fn gen_garbage(rng: &mut Rng) -> String {
    let n = rng.below(12) as usize;
    (0..n)
        .map(|_| match rng.below(6) {
            0 => "+".to_string(),
            1 => " ".to_string(),
            2 => if rng.chance(1, 2) { rng.pick(&ODD).to_string() } else { random_unicode(rng).to_string() },
            3 => char::from(b'0' + rng.below(10) as u8).to_string(),
            4 => "f".to_string(),
            _ => char::from(b'a' + rng.below(26) as u8).to_string(),
        })
        .collect()
}

fn gen_any_key(rng: &mut Rng) -> Value {
    let mode = match rng.below(4) {
        0 => 0,
        1 => *rng.pick(&[1u64, 2, 4, 8, 16, 32, 64, 128, 256]),
        _ => rng.below(512),
    };
    match rng.below(5) {
        0 => {
            let c = *rng.pick(&[32u32, 9, 10, 34, 43, 65, 97, 122, 48, 57, 96, 47, 92, 0xe9, 0x3a3, 0x1f600, 0x7f, 123, 58, 64]);
            json!(["Char", c.to_string(), mode])
        }
        1 => json!(["Char", (97 + rng.below(26)).to_string(), mode]),
        2 => {
            let i = match rng.below(4) {
                0 => u64::MAX,
                1 => rng.next(),
                _ => rng.below(40),
            };
            json!(["F", i.to_string(), mode])
        }
        _ => json!([rng.pick(&SIMPLE_NAMES).0, "", mode]),
    }
}

/// The parsers' vocabulary as the source has it NOW: the string literals of the match arms of
/// `impl FromStr for KeyName` and `impl FromStr for Key` in $VERIF_REPO/src/keys.rs (default /repo).
/// (translate/c18keys.py reads the same arms for the Coq side and fails loudly on a shape it does not
/// understand; here a file that cannot be read just means no extra cases.)
fn source_vocabulary() -> (Vec<String>, Vec<String>) {
    let repo = std::env::var("VERIF_REPO").unwrap_or_else(|_| "/repo".to_string());
    let src = std::fs::read_to_string(format!("{}/src/keys.rs", repo)).unwrap_or_default();
    let arms = |header: &str| -> Vec<String> {
        let mut out = vec![];
        if let Some(i) = src.find(header) {
            let body = &src[i..];
            // up to the end of the impl block: the next line that is exactly "}"
            let end = body.find("\n}\n").unwrap_or(body.len());
            for line in body[..end].lines() {
                let t = line.trim();
                if let Some(rest) = t.strip_prefix('"') {
                    if let Some(q) = rest.find('"') {
                        if rest[q + 1..].trim_start().starts_with("=>") {
                            out.push(rest[..q].to_string());
                        }
                    }
                }
            }
        }
        out
    };
    (arms("impl FromStr for KeyName"), arms("impl FromStr for Key {"))
}

fn capitalized(s: &str) -> String {
    let mut c = s.chars();
    match c.next() {
        Some(f) => f.to_uppercase().collect::<String>() + c.as_str(),
        None => String::new(),
    }
}

pub fn generate(rng: &mut Rng, n: usize, tier: &str) -> Vec<Value> {
    let _ = tier;
    let mut v = vec![];
    // the vocabulary of the source as it is now: every name literal in the case variants the parser folds,
    // alone, with modifiers, and inside chords; every modifier literal likewise.  Judged by
    // parse(print(parse s)) = parse s on the real crate.
    let (names, mods) = source_vocabulary();
    for lit in names.iter() {
        for spelled in [lit.clone(), lit.to_uppercase(), capitalized(lit)] {
            v.push(json!({"kind": "parse", "what": "name", "s": spelled}));
            v.push(json!({"kind": "parse", "what": "key", "s": spelled}));
            v.push(json!({"kind": "parse", "what": "key", "s": format!("ctrl+{}", spelled)}));
            v.push(json!({"kind": "parse", "what": "key", "s": format!("Alt+shift+{}", spelled)}));
            v.push(json!({"kind": "parse", "what": "chord", "s": format!("ctrl+x {}", spelled)}));
            v.push(json!({"kind": "parse", "what": "chord", "s": format!("{} alt+{}", spelled, spelled)}));
        }
    }
    for m in mods.iter() {
        for spelled in [m.clone(), m.to_uppercase(), capitalized(m)] {
            v.push(json!({"kind": "parse", "what": "key", "s": format!("{}+a", spelled)}));
            v.push(json!({"kind": "parse", "what": "chord", "s": format!("{}+f1 {}+ctrl+up", spelled, spelled)}));
            for lit in names.iter().take(3) {
                v.push(json!({"kind": "parse", "what": "key", "s": format!("{}+{}", spelled, lit)}));
            }
        }
    }
    // fixed part: every literal name and modifier through every parser, every plain character
    for lit in NAME_LITS.iter() {
        for what in ["name", "key", "chord"] {
            v.push(json!({"kind": "parse", "what": what, "s": lit}));
        }
        v.push(json!({"kind": "parse", "what": "key", "s": format!("Ctrl+{}", lit.to_uppercase())}));
    }
    for m in MOD_LITS.iter() {
        v.push(json!({"kind": "parse", "what": "key", "s": format!("{}+a", m)}));
        v.push(json!({"kind": "parse", "what": "key", "s": m}));
    }
    for c in (32u8..127).map(char::from) {
        v.push(json!({"kind": "parse", "what": "name", "s": c.to_string()}));
        v.push(json!({"kind": "parse", "what": "chord", "s": format!("alt+{} {}", c, c)}));
    }
    for s in ["f0", "f1", "f12", "F35", "f007", "f18446744073709551615", "f", "ff", "f1f", "ctrl+x f", "ctrl+x a b", "", " ", "+", "a+", "+a"] {
        for what in ["name", "key", "chord"] {
            v.push(json!({"kind": "parse", "what": what, "s": s}));
        }
    }
    // every simple name, every single modifier bit: printing
    for (nm, _) in SIMPLE_NAMES.iter() {
        v.push(json!({"kind": "print", "what": "key", "keys": [[nm, "", 0]]}));
    }
    for bit in 0..9 {
        v.push(json!({"kind": "print", "what": "key", "keys": [["Char", "97", 1u64 << bit]]}));
    }
    // every subset of the nine modifier bits through Display (and FromStr of that), on a plain key and an F key
    for mode in 0..512u64 {
        v.push(json!({"kind": "print", "what": "key", "keys": [["Char", "97", mode]]}));
        if mode % 8 == 5 {
            v.push(json!({"kind": "print", "what": "chord", "keys": [["F", "12", mode], ["Up", "", 511 - mode]]}));
        }
    }
    // one long chord per boundary length (typed in key by key up to 300 keys: the state is part of every answer)
    let bounds = chord_length_bounds();
    for &len in bounds.iter() {
        v.push(long_chord_program(rng, len, len <= 300 && len % 2 == 0));
    }
    let fixed = v.len();
    while v.len() < fixed + n {
        match rng.below(20) {
            0..=11 => {
                let m = if rng.chance(1, 150) {
                    let len = *rng.pick(&bounds);
                    let len = (len + rng.below(3) as usize).saturating_sub(1).max(2);
                    long_chord_program(rng, len, len <= 140)
                } else {
                    gen_map(rng)
                };
                if rng.chance(1, 6) {
                    let mut twin = m.clone();
                    twin["kind"] = json!("map_literal");
                    v.push(m);
                    v.push(twin);
                } else {
                    v.push(m);
                }
            }
            12..=13 => v.push(json!({"kind": "parse", "what": "name", "s": gen_name_str(rng)})),
            14..=15 => v.push(json!({"kind": "parse", "what": "key", "s": gen_key_str(rng)})),
            16 => v.push(json!({"kind": "parse", "what": "chord", "s": gen_chord_str(rng)})),
            17 => {
                let what = *rng.pick(&["name", "key", "chord"]);
                v.push(json!({"kind": "parse", "what": what, "s": gen_garbage(rng)}));
            }
            _ => {
                let what = *rng.pick(&["name", "key", "chord"]);
                let k = 1 + rng.below(3) as usize;
                let keys: Vec<Value> = (0..k).map(|_| gen_any_key(rng)).collect();
                v.push(json!({"kind": "print", "what": what, "keys": keys}));
            }
        }
    }
    v
}

pub fn batch(inputs: &[Value]) -> Batch {
    Batch {
        prop: "C18",
        coq_import: "Corr.C18Corr",
        case_type: "c18_case",
        report_fn: "c18_report",
        rule: "key-map history with at least two registrations and at least one lookup / enumeration / matcher step, or a parser input of at least two characters; distinct by input",
        cases: {
            // the in-flight input is on disk before anything runs (an abort still yields a replay); a panic in
            // any harness-side use of the crate becomes a failing case instead of killing the run
            let dir = std::env::var("SNT_HARNESS_OUT").ok();
            let cases = inputs
                .iter()
                .map(|input| {
                    if let Some(d) = &dir {
                        let _ = std::fs::write(format!("{}/current_case.json", d), input.to_string());
                    }
                    match std::panic::catch_unwind(std::panic::AssertUnwindSafe(|| run(input))) {
                        Ok(case) => case,
                        Err(_) => {
                            let mut j = input.clone();
                            j["impl"] = json!("panic in a crate call outside the observed ones");
                            Case {
                                coq: "CPrint (VName KEsc) [] [] PPanic".to_string(),
                                json: j,
                                tags: vec!["harness.guard=panic".to_string()],
                                nontrivial: true,
                            }
                        }
                    }
                })
                .collect();
            if let Some(d) = &dir {
                let _ = std::fs::remove_file(format!("{}/current_case.json", d));
            }
            cases
        },
        preamble: String::new(),
    }
}
