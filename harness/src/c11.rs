//! C11: histories of draw / erase / handle calls on one KittyImageHandler; the bytes written by
//! every call are handed to Coq, where the model reproduces them and the protocol-side predicate
//! (independent parser + terminal store) is evaluated on them.
use crate::util::*;
use serde_json::{json, Value};
use surf_n_term::image::{DummyImageHandler, ImageHandlerKind};
use surf_n_term::{
    Image, ImageHandler, KittyImageHandler, Position, Size, Surface, SurfaceOwned, TerminalEvent, RGBA,
};

type Px = [u8; 4];

/// root pixel matrix of an image description (row-major, h x w), a pure function of the description
fn root_pixels(d: &Value) -> (usize, usize, Vec<Px>) {
    let h = d["h"].as_u64().unwrap_or(0) as usize;
    let w = d["w"].as_u64().unwrap_or(0) as usize;
    if let Some(a) = d["pix"].as_array() {
        let flat: Vec<u8> = a.iter().map(|x| x.as_u64().unwrap_or(0) as u8).collect();
        let px: Vec<Px> = (0..h * w)
            .map(|i| {
                let g = |k: usize| *flat.get(4 * i + k).unwrap_or(&0);
                [g(0), g(1), g(2), g(3)]
            })
            .collect();
        return (h, w, px);
    }
    let seed = d["seed"].as_u64().unwrap_or(0);
    let style = d["style"].as_u64().unwrap_or(0);
    let mut rng = Rng::new(seed ^ 0xC11);
    let px = (0..h * w)
        .map(|i| match style {
            0 => [rng.byte(), rng.byte(), rng.byte(), rng.byte()],
            1 => [255, 255, 255, 255],
            2 => [0, 0, 0, 0],
            3 => [(i / w.max(1)) as u8, (i % w.max(1)) as u8, (seed % 251) as u8, 255],
            4 => {
                // bytes that exercise every base64 sextet boundary
                let b = (i as u64 * 0x9E37 + seed) as u8;
                [b, b.wrapping_add(0x3f), b.wrapping_mul(3), 0xfc]
            }
            _ => [rng.byte() & 3, 27, 92, 59], // ESC, backslash, ';' as raw pixel bytes
        })
        .collect();
    (h, w, px)
}

/// the image as the crate builds it, and (independently, by the harness' own index arithmetic) the
/// window of the root matrix it is supposed to show: (width, height, row-major pixels)
fn build(d: &Value) -> (Image, Expected) {
    let (h, w, px) = root_pixels(d);
    // from_vec demands a backing vector strictly longer than h*w: used for the "slack" variant only
    let root = if d["slack"].as_bool().unwrap_or(false) {
        let mut data: Vec<RGBA> = px.iter().map(|p| RGBA::new(p[0], p[1], p[2], p[3])).collect();
        data.push(RGBA::new(9, 8, 7, 6));
        SurfaceOwned::from_vec(Size::new(h, w), data)
    } else {
        SurfaceOwned::new_with(Size::new(h, w), |pos| {
            let p = px[pos.row * w + pos.col];
            RGBA::new(p[0], p[1], p[2], p[3])
        })
    };
    let transposed = d["t"].as_bool().unwrap_or(false);
    // expected matrix
    let (mut eh, mut ew) = (h, w);
    let mut m: Vec<Vec<Px>> = (0..h).map(|r| (0..w).map(|c| px[r * w + c]).collect()).collect();
    if transposed {
        let mt: Vec<Vec<Px>> = (0..w).map(|c| (0..h).map(|r| m[r][c]).collect()).collect();
        m = mt;
        eh = w;
        ew = h;
    }
    let img = if transposed { Image::new(root.transpose()) } else { Image::from(root) };
    let flat: Vec<Px> = m.into_iter().flatten().collect();
    apply_crop(img, (ew, eh, flat), &d["crop"])
}

type Expected = (usize, usize, Vec<Px>); // width, height, row-major pixels

/// `Image::crop` on the crate's side; on the expected side the Python-style slice of a non-negative range
/// (clamp to the axis, empty if start >= end), by the harness' own index arithmetic
fn apply_crop(img: Image, exp: Expected, crop: &Value) -> (Image, Expected) {
    let c = match crop.as_array() {
        Some(c) => c,
        None => return (img, exp),
    };
    let (ew, eh, flat) = exp;
    let g = |k: usize| c.get(k).and_then(|x| x.as_u64()).unwrap_or(0) as usize;
    let (r0, r1, c0, c1) = (g(0), g(1), g(2), g(3));
    let img = img.crop(r0..r1, c0..c1);
    let (r0c, r1c, c0c, c1c) = (r0.min(eh), r1.min(eh), c0.min(ew), c1.min(ew));
    if r0c < r1c && c0c < c1c {
        let out: Vec<Px> = (r0c..r1c).flat_map(|r| flat[r * ew + c0c..r * ew + c1c].to_vec()).collect();
        (img, (c1c - c0c, r1c - r0c, out))
    } else {
        (img, (0, 0, vec![]))
    }
}

/// an image of the case: either built on its own (`build`) or, with `"of": k`, a clone of the k-th image of
/// the case, cropped when `"crop"` is given: a different view of the SAME pixel buffer (what `Image::crop`
/// and `Clone` hand out shares the `Arc` of the data and whatever else the image carries)
fn build_in(d: &Value, prior: &[(Image, Expected)]) -> (Image, Expected) {
    match d["of"].as_u64() {
        Some(k) if (k as usize) < prior.len() => {
            let (img, exp) = prior[k as usize].clone();
            apply_crop(img, exp, &d["crop"])
        }
        _ => build(d),
    }
}

fn build_all(descs: &[Value]) -> Vec<(Image, Expected)> {
    let mut built: Vec<(Image, Expected)> = vec![];
    for d in descs {
        let b = build_in(d, &built);
        built.push(b);
    }
    built
}

/// an image with the given content in a buffer of its own (never handed to the handler under test)
fn standalone(exp: &Expected) -> Image {
    let (w, h, px) = (exp.0, exp.1, &exp.2);
    Image::from(SurfaceOwned::new_with(Size::new(h, w), |pos| {
        let p = px[pos.row * w + pos.col];
        RGBA::new(p[0], p[1], p[2], p[3])
    }))
}

fn graphics_num(bytes: &[u8], key: &str) -> Option<u64> {
    let s = String::from_utf8_lossy(bytes).to_string();
    let body = s.strip_prefix("\x1b_G")?;
    let body = body.split(|c| c == ';' || c == '\x1b').next()?;
    for kv in body.split(',') {
        if let Some(v) = kv.strip_prefix(&format!("{}=", key)) {
            return v.parse().ok();
        }
    }
    None
}

/// id / placement id as this build of the crate derives them, read from the bytes of `erase` on a scratch handler
fn ids_of(img: &Image, pos: Option<Position>) -> (u64, Option<u64>) {
    let mut h = KittyImageHandler::new();
    let mut out = Vec::new();
    let _ = h.erase(&mut out, img, pos);
    (graphics_num(&out, "i").unwrap_or(0), graphics_num(&out, "p"))
}

fn vpos(v: &Value) -> Option<(usize, usize)> {
    let a = v.as_array()?;
    Some((a.first()?.as_u64()? as usize, a.get(1)?.as_u64()? as usize))
}
fn cpos(p: (usize, usize)) -> String {
    format!("({}, {})", p.0, p.1)
}

fn kind_code(k: ImageHandlerKind) -> u8 {
    match k {
        ImageHandlerKind::Kitty => 0,
        ImageHandlerKind::Sixel => 1,
        ImageHandlerKind::Dummy => 2,
    }
}

/// the small cases around the handler interface: ImageHandlerKind::from_str and ImageHandler::kind
fn run_small(input: &Value) -> Option<Case> {
    if let Some(s) = input["kind_str"].as_str() {
        let s2 = s.to_string();
        let r = catch(move || s2.parse::<ImageHandlerKind>().ok().map(kind_code));
        let mut j = input.clone();
        j["impl"] = json!(r);
        let coq = match r {
            Some(v) => format!("CaseKind {} {}", cbytes(s.as_bytes()), copt(v.map(|x| x.to_string()))),
            None => format!("CaseKind {} (Some 99)", cbytes(s.as_bytes())), // a panic: never a valid answer
        };
        return Some(Case { coq, json: j, tags: vec!["kind-from-str".into()], nontrivial: false });
    }
    if let Some(d) = input["kind_of"].as_str() {
        let dummy = d.starts_with("dummy");
        let boxed = d.ends_with("boxed");
        let k = match (dummy, boxed) {
            (false, false) => KittyImageHandler::new().kind(),
            (false, true) => (Box::new(KittyImageHandler::new()) as Box<dyn ImageHandler>).kind(),
            (true, false) => DummyImageHandler.kind(),
            (true, true) => (Box::new(DummyImageHandler) as Box<dyn ImageHandler>).kind(),
        };
        let mut j = input.clone();
        j["impl"] = json!(kind_code(k));
        return Some(Case {
            coq: format!("CaseKindOf {} {}", cbool(dummy), kind_code(k)),
            json: j,
            tags: vec!["kind-of-handler".into()],
            nontrivial: false,
        });
    }
    None
}

/// a sink that takes `left` bytes in all and then fails every write
struct LimitWriter {
    buf: Vec<u8>,
    left: Option<usize>,
}

impl std::io::Write for LimitWriter {
    fn write(&mut self, data: &[u8]) -> std::io::Result<usize> {
        match self.left {
            None => {
                self.buf.extend_from_slice(data);
                Ok(data.len())
            }
            Some(0) => Err(std::io::Error::other("sink is full")),
            Some(left) => {
                let n = left.min(data.len());
                self.buf.extend_from_slice(&data[..n]);
                self.left = Some(left - n);
                Ok(n)
            }
        }
    }
    fn flush(&mut self) -> std::io::Result<()> {
        Ok(())
    }
}

fn coq_images(built: &[(Image, Expected)], cids: &[usize]) -> String {
    clist(built.iter().zip(cids).map(|((img, _), cid)| {
        let sh = img.shape();
        let data = clist(img.data().iter().map(|c| {
            let [r, g, b, a] = surf_n_term::Color::to_rgba(*c);
            format!("({},{},{},{})", r, g, b, a)
        }));
        format!(
            "(mkImage {} (mkShape {} {} {} {} {} {}), {}, {}%nat)",
            data, sh.start, sh.end, sh.width, sh.height, sh.row_stride, sh.col_stride, Surface::hash(img), cid
        )
    }))
}

fn content_table(built: &[(Image, Expected)]) -> (Vec<Expected>, Vec<usize>) {
    let mut contents: Vec<Expected> = vec![];
    let mut cids = vec![];
    for (_, c) in built {
        let k = match contents.iter().position(|x| x == c) {
            Some(k) => k,
            None => {
                contents.push(c.clone());
                contents.len() - 1
            }
        };
        cids.push(k);
    }
    (contents, cids)
}

/// histories of draw / erase calls in which some draws write into a sink that gives out after `budget` bytes
/// (`"failing": true`): what was written, what was returned, and the handler goes on being used
fn run_failing(input: &Value) -> Case {
    let quiet = input["quiet"].as_bool().unwrap_or(false);
    let descs: Vec<Value> = input["images"].as_array().cloned().unwrap_or_default();
    let built = build_all(&descs);
    let (contents, cids) = content_table(&built);
    let ops: Vec<Value> = input["ops"].as_array().cloned().unwrap_or_default();
    let mut handler = if quiet { KittyImageHandler::new().quiet() } else { KittyImageHandler::new() };
    let mut coq_ops = vec![];
    let mut impl_out: Vec<(Vec<u8>, u8)> = vec![];
    let (mut n_fail, mut n_draw_after_fail) = (0, 0);
    let mut stopped = false;
    for o in &ops {
        if built.is_empty() {
            break;
        }
        let k = o["img"].as_u64().unwrap_or(0) as usize % built.len();
        let img = built[k].0.clone();
        let (coq, res) = match o["op"].as_str().unwrap_or("") {
            "draw" => {
                let p = vpos(&o["pos"]).unwrap_or((0, 0));
                let budget = o["budget"].as_u64();
                let r = if stopped {
                    None
                } else {
                    let hd = std::panic::AssertUnwindSafe(&mut handler);
                    catch(move || {
                        let hd = hd;
                        let mut out = LimitWriter { buf: vec![], left: budget.map(|b| b as usize) };
                        let r = hd.0.draw(&mut out, &img, Position::new(p.0, p.1));
                        (out.buf, if r.is_ok() { 0u8 } else { 2u8 })
                    })
                };
                if let Some((_, 2)) = r {
                    n_fail += 1;
                } else if n_fail > 0 {
                    n_draw_after_fail += 1;
                }
                (format!("FDraw {}%nat {} {}", k, cpos(p), copt(budget.map(|b| b.to_string()))), r)
            }
            "erase" => {
                let p = vpos(&o["pos"]);
                let r = if stopped {
                    None
                } else {
                    let hd = std::panic::AssertUnwindSafe(&mut handler);
                    catch(move || {
                        let hd = hd;
                        let mut out = Vec::new();
                        let r = hd.0.erase(&mut out, &img, p.map(|p| Position::new(p.0, p.1)));
                        (out, if r.is_ok() { 0u8 } else { 2u8 })
                    })
                };
                (format!("FErase {}%nat {}", k, copt(p.map(cpos))), r)
            }
            _ => continue,
        };
        coq_ops.push(coq);
        match res {
            Some(r) => impl_out.push(r),
            None => {
                stopped = true;
                impl_out.push((vec![], 9));
            }
        }
    }
    let contents_coq = clist(contents.iter().map(|(w, h, px)| {
        format!("(mkContent {} {} {})", w, h, cbytes(&px.iter().flatten().copied().collect::<Vec<u8>>()))
    }));
    let impl_coq = clist(impl_out.iter().map(|(b, r)| format!("({}, {})", cbytes(b), r)));
    let mut j = input.clone();
    j["impl"] = Value::Array(impl_out.iter().map(|(b, r)| json!({"bytes": String::from_utf8_lossy(b), "ret": r})).collect());
    Case {
        coq: format!("CaseFail {} {} {} {} {}", cbool(quiet), coq_images(&built, &cids), contents_coq, clist(coq_ops.into_iter()), impl_coq),
        json: j,
        tags: vec![
            format!("failing-sink=failed-draws:{}", match n_fail { 0 => "0", 1 => "1", _ => "2+" }),
            format!("failing-sink=draw-after-failure:{}", n_draw_after_fail > 0),
        ],
        nontrivial: n_fail > 0 && n_draw_after_fail > 0,
    }
}

pub fn run(input: &Value) -> Case {
    if let Some(c) = run_small(input) {
        return c;
    }
    if input["failing"].as_bool().unwrap_or(false) {
        return run_failing(input);
    }
    let quiet = input["quiet"].as_bool().unwrap_or(false);
    let descs: Vec<Value> = input["images"].as_array().cloned().unwrap_or_default();
    let built: Vec<(Image, Expected)> = build_all(&descs);
    // content table: distinct (w, h, pixels)
    let mut contents: Vec<(usize, usize, Vec<Px>)> = vec![];
    let mut cids = vec![];
    for (_, c) in &built {
        let k = match contents.iter().position(|x| x == c) {
            Some(k) => k,
            None => {
                contents.push(c.clone());
                contents.len() - 1
            }
        };
        cids.push(k);
    }
    let ops: Vec<Value> = input["ops"].as_array().cloned().unwrap_or_default();
    // "via": "direct" (default) | "box" (Box<dyn ImageHandler>, the forwarding impl) | "dummy" (DummyImageHandler)
    let via = input["via"].as_str().unwrap_or("direct").to_string();
    let kitty = if quiet { KittyImageHandler::new().quiet() } else { KittyImageHandler::new() };
    let mut handler: Box<dyn ImageHandler> = match via.as_str() {
        "dummy" => Box::new(DummyImageHandler),
        "box" => Box::new(Box::new(kitty) as Box<dyn ImageHandler>),
        _ => Box::new(kitty),
    };
    let mut coq_ops = vec![];
    let mut impl_out: Vec<(Vec<u8>, u8)> = vec![];
    let mut tags = vec![];
    let mut stopped = false;
    let (mut n_draw, mut n_erase, mut n_err, mut n_tx_chunks) = (0, 0, 0, 0usize);
    let mut drawn: Vec<(usize, (usize, usize))> = vec![];
    // positions named per content (draw, erase, placement of a response), for the known class below
    let mut named: Vec<(usize, (usize, usize))> = vec![];
    // the id the handler under test has used for a content so far, read from the i= key of the bytes it wrote
    // for a draw / erase of that content (ids are allocated by the handler: a response "from the terminal"
    // must name the id that was actually sent)
    let mut assigned: std::collections::HashMap<usize, u64> = std::collections::HashMap::new();
    let mut repeat_draw = false;
    for o in &ops {
        let kind = o["op"].as_str().unwrap_or("other");
        let k = o["img"].as_u64().unwrap_or(0) as usize;
        let k = if built.is_empty() { 0 } else { k % built.len() };
        let (coq, res): (String, Option<(Vec<u8>, u8)>) = match kind {
            "draw" if !built.is_empty() => {
                let p = vpos(&o["pos"]).unwrap_or((0, 0));
                n_draw += 1;
                if drawn.iter().any(|(c, q)| *c == cids[k] && *q != p) {
                    repeat_draw = true;
                }
                drawn.push((cids[k], p));
                named.push((cids[k], p));
                let r = if stopped {
                    None
                } else {
                    let hd = std::panic::AssertUnwindSafe(&mut handler);
                    let img = built[k].0.clone();
                    catch(move || {
                        let mut hd = hd;
                        let mut out = Vec::new();
                        let r = hd.draw(&mut out, &img, Position::new(p.0, p.1));
                        (out, if r.is_ok() { 0u8 } else { 2u8 })
                    })
                };
                (format!("CDraw {}%nat {}", k, cpos(p)), r)
            }
            "erase" if !built.is_empty() => {
                let p = vpos(&o["pos"]);
                n_erase += 1;
                if let Some(p) = p {
                    named.push((cids[k], p));
                }
                let r = if stopped {
                    None
                } else {
                    let hd = std::panic::AssertUnwindSafe(&mut handler);
                    let img = built[k].0.clone();
                    catch(move || {
                        let mut hd = hd;
                        let mut out = Vec::new();
                        let r = hd.erase(&mut out, &img, p.map(|p| Position::new(p.0, p.1)));
                        (out, if r.is_ok() { 0u8 } else { 2u8 })
                    })
                };
                (format!("CErase {}%nat {}", k, copt(p.map(cpos))), r)
            }
            "resp" => {
                let id = if o["img"].is_null() || built.is_empty() {
                    o["id"].as_u64().unwrap_or(0)
                } else {
                    assigned.get(&cids[k]).copied().unwrap_or_else(|| ids_of(&standalone(&built[k].1), None).0)
                };
                let pl: Option<u64> = if let Some(p) = vpos(&o["pl"]["pos"]) {
                    if !built.is_empty() {
                        named.push((cids[k], p));
                        // the id reported for p is read back as a position: the last position is read back as
                        // its neighbour (2^32 positions, 2^32 - 1 ids), so a response for it names both
                        let idx = ((p.0 % 65536) as u64 + (p.1 % 65536) as u64 * 65536).min(4294967294);
                        named.push((cids[k], ((idx % 65536) as usize, (idx / 65536) as usize)));
                    }
                    if built.is_empty() {
                        None
                    } else {
                        ids_of(&standalone(&built[k].1), Some(Position::new(p.0, p.1))).1
                    }
                } else {
                    o["pl"]["raw"].as_u64()
                };
                if let (Some(p), false, true) = (o["pl"]["raw"].as_u64(), built.is_empty(), o["pl"]["pos"].is_null()) {
                    // a raw placement id names the position it stands for in the protocol-level numbering
                    // (id - 1 = row + col * 65536), by the harness' own arithmetic
                    let idx = p.saturating_sub(1);
                    named.push((cids[k], ((idx % 65536) as usize, (idx / 65536) as usize)));
                    if p == 4294967295 {
                        named.push((cids[k], (65534, 65535)));
                    }
                }
                let err = o["err"].as_bool().unwrap_or(false);
                if err {
                    n_err += 1;
                }
                const MSGS: [&str; 6] = [
                    "ENOENT:Put command refers to non-existent image",
                    "EINVAL:Zero width/height not allowed",
                    "ENOSPC:storage quota exceeded",
                    "EBADF:bad image data",
                    "E",
                    "OK ",
                ];
                let msg = if err { MSGS[o["msg"].as_u64().unwrap_or(0) as usize % MSGS.len()] } else { "OK" };
                let built_ev = TerminalEvent::KittyImage {
                    id,
                    placement: pl,
                    error: if err { Some(msg.to_string()) } else { None },
                };
                // "wire": the response is written as the terminal would send it and read by the crate's own
                // decoder; what comes out of the decoder is what the handler sees (and what the case records)
                let mut ev = built_ev;
                if o["wire"].as_bool().unwrap_or(false) {
                    use surf_n_term::decoder::{Decoder, TTYEventDecoder};
                    let mut text = format!("\x1b_Gi={}", id);
                    if let Some(p) = pl {
                        text.push_str(&format!(",p={}", p));
                    }
                    text.push_str(&format!(";{}\x1b\\", msg));
                    let decoded = catch(move || {
                        let mut dec = TTYEventDecoder::new();
                        let mut out = vec![];
                        let _ = dec.decode_into(std::io::Cursor::new(text.into_bytes()), &mut out);
                        out
                    });
                    if let Some(mut evs) = decoded {
                        if evs.len() == 1 && matches!(evs[0], TerminalEvent::KittyImage { .. }) {
                            ev = evs.remove(0);
                            tags.push("resp-via-decoder".into());
                        }
                    }
                }
                let (id, pl, err) = match &ev {
                    TerminalEvent::KittyImage { id, placement, error } => (*id, *placement, error.is_some()),
                    _ => (id, pl, err),
                };
                let r = if stopped {
                    None
                } else {
                    let hd = std::panic::AssertUnwindSafe(&mut handler);
                    catch(move || {
                        let mut hd = hd;
                        let mut out = Vec::new();
                        let r = hd.handle(&mut out, &ev);
                        (out, match r { Ok(false) => 0u8, Ok(true) => 1u8, Err(_) => 2u8 })
                    })
                };
                // is the error genuine (the terminal side is taken to have lost the image) or spurious?
                let lost = o["lost"].as_bool().unwrap_or(true);
                (format!("CResp {} {} {} {}", id, copt(pl.map(|p| p.to_string())), cbool(err), cbool(lost)), r)
            }
            _ => {
                let ev = if o["which"].as_u64().unwrap_or(0) % 2 == 0 {
                    TerminalEvent::Wake
                } else {
                    TerminalEvent::Raw(vec![27, 95, 71])
                };
                let r = if stopped {
                    None
                } else {
                    let hd = std::panic::AssertUnwindSafe(&mut handler);
                    catch(move || {
                        let mut hd = hd;
                        let mut out = Vec::new();
                        let r = hd.handle(&mut out, &ev);
                        (out, match r { Ok(false) => 0u8, Ok(true) => 1u8, Err(_) => 2u8 })
                    })
                };
                ("COther".to_string(), r)
            }
        };
        coq_ops.push(coq);
        match res {
            Some(x) => {
                n_tx_chunks = n_tx_chunks.max(String::from_utf8_lossy(&x.0).matches("\x1b_G").count());
                if kind == "draw" || kind == "erase" {
                    if let (Some(id), false) = (graphics_num(&x.0, "i"), built.is_empty()) {
                        assigned.insert(cids[k], id);
                    }
                }
                impl_out.push(x)
            }
            None => stopped = true, // a panic ends the history: later calls are not made
        }
    }
    // Coq terms
    let imgs_coq = clist(built.iter().zip(&cids).map(|((img, _), cid)| {
        let sh = img.shape();
        let data = clist(img.data().iter().map(|c| {
            let [r, g, b, a] = surf_n_term::Color::to_rgba(*c);
            format!("({},{},{},{})", r, g, b, a)
        }));
        format!(
            "(mkImage {} (mkShape {} {} {} {} {} {}), {}, {}%nat)",
            data,
            sh.start,
            sh.end,
            sh.width,
            sh.height,
            sh.row_stride,
            sh.col_stride,
            Surface::hash(img),
            cid
        )
    }));
    let contents_coq = clist(contents.iter().map(|(w, h, px)| {
        format!("(mkContent {} {} {})", w, h, cbytes(&px.iter().flatten().copied().collect::<Vec<u8>>()))
    }));
    let impl_coq = clist(impl_out.iter().map(|(b, r)| format!("({}, {})", cbytes(b), r)));
    let mut j = input.clone();
    j["impl"] = Value::Array(
        impl_out.iter().map(|(b, r)| json!({"bytes": String::from_utf8_lossy(b), "ret": r})).collect(),
    );
    // Known finding "pid-corner": there are 2^32 positions with coordinates below 65536 but only
    // 2^32 - 1 valid placement ids, so one pair of positions has to share an id (Coq: C11_pid_pigeonhole);
    // with the present numbering it is (65534,65535) and (65535,65535).  Histories naming both for one
    // content are in the class.  The tag is computed from the INPUT alone (positions of the calls, reduced
    // modulo 65536 by the harness' own arithmetic; placement ids of responses), never from bytes the
    // implementation wrote.
    let norm = |p: &(usize, usize)| (p.0 % 65536, p.1 % 65536);
    let corner = named.iter().any(|(c, p)| {
        norm(p) == (65534, 65535) && named.iter().any(|(c2, q)| c2 == c && norm(q) == (65535, 65535))
    });
    if corner {
        j["known_class"] = json!(["pid-corner"]);
        tags.push("known:pid-corner".into());
    }
    let maxpix = contents.iter().map(|c| c.2.len()).max().unwrap_or(0);
    tags.push(format!("ops={}", match ops.len() { 0 => "0", 1 => "1", 2..=5 => "2-5", 6..=12 => "6-12", _ => "13+" }));
    tags.push(format!("maxpixels={}", match maxpix { 0 => "0", 1 => "1", 2..=99 => "2-99", 100..=767 => "100-767", 768..=769 => "768-769", _ => "770+" }));
    tags.push(format!("chunks={}", match n_tx_chunks { 0..=2 => "<=1", 3 => "2", _ => "3+" }));
    if contents.iter().any(|c| c.0 == 0 || c.1 == 0) {
        tags.push("empty-image".into());
    }
    if built.iter().any(|(i, _)| i.shape().row_stride != i.shape().width || i.shape().col_stride != 1) {
        tags.push("strided-view".into());
    }
    if n_err > 0 {
        tags.push("error-response".into());
    }
    if repeat_draw {
        tags.push("same-content-several-positions".into());
    }
    if stopped {
        tags.push("panic".into());
    }
    // two different non-empty contents of the case start from the same derived image id (input only: the id a
    // fresh handler gives each of them)
    {
        let mut firsts: Vec<(usize, u64)> = vec![];
        for (i, (_, c)) in built.iter().enumerate() {
            if c.0 > 0 && c.1 > 0 && !firsts.iter().any(|(k, _)| *k == cids[i]) {
                firsts.push((cids[i], ids_of(&standalone(c), None).0));
            }
        }
        if firsts.iter().any(|(k, d)| firsts.iter().any(|(k2, d2)| k != k2 && d == d2)) {
            tags.push("derived-id-collision".into());
        }
    }
    if descs.iter().any(|d| d["of"].is_u64()) {
        let distinct = descs.iter().enumerate().any(|(i, d)| {
            d["of"].as_u64().map_or(false, |k| (k as usize) < i && cids[k as usize] != cids[i])
        });
        tags.push(format!("views-of-one-buffer={}", if distinct { "different-content" } else { "same-content" }));
    }
    tags.push(format!("via={}", via));
    Case {
        coq: if via == "dummy" {
            format!("CaseDummy {} {} {}", imgs_coq, clist(coq_ops.into_iter()), impl_coq)
        } else {
            format!(
                "Case {} {} {} {} {}",
                cbool(quiet),
                imgs_coq,
                contents_coq,
                clist(coq_ops.into_iter()),
                impl_coq
            )
        },
        json: j,
        tags,
        nontrivial: via != "dummy" && n_draw >= 1 && (n_erase >= 1 || n_err >= 1 || repeat_draw) && maxpix >= 1,
    }
}

// ---------------------------------------------------------------- generators

fn img_desc(rng: &mut Rng, big: u8) -> Value {
    // big: 0 = small, 1 = around the one / two / three chunk boundaries, 2 = also up to six chunks (thorough tier)
    let (h, w) = if big == 2 {
        *rng.pick(&[(32usize, 24usize), (24, 32), (769, 1), (1, 769), (32, 32), (48, 32), (64, 64), (40, 40), (33, 24)])
    } else if big == 1 {
        *rng.pick(&[(32usize, 24usize), (24, 32), (769, 1), (1, 769), (32, 32), (33, 24), (40, 40)])
    } else {
        match rng.below(21) {
            // source-boundary stream: a pixel count (and a payload length, 4 bytes per pixel) at a constant written in
            // src/image.rs or src/encoder.rs or next to it; at most ~1000 pixels so that Coq reads the case in a second or two
            20 if !boundaries(4100).is_empty() => {
                // v read as a number of pixels, of raw bytes (4 per pixel) or of base64 characters (16 per 3 pixels)
                let v = *rng.pick(boundaries(4100)) as usize;
                let px = match rng.below(3) {
                    0 if v <= 800 => v,
                    1 => v / 4,
                    _ => v * 3 / 16,
                };
                if rng.chance(1, 2) { (1, px) } else { (px, 1) }
            }
            0 => (rng.below(2) as usize * 3, rng.below(2) as usize * 3),
            1 | 2 => (1, 1),
            3 | 4 => (1, 1 + rng.below(6) as usize),
            5 | 6 => (1 + rng.below(6) as usize, 1),
            _ => (1 + rng.below(9) as usize, 1 + rng.below(9) as usize),
        }
    };
    let mut d = json!({"h": h, "w": w, "seed": rng.below(1 << 20), "style": rng.below(6)});
    if rng.chance(1, 4) {
        d["t"] = json!(true);
    }
    if rng.chance(1, 6) {
        d["slack"] = json!(true);
    }
    if rng.chance(1, 3) {
        let (eh, ew) = if d["t"].as_bool().unwrap_or(false) { (w, h) } else { (h, w) };
        if rng.chance(1, 8) || eh == 0 || ew == 0 {
            // possibly empty or out-of-range window
            let r0 = rng.below(eh as u64 + 1) as usize;
            let r1 = r0 + rng.below((eh - r0) as u64 + 2) as usize;
            let c0 = rng.below(ew as u64 + 1) as usize;
            let c1 = c0 + rng.below((ew - c0) as u64 + 2) as usize;
            d["crop"] = json!([r0, r1, c0, c1]);
        } else {
            let r0 = rng.below(eh as u64) as usize;
            let r1 = r0 + 1 + rng.below((eh - r0) as u64 + 1) as usize; // may exceed the axis by one (clamped)
            let c0 = rng.below(ew as u64) as usize;
            let c1 = c0 + 1 + rng.below((ew - c0) as u64 + 1) as usize;
            d["crop"] = json!([r0, r1, c0, c1]);
        }
    }
    d
}

/// total number of bytes a first draw of the image writes, and how many of them are the transmission
fn draw_lengths(d: &Value) -> (usize, usize) {
    let (img, _) = build(d);
    let mut h = KittyImageHandler::new();
    let mut first = Vec::new();
    let _ = h.draw(&mut first, &img, Position::new(0, 0));
    let mut second = Vec::new();
    let _ = h.draw(&mut second, &img, Position::new(0, 0));
    (first.len(), first.len().saturating_sub(second.len()))
}

/// a draw into a sink that gives out (at a place aimed at the command boundaries), then the same content again
/// with a working sink, mixed with draws of another image and erases
fn failing_history(rng: &mut Rng, d: Value, budget: Option<u64>) -> Value {
    let (total, tx) = draw_lengths(&d);
    let b = budget.unwrap_or_else(|| {
        let c = [0, 1, 20, tx / 2, tx.saturating_sub(1), tx, tx + 1, (tx + total) / 2, total.saturating_sub(1), total, total + 3,
                 4096, 4097, 4130, 4140];
        match rng.below(4) {
            0 => rng.below(total as u64 + 2),
            _ => *rng.pick(&c) as u64,
        }
    });
    let other = json!({"h": 1 + rng.below(3), "w": 1 + rng.below(3), "seed": rng.below(1000), "style": 0});
    let mut ops = vec![];
    if rng.chance(1, 3) {
        ops.push(json!({"op":"draw","img":1,"pos":[1,1]}));
    }
    ops.push(json!({"op":"draw","img":0,"pos":[2,3],"budget":b}));
    if rng.chance(1, 3) {
        ops.push(json!({"op":"erase","img":0,"pos":[2,3]}));
    }
    if rng.chance(1, 3) {
        ops.push(json!({"op":"draw","img":1,"pos":[4,4],"budget":rng.below(60)}));
    }
    ops.push(json!({"op":"draw","img":0,"pos":[2,3]}));
    if rng.chance(1, 2) {
        ops.push(json!({"op":"draw","img":0,"pos":[5,6],"budget":rng.below(total as u64 + 2)}));
        ops.push(json!({"op":"draw","img":0,"pos":[5,6]}));
    }
    ops.push(json!({"op":"erase","img":0,"pos":[2,3]}));
    json!({"failing": true, "quiet": rng.chance(1, 2), "images": [d, other], "ops": ops})
}

/// Two different contents whose hash-derived image ids coincide (Surface::hash equal modulo the size
/// of the id space): the id a fresh handler gives each of them is the same.  The pair found in review
/// round 1 is tried first and re-verified against this build of the crate; when it no longer collides
/// (or when `search` is set) a birthday search over random 2x2 images finds one (about 80 000 images).
fn colliding_pair(rng: &mut Rng, search: bool) -> Option<(Value, Value)> {
    let derived = |d: &Value| {
        let (img, _) = build(d);
        (ids_of(&img, None).0, img.hash())
    };
    let a = json!({"h":1,"w":1,"pix":[1,238,32,255]});
    let b = json!({"h":1,"w":1,"pix":[20,45,240,128]});
    let (da, db) = (derived(&a), derived(&b));
    if !search && da.0 == db.0 && da.1 != db.1 {
        return Some((a, b));
    }
    let mut seen: std::collections::HashMap<u64, Vec<u8>> = std::collections::HashMap::new();
    for _ in 0..3_000_000u32 {
        let pix: Vec<u8> = (0..16).map(|_| rng.byte()).collect();
        let d = json!({"h":2,"w":2,"pix":pix.clone()});
        let (id, _) = derived(&d);
        if let Some(other) = seen.insert(id, pix.clone()) {
            if other != pix {
                return Some((json!({"h":2,"w":2,"pix":other}), d));
            }
        }
    }
    None
}

/// histories in which the id table of the handler and its set of transmitted images differ while a
/// content with the same derived id arrives: erase before any draw, error response without placement
fn collision_histories(a: &Value, b: &Value) -> Vec<Value> {
    let imgs = json!([a, b]);
    let mut v = vec![];
    let mut add = |quiet: bool, ops: Value| v.push(json!({"quiet": quiet, "images": imgs.clone(), "ops": ops}));
    add(false, json!([{"op":"erase","img":0,"pos":[2,3]},{"op":"draw","img":1,"pos":[0,0]},{"op":"draw","img":0,"pos":[2,3]},
        {"op":"draw","img":1,"pos":[7,1]},{"op":"draw","img":0,"pos":[9,4]},{"op":"erase","img":0,"pos":[2,3]},{"op":"erase","img":1,"pos":[0,0]}]));
    add(true, json!([{"op":"draw","img":0,"pos":[1,1]},{"op":"resp","img":0,"pl":Value::Null,"err":true,"lost":true},
        {"op":"draw","img":1,"pos":[4,4]},{"op":"draw","img":0,"pos":[5,5]},{"op":"erase","img":1,"pos":[4,4]},{"op":"erase","img":0,"pos":Value::Null}]));
    add(false, json!([{"op":"draw","img":0,"pos":[1,1]},{"op":"resp","img":0,"pl":Value::Null,"err":true,"lost":false,"wire":true},
        {"op":"draw","img":1,"pos":[4,4]},{"op":"draw","img":0,"pos":[1,1]},{"op":"erase","img":0,"pos":[1,1]}]));
    add(true, json!([{"op":"erase","img":0,"pos":Value::Null},{"op":"erase","img":1,"pos":Value::Null},{"op":"draw","img":1,"pos":[3,3]},
        {"op":"draw","img":0,"pos":[3,3]},{"op":"erase","img":1,"pos":[3,3]}]));
    add(false, json!([{"op":"draw","img":0,"pos":[6,6]},{"op":"draw","img":1,"pos":[6,7]},{"op":"resp","img":1,"pl":{"pos":[6,7]},"err":true,"lost":true},
        {"op":"resp","img":0,"pl":Value::Null,"err":true,"lost":true},{"op":"resp","img":1,"pl":Value::Null,"err":true,"lost":true},
        {"op":"draw","img":0,"pos":[6,6]},{"op":"draw","img":1,"pos":[6,7]},{"op":"erase","img":0,"pos":[6,6]}]));
    v
}

/// constants written in the anchored source files and their neighbours, harvested at run time
fn boundaries(cap: u64) -> &'static [u64] {
    static ALL: std::sync::OnceLock<Vec<u64>> = std::sync::OnceLock::new();
    let all = ALL.get_or_init(|| source_boundaries(&["src/image.rs", "src/encoder.rs"], u64::MAX));
    let n = all.partition_point(|v| *v <= cap);
    &all[..n]
}

/// a view of image `j` of the case (whose content is eh x ew): a clone, a full-range crop, a proper window, a tile
fn view_desc(rng: &mut Rng, j: usize, eh: usize, ew: usize) -> Value {
    if eh == 0 || ew == 0 || rng.chance(1, 6) {
        return json!({"of": j});
    }
    if rng.chance(1, 8) {
        return json!({"of": j, "crop": [0, eh, 0, ew]});
    }
    let r0 = rng.below(eh as u64) as usize;
    let r1 = r0 + 1 + rng.below((eh - r0) as u64) as usize;
    let c0 = rng.below(ew as u64) as usize;
    let c1 = c0 + 1 + rng.below((ew - c0) as u64) as usize;
    json!({"of": j, "crop": [r0, r1, c0, c1]})
}

/// several different views of ONE pixel buffer drawn and erased on one handler: whatever an image carries besides
/// its shape is shared by `crop` and `clone`
fn shared_buffer_histories() -> Vec<Value> {
    let mut v = vec![];
    let sheet = json!({"h":6,"w":5,"seed":65,"style":0});
    let win = json!({"of":0,"crop":[2,6,1,4]});
    // the whole image, then a window of it; and the other way round; erase first
    v.push(json!({"quiet": false, "images":[sheet.clone(), win.clone()],
        "ops":[{"op":"draw","img":0,"pos":[0,0]},{"op":"draw","img":1,"pos":[3,9]},{"op":"erase","img":0,"pos":[0,0]},{"op":"erase","img":1,"pos":[3,9]}]}));
    v.push(json!({"quiet": true, "images":[sheet.clone(), win.clone()],
        "ops":[{"op":"draw","img":1,"pos":[3,9]},{"op":"draw","img":0,"pos":[0,0]},{"op":"draw","img":1,"pos":[4,9]},{"op":"erase","img":1,"pos":[3,9]}]}));
    v.push(json!({"quiet": false, "images":[sheet.clone(), win.clone()],
        "ops":[{"op":"erase","img":1,"pos":[3,9]},{"op":"draw","img":0,"pos":[0,0]},{"op":"draw","img":1,"pos":[3,9]},{"op":"erase","img":0,"pos":Value::Null}]}));
    // same-size tiles of one sheet
    let mut imgs = vec![json!({"h":4,"w":6,"seed":46,"style":0})];
    let mut ops = vec![];
    for r in 0..2 {
        for c in 0..3 {
            imgs.push(json!({"of":0,"crop":[2*r,2*r+2,2*c,2*c+2]}));
            ops.push(json!({"op":"draw","img":imgs.len()-1,"pos":[10+r,20+c]}));
        }
    }
    ops.push(json!({"op":"erase","img":2,"pos":[10,21]}));
    ops.push(json!({"op":"draw","img":0,"pos":[0,0]}));
    ops.push(json!({"op":"draw","img":3,"pos":[5,5]}));
    v.push(json!({"quiet": true, "images": imgs, "ops": ops}));
    // crop of a crop, innermost first; a clone and a full-range crop (same content, same id, nothing re-sent)
    v.push(json!({"quiet": false, "images":[{"h":8,"w":8,"seed":88,"style":3}, {"of":0,"crop":[1,7,1,7]}, {"of":1,"crop":[1,4,2,5]}, {"of":0}, {"of":1,"crop":[0,6,0,6]}],
        "ops":[{"op":"draw","img":2,"pos":[1,1]},{"op":"draw","img":1,"pos":[2,2]},{"op":"draw","img":0,"pos":[3,3]},{"op":"draw","img":3,"pos":[4,4]},
               {"op":"draw","img":4,"pos":[5,5]},{"op":"erase","img":2,"pos":[1,1]},{"op":"erase","img":3,"pos":[3,3]}]}));
    // a transposed sheet, a window of it, an error response for the sheet, then both again
    v.push(json!({"quiet": false, "via": "box", "images":[{"h":5,"w":7,"seed":57,"style":0,"t":true}, {"of":0,"crop":[1,6,0,3]}],
        "ops":[{"op":"draw","img":0,"pos":[0,0]},{"op":"draw","img":1,"pos":[8,8]},{"op":"resp","img":0,"pl":{"pos":[0,0]},"err":true,"lost":true},
               {"op":"draw","img":1,"pos":[8,9]},{"op":"draw","img":0,"pos":[0,1]},{"op":"erase","img":1,"pos":[8,8]}]}));
    v
}

const CORNERS: [(usize, usize); 8] =
    [(0, 0), (0, 65535), (65535, 0), (65535, 65535), (0, 1), (1, 0), (65534, 65535), (65535, 65534)];

fn gen_pos(rng: &mut Rng, pool: &[(usize, usize)]) -> (usize, usize) {
    match rng.below(40) {
        0..=23 => *rng.pick(pool),
        24..=31 => *rng.pick(&CORNERS),
        // beyond the 65536 limit of the property's quantifier: compared with the model only
        32 if rng.chance(1, 2) && !boundaries(u64::MAX).is_empty() => {
            // source-boundary stream: a coordinate at a constant of the source or next to it
            let v = *rng.pick(boundaries(u64::MAX)) as usize;
            if rng.chance(1, 2) { (v, rng.below(3) as usize) } else { (rng.below(3) as usize, v) }
        }
        32 => (65536 + rng.below(3) as usize, rng.below(3) as usize),
        33 => (rng.below(3) as usize, 65536 * (1 + rng.below(3) as usize) + rng.below(2) as usize),
        34 => (usize::MAX - rng.below(2) as usize, (1usize << 40) + rng.below(70000) as usize),
        _ => (rng.below(65536) as usize, rng.below(65536) as usize),
    }
}

fn gen_history(rng: &mut Rng, big: u8, pairs: &[(Value, Value)]) -> Value {
    let mut nimg = 1 + rng.below(3) as usize;
    let mut images: Vec<Value> = vec![];
    // one history in seven mixes two contents with the same derived id with ordinary ones
    let colliding = big == 0 && !pairs.is_empty() && rng.chance(1, 7);
    if colliding {
        let (a, b) = rng.pick(pairs).clone();
        images = if rng.chance(1, 2) { vec![a, b] } else { vec![b, a] };
        nimg = 2 + rng.below(2) as usize;
    }
    if big == 0 && !colliding && rng.chance(1, 10) {
        // one history in ten (of the small ones) has sinks that fail
        let d = if rng.chance(1, 12) { json!({"h":35,"w":30,"seed":rng.below(1000),"style":0}) } else { img_desc(rng, 0) };
        return failing_history(rng, d, None);
    }
    let shared = big == 0 && !colliding && rng.chance(1, 4);
    if shared {
        nimg = 2 + rng.below(3) as usize;
    }
    for i in images.len()..nimg {
        if shared && i > 0 && rng.chance(4, 5) {
            // a view of an earlier image of the case: same buffer, different window (or a clone)
            let dims: Vec<(usize, usize)> = build_all(&images).iter().map(|(_, e)| (e.1, e.0)).collect();
            let j = rng.below(i as u64) as usize;
            images.push(view_desc(rng, j, dims[j].0, dims[j].1));
        } else if i > 0 && rng.chance(1, 4) {
            // same content again, built separately (a second allocation must get the same id)
            let d = images[rng.below(i as u64) as usize].clone();
            images.push(d);
        } else {
            images.push(img_desc(rng, if i == 0 { big } else { 0 }));
        }
    }
    let pool: Vec<(usize, usize)> =
        (0..3).map(|_| if rng.chance(1, 3) { *rng.pick(&CORNERS) } else { (rng.below(50) as usize, rng.below(200) as usize) }).collect();
    let nops = 1 + rng.below(if big > 0 { 6 } else { 20 }) as usize;
    let mut ops = vec![];
    if big > 0 {
        let p = gen_pos(rng, &pool);
        ops.push(json!({"op":"draw","img":0,"pos":[p.0,p.1]}));
    }
    if colliding {
        // states in which a content has an id but is not (or no longer) counted as transmitted
        let p = gen_pos(rng, &pool);
        match rng.below(4) {
            0 => ops.push(json!({"op":"erase","img":0,"pos":[p.0,p.1]})),
            1 => ops.push(json!({"op":"erase","img":0,"pos":Value::Null})),
            2 => {
                ops.push(json!({"op":"draw","img":0,"pos":[p.0,p.1]}));
                ops.push(json!({"op":"resp","img":0,"pl":Value::Null,"err":true,"lost":rng.chance(2, 3),"msg":rng.below(6),"wire":rng.chance(1, 3)}));
            }
            _ => {}
        }
        if rng.chance(2, 3) {
            let q = gen_pos(rng, &pool);
            ops.push(json!({"op":"draw","img":1,"pos":[q.0,q.1]}));
            ops.push(json!({"op":"draw","img":0,"pos":[p.0,p.1]}));
        }
    }
    for _ in 0..nops {
        let k = rng.below(nimg as u64);
        match rng.below(20) {
            0..=8 => {
                let p = gen_pos(rng, &pool);
                ops.push(json!({"op":"draw","img":k,"pos":[p.0,p.1]}))
            }
            9..=12 => {
                let p = gen_pos(rng, &pool);
                ops.push(json!({"op":"erase","img":k,"pos":[p.0,p.1]}))
            }
            13 => ops.push(json!({"op":"erase","img":k,"pos":Value::Null})),
            14..=16 => {
                let pl = match rng.below(5) {
                    0 => Value::Null,
                    1 => json!({"raw": *rng.pick(&[0u64, 1, 2, 65536, 65537, 4294967295, 4294967296, u64::MAX]) }),
                    2 if rng.chance(1, 2) && !boundaries(u64::MAX).is_empty() => json!({"raw": *rng.pick(boundaries(u64::MAX))}),
                    2 => json!({"raw": rng.below(1u64 << 33)}),
                    _ => {
                        let p = gen_pos(rng, &pool);
                        json!({"pos":[p.0,p.1]})
                    }
                };
                ops.push(json!({"op":"resp","img":k,"pl":pl,"err":true,"lost":rng.chance(2, 3),
                                "msg":rng.below(6),"wire":rng.chance(1, 3)}))
            }
            17 => {
                // OK responses, with and without a placement
                let pl = match rng.below(3) {
                    0 => Value::Null,
                    1 => json!({"raw": rng.below(1u64 << 32)}),
                    _ => {
                        let p = gen_pos(rng, &pool);
                        json!({"pos":[p.0,p.1]})
                    }
                };
                ops.push(json!({"op":"resp","img":k,"pl":pl,"err":false,"wire":rng.chance(1, 2)}))
            }
            18 => {
                // ids no image of the history has, incl. 0 (what the decoder reports when the i key is missing)
                let id = if rng.chance(1, 3) { 0 } else { rng.below(1u64 << 32) };
                ops.push(json!({"op":"resp","img":Value::Null,"id":id,"pl":{"raw":rng.below(1u64<<32)},"err":true,
                                "msg":rng.below(6),"wire":rng.chance(1, 3),"lost":rng.chance(1, 2)}))
            }
            _ => ops.push(json!({"op":"other","which":rng.below(2)})),
        }
    }
    let via = match rng.below(12) {
        0 => "dummy",
        1..=4 => "box",
        _ => "direct",
    };
    json!({"quiet": rng.chance(1, 2), "images": images, "ops": ops, "via": via})
}

pub fn generate(rng: &mut Rng, n: usize, tier: &str) -> Vec<Value> {
    let mut v = vec![];
    // fixed part: one draw of every small size, the chunk boundaries, every corner position
    for (h, w) in [(0usize, 0usize), (0, 3), (3, 0), (1, 1), (1, 2), (2, 1), (3, 3)] {
        v.push(json!({"quiet": false, "images":[{"h":h,"w":w,"seed":h*100+w,"style":0}],
                      "ops":[{"op":"draw","img":0,"pos":[3,4]},{"op":"draw","img":0,"pos":[3,4]},{"op":"erase","img":0,"pos":[3,4]}]}));
    }
    // large images: 1 chunk exactly full (32x24), 4096+8 (769x1), 2 x 4096 (48x32), 3 chunks (40x40),
    // 3 x 4096 exactly (48x48), 6 chunks (64x64); a 768-pixel crop of a larger image (strided view whose
    // payload is exactly one full chunk); a large draw, an error response and the re-transmission.
    // They are placed at regular distances below so that no case shard gets more than one or two of them.
    let mut bigs: Vec<Value> = vec![];
    for (h, w) in [(32usize, 24usize), (769, 1), (48, 32), (40, 40), (48, 48), (64, 64)] {
        bigs.push(json!({"quiet": false, "images":[{"h":h,"w":w,"seed":h*100+w,"style":0}],
                      "ops":[{"op":"draw","img":0,"pos":[3,4]},{"op":"draw","img":0,"pos":[3,4]},{"op":"erase","img":0,"pos":[3,4]}]}));
    }
    bigs.push(json!({"quiet": true, "via": "box", "images":[{"h":40,"w":30,"seed":4030,"style":4,"crop":[4,36,3,27]}],
                  "ops":[{"op":"draw","img":0,"pos":[0,0]},{"op":"erase","img":0,"pos":[0,0]}]}));
    bigs.push(json!({"quiet": false, "images":[{"h":30,"w":40,"seed":3040,"style":0,"t":true,"crop":[8,40,6,30]}],
                  "ops":[{"op":"draw","img":0,"pos":[9,9]}]}));
    bigs.push(json!({"quiet": false, "images":[{"h":40,"w":40,"seed":4040,"style":0}],
                  "ops":[{"op":"draw","img":0,"pos":[7,7]},{"op":"resp","img":0,"pl":{"pos":[7,7]},"err":true,"lost":true,"wire":true},
                         {"op":"draw","img":0,"pos":[8,8]},{"op":"resp","img":0,"pl":Value::Null,"err":true,"lost":false},
                         {"op":"draw","img":0,"pos":[7,7]}]}));
    for p in CORNERS {
        for q in CORNERS {
            if p < q {
                v.push(json!({"quiet": true, "images":[{"h":2,"w":2,"seed":7,"style":3}],
                    "ops":[{"op":"draw","img":0,"pos":[p.0,p.1]},{"op":"draw","img":0,"pos":[q.0,q.1]},
                           {"op":"erase","img":0,"pos":[p.0,p.1]},{"op":"erase","img":0,"pos":[q.0,q.1]}]}));
            }
        }
    }
    // error response for a drawn image, with and without placement, then a new draw
    v.push(json!({"quiet": false, "images":[{"h":3,"w":2,"seed":1,"style":0}],
        "ops":[{"op":"draw","img":0,"pos":[5,7]},{"op":"resp","img":0,"pl":{"pos":[5,7]},"err":true},
               {"op":"draw","img":0,"pos":[5,7]},{"op":"resp","img":0,"pl":Value::Null,"err":true},
               {"op":"draw","img":0,"pos":[1,2]},{"op":"erase","img":0,"pos":[5,7]}]}));
    // the handler interface: names of handler kinds in any letter case, near misses, kind() of each handler
    for s in ["kitty", "KITTY", "Kitty", "sixel", "SiXeL", "dummy", "DUMMY", "", "kitt", "kittyy", " kitty", "k\u{0131}tty", "K\u{212A}itty", "none", "sixel\n"] {
        v.push(json!({"kind_str": s}));
    }
    for d in ["kitty", "kitty-boxed", "dummy", "dummy-boxed"] {
        v.push(json!({"kind_of": d}));
    }
    // spurious error responses: the terminal side keeps image and placements, the handler re-transmits
    v.push(json!({"quiet": true, "images":[{"h":3,"w":2,"seed":2,"style":0},{"h":1,"w":2,"seed":5,"style":0}],
        "ops":[{"op":"draw","img":0,"pos":[0,0]},{"op":"draw","img":0,"pos":[5,7]},{"op":"draw","img":1,"pos":[5,7]},
               {"op":"resp","img":0,"pl":{"pos":[5,7]},"err":true,"lost":false},
               {"op":"erase","img":0,"pos":[0,0]},
               {"op":"resp","img":0,"pl":Value::Null,"err":true,"lost":false},
               {"op":"draw","img":0,"pos":[1,1]},{"op":"erase","img":1,"pos":[5,7]},{"op":"erase","img":0,"pos":Value::Null}]}));
    // placement ids a terminal could report, incl. 0, 1, the largest id and values beyond 32 bits
    for raw in [0u64, 1, 2, 458758, 4294967295, 4294967296, u64::MAX] {
        v.push(json!({"quiet": true, "images":[{"h":2,"w":3,"seed":3,"style":0}],
            "ops":[{"op":"draw","img":0,"pos":[5,7]},{"op":"resp","img":0,"pl":{"raw":raw},"err":true},
                   {"op":"draw","img":0,"pos":[5,7]},{"op":"erase","img":0,"pos":[5,7]}]}));
    }
    v.extend(shared_buffer_histories());
    // sinks that fail: during the transmission, exactly after it, inside the placement command, not at all
    {
        let small = json!({"h":2,"w":3,"seed":23,"style":0});
        let (total, tx) = draw_lengths(&small);
        for b in [0, 10, tx.saturating_sub(1), tx, tx + 1, total.saturating_sub(1), total] {
            v.push(failing_history(rng, small.clone(), Some(b as u64)));
        }
    }
    // two contents with one derived image id (the known pair re-verified on this build, and a pair found
    // by a birthday search seeded by the run): id table and transmitted set of the handler differ
    let mut pairs: Vec<(Value, Value)> = vec![];
    for search in [false, true] {
        if let Some(p) = colliding_pair(rng, search) {
            if !pairs.contains(&p) {
                pairs.push(p);
            }
        }
    }
    for (a, b) in &pairs {
        v.extend(collision_histories(a, b));
        v.extend(collision_histories(b, a));
    }
    // large images (several chunks) are spread over the run so that the case shards stay balanced
    let every = if tier == "thorough" { 12 } else { 25 };
    let mut k = 0;
    while v.len() + bigs.len() < n {
        v.push(gen_history(rng, if k % every == 3 { if tier == "thorough" { 2 } else { 1 } } else { 0 }, &pairs));
        k += 1;
    }
    // spread the large fixed cases
    let step = (v.len() / (bigs.len() + 1)).max(1);
    for (i, b) in bigs.into_iter().enumerate() {
        let at = ((i + 1) * step).min(v.len());
        v.insert(at, b);
    }
    v
}

pub fn batch(inputs: &[Value]) -> Batch {
    Batch {
        prop: "C11",
        coq_import: "Corr.C11Corr",
        case_type: "c11_case",
        report_fn: "c11_report",
        rule: "history with >= 1 draw of a non-empty image and (>= 1 erase, or >= 1 error response, or the same content drawn at two positions); distinct by input",
        cases: inputs.iter().map(run).collect(),
        preamble: "From SNT Require Import Surface.Shape Image.Kitty Image.KittySpec.\n".to_string(),
    }
}
