//! `snt_harness tool c06dfa <event|command|utf8>`: prints a production automaton of the crate
//! (through the verif-hooks dump) as plain text lines, consumed by translate/c06gen.py:
//!   size <n>
//!   start <q>
//!   T <from> <lo> <hi> <to>        maximal byte ranges with the same target
//!   S <state> <accepting 0|1> <terminal 0|1> <tag> <tag> ...   (tags in set order; spaces inside a tag are written as \x20)
use surf_n_term::decoder::verif;

pub fn main(args: &[String]) -> i32 {
    let which = args.first().map(|s| s.as_str()).unwrap_or("command");
    let dump = match verif::dump_dfa(which) {
        Some(d) => d,
        None => {
            eprintln!("unknown automaton {}", which);
            return 2;
        }
    };
    println!("size {}", dump.size);
    println!("start {}", dump.start);
    let mut table: Vec<Vec<Option<usize>>> = vec![vec![None; 256]; dump.size];
    for (from, sym, to) in &dump.transitions {
        table[*from][*sym as usize] = Some(*to);
    }
    for (q, row) in table.iter().enumerate() {
        let mut b = 0usize;
        while b < 256 {
            if let Some(to) = row[b] {
                let lo = b;
                while b + 1 < 256 && row[b + 1] == Some(to) {
                    b += 1;
                }
                println!("T {} {} {} {}", q, lo, b, to);
            }
            b += 1;
        }
    }
    for (q, (acc, term, tags)) in dump.infos.iter().enumerate() {
        let mut line = format!("S {} {} {}", q, *acc as u8, *term as u8);
        for t in tags {
            line.push(' ');
            line.push_str(&t.replace('\\', "\\\\").replace(' ', "\\x20"));
        }
        println!("{}", line);
    }
    if which != "utf8" {
        for (i, n) in verif::matcher_names(which).iter().enumerate() {
            println!("M {} {}", i, n.replace(' ', "\\x20"));
        }
    }
    0
}
