//! C08: ViewBounds::view_bounds for every integer type and selector form.
use crate::util::*;
use serde_json::{json, Value};
use surf_n_term::surface::ViewBounds;

const TYPES: [&str; 10] = ["u8", "i8", "u16", "i16", "u32", "i32", "u64", "i64", "usize", "isize"];
const FORMS: [&str; 7] = ["idx", "rng", "from", "to", "rngi", "toi", "full"];

fn ty_range(t: &str) -> (i128, i128) {
    match t {
        "u8" => (0, u8::MAX as i128),
        "i8" => (i8::MIN as i128, i8::MAX as i128),
        "u16" => (0, u16::MAX as i128),
        "i16" => (i16::MIN as i128, i16::MAX as i128),
        "u32" => (0, u32::MAX as i128),
        "i32" => (i32::MIN as i128, i32::MAX as i128),
        "u64" | "usize" => (0, u64::MAX as i128),
        _ => (i64::MIN as i128, i64::MAX as i128),
    }
}

fn coq_ty(t: &str) -> &'static str {
    match t {
        "u8" => "U8",
        "i8" => "I8",
        "u16" => "U16",
        "i16" => "I16",
        "u32" => "U32",
        "i32" => "I32",
        "u64" => "U64",
        "i64" => "I64",
        "usize" => "Usize",
        _ => "Isize",
    }
}

macro_rules! call {
    ($t:ty, $form:expr, $a:expr, $b:expr, $n:expr) => {{
        let a = $a as $t;
        let b = $b as $t;
        match $form {
            "idx" => a.view_bounds($n),
            "rng" => (a..b).view_bounds($n),
            "from" => (a..).view_bounds($n),
            "to" => (..b).view_bounds($n),
            "rngi" => (a..=b).view_bounds($n),
            "toi" => (..=b).view_bounds($n),
            _ => (..).view_bounds($n),
        }
    }};
}

fn call(t: &str, form: &str, a: i128, b: i128, n: usize) -> Option<(usize, usize)> {
    match t {
        "u8" => call!(u8, form, a, b, n),
        "i8" => call!(i8, form, a, b, n),
        "u16" => call!(u16, form, a, b, n),
        "i16" => call!(i16, form, a, b, n),
        "u32" => call!(u32, form, a, b, n),
        "i32" => call!(i32, form, a, b, n),
        "u64" => call!(u64, form, a, b, n),
        "i64" => call!(i64, form, a, b, n),
        "usize" => call!(usize, form, a, b, n),
        _ => call!(isize, form, a, b, n),
    }
}

fn parse_i128(v: &Value) -> i128 {
    v.as_str().and_then(|s| s.parse().ok()).unwrap_or(0)
}

pub fn run(input: &Value) -> Case {
    let t = input["ty"].as_str().unwrap_or("i64").to_string();
    let form = input["form"].as_str().unwrap_or("full").to_string();
    let a = parse_i128(&input["a"]);
    let b = parse_i128(&input["b"]);
    let n = parse_i128(&input["n"]) as usize;
    let (t2, f2) = (t.clone(), form.clone());
    let r = catch(move || call(&t2, &f2, a, b, n));
    let sel = match form.as_str() {
        "idx" => format!("(Idx {})", cz(a)),
        "rng" => format!("(Rng {} {})", cz(a), cz(b)),
        "from" => format!("(From {})", cz(a)),
        "to" => format!("(To {})", cz(b)),
        "rngi" => format!("(RngI {} {})", cz(a), cz(b)),
        "toi" => format!("(ToI {})", cz(b)),
        _ => "Full".to_string(),
    };
    let (rc, rj) = match &r {
        None => ("RPanic".to_string(), json!("panic")),
        Some(None) => ("(R None)".to_string(), json!("none")),
        Some(Some((x, y))) => (
            format!("(R (Some ({}, {})))", cz(*x as i128), cz(*y as i128)),
            json!([x.to_string(), y.to_string()]),
        ),
    };
    let mut j = input.clone();
    j["impl"] = rj;
    let nn = n as i128;
    let extreme = |x: i128| x < -nn || x > nn;
    let nontrivial = match form.as_str() {
        "full" => false,
        "idx" | "from" => extreme(a) || a < 0,
        "to" | "toi" => extreme(b) || b < 0,
        _ => extreme(a) || extreme(b) || a < 0 || b < 0,
    };
    Case {
        coq: format!("B {} {} {} {}", coq_ty(&t), sel, cz(nn), rc),
        json: j,
        tags: vec![
            format!("ty={}", t),
            format!("form={}", form),
            format!("res={}", match &r { None => "panic", Some(None) => "none", Some(Some(_)) => "some" }),
            format!("n>i64max={}", n > i64::MAX as usize),
        ],
        nontrivial,
    }
}

/// constants written in src/surface.rs and their neighbours, harvested at run time (source-boundary stream)
fn bounds() -> &'static [u64] {
    static B: std::sync::OnceLock<Vec<u64>> = std::sync::OnceLock::new();
    B.get_or_init(|| source_boundaries(&["src/surface.rs"], u64::MAX))
}

fn interesting(rng: &mut Rng, t: &str, n: usize) -> i128 {
    let (lo, hi) = ty_range(t);
    let nn = n as i128;
    if !bounds().is_empty() && rng.chance(1, 8) {
        // a bound at a constant of the source (or its negation, or counted from the end of the axis)
        let v = *rng.pick(bounds()) as i128;
        let c = *rng.pick(&[v, -v, nn - v, v - nn]);
        if c >= lo && c <= hi {
            return c;
        }
    }
    let cands = [
        lo, lo + 1, -nn - 2, -nn - 1, -nn, -nn + 1, -2, -1, 0, 1, 2, nn - 1, nn, nn + 1, nn + 2,
        hi - 1, hi, i64::MAX as i128, i64::MAX as i128 + 1, i64::MIN as i128, (nn / 2), -(nn / 2),
        127, 128, 255, 256, -128, -129,
    ];
    for _ in 0..8 {
        let c = if rng.chance(1, 6) { rng.range(-40, 40) as i128 } else { *rng.pick(&cands) };
        if c >= lo && c <= hi {
            return c;
        }
    }
    0
}

pub fn generate(rng: &mut Rng, n: usize, tier: &str) -> Vec<Value> {
    let thorough = tier == "thorough";
    let mut v = vec![];
    let sizes: [usize; 17] = [
        0, 1, 2, 3, 10, 100, 127, 128, 255, 256, 300, 1 << 31, (1 << 32) + 3, (i64::MAX as usize),
        1 << 63, (1 << 63) + 5, usize::MAX, // beyond i64::MAX (the former finding axis-beyond-i64max)
    ];
    // exhaustive small part: every form, n <= N, bounds in [-B, B], written as i8 and as usize where possible
    let (maxn, maxb) = if thorough { (12i128, 15i128) } else { (4, 6) };
    for nn in 0..=maxn {
        for form in FORMS {
            for a in -maxb..=maxb {
                let bs: Vec<i128> = if form == "rng" || form == "rngi" { (-maxb..=maxb).collect() } else { vec![a] };
                for b in bs {
                    for t in ["i8", "usize"] {
                        let (lo, _) = ty_range(t);
                        if a < lo || b < lo {
                            continue;
                        }
                        if t == "usize" && !thorough && (a + b) % 3 != 0 {
                            continue;
                        }
                        v.push(json!({"ty": t, "form": form, "a": a.to_string(), "b": b.to_string(), "n": nn.to_string()}));
                    }
                }
                if form == "full" {
                    break;
                }
            }
        }
    }
    let fixed = v.len();
    while v.len() < fixed + n {
        let t = *rng.pick(&TYPES);
        let form = *rng.pick(&FORMS);
        let size = if !bounds().is_empty() && rng.chance(1, 8) {
            *rng.pick(bounds()) as usize
        } else if rng.chance(1, 5) {
            rng.below(20) as usize
        } else {
            *rng.pick(&sizes)
        };
        let a = interesting(rng, t, size);
        let b = interesting(rng, t, size);
        v.push(json!({"ty": t, "form": form, "a": a.to_string(), "b": b.to_string(), "n": size.to_string()}));
    }
    v
}

pub fn batch(inputs: &[Value]) -> Batch {
    Batch {
        prop: "C08",
        coq_import: "Corr.C08Corr",
        case_type: "c08_case",
        report_fn: "c08_report",
        rule: "selector with at least one negative bound or a bound outside [-n, n]; distinct by (type, form, bounds, n)",
        cases: inputs.iter().map(run).collect(),
        preamble: String::new(),
    }
}
