//! `snt_harness tool dfa` — dump the three production automata of src/decoder.rs
//! (TTY_EVENT_AUTOMATA, TTY_COMMAND_AUTOMATA, UTF8DFA) as JSON on stdout.
//! translate/dfa.py turns the dump into coq/theories/Gen/ProdDFA.v on every run.
use serde_json::{json, Value};
use surf_n_term::decoder::verif;

/// rows as merged byte intervals [lo, hi, target]
pub fn rows_of(d: &verif::DfaDump) -> Vec<Vec<[usize; 3]>> {
    let mut rows: Vec<Vec<[usize; 3]>> = vec![vec![]; d.size];
    // transitions are produced state by state, symbols increasing
    for (from, sym, to) in d.transitions.iter() {
        let row = &mut rows[*from];
        let sym = *sym as usize;
        match row.last_mut() {
            Some(last) if last[2] == *to && last[1] + 1 == sym => last[1] = sym,
            _ => row.push([sym, sym, *to]),
        }
    }
    rows
}

/// interning of literal item tags (`I<debug>`): index by first appearance
pub struct Items {
    pub names: Vec<String>,
}

impl Items {
    pub fn new() -> Self {
        Items { names: vec![] }
    }
    pub fn intern(&mut self, name: &str) -> usize {
        match self.names.iter().position(|n| n == name) {
            Some(i) => i,
            None => {
                self.names.push(name.to_string());
                self.names.len() - 1
            }
        }
    }
}

/// tag string of the dump -> (is_item, index)
pub fn tag_of(items: &mut Items, tag: &str) -> (bool, usize) {
    if let Some(rest) = tag.strip_prefix('M') {
        (false, rest.parse().unwrap_or(usize::MAX))
    } else {
        (true, items.intern(&tag[1..]))
    }
}

pub fn dump_json(d: &verif::DfaDump) -> Value {
    let mut items = Items::new();
    let infos: Vec<Value> = d
        .infos
        .iter()
        .map(|(acc, term, tags)| {
            let tags: Vec<Value> = tags
                .iter()
                .map(|t| {
                    let (is_item, idx) = tag_of(&mut items, t);
                    json!([is_item, idx])
                })
                .collect();
            json!([acc, term, tags])
        })
        .collect();
    json!({
        "size": d.size,
        "start": d.start,
        "rows": rows_of(d),
        "infos": infos,
        "items": items.names,
        "edges": d.transitions.len(),
    })
}

pub fn main(_args: &[String]) -> i32 {
    let mut out = serde_json::Map::new();
    for which in ["event", "command", "utf8"] {
        match verif::dump_dfa(which) {
            Some(d) => {
                out.insert(which.to_string(), dump_json(&d));
            }
            None => return 1,
        }
    }
    out.insert(
        "matchers".to_string(),
        json!({"event": verif::matcher_names("event"), "command": verif::matcher_names("command")}),
    );
    println!("{}", Value::Object(out));
    0
}
