// prints the integer constants harvested from the given source files of the crate under test
// (snt_harness tool literals src/common.rs src/unix.rs)
use crate::util::source_literals;

pub fn main(args: &[String]) -> i32 {
    let files: Vec<&str> = args.iter().map(|s| s.as_str()).collect();
    let v = source_literals(&files);
    println!("{}", v.iter().map(|x| x.to_string()).collect::<Vec<_>>().join(" "));
    0
}
