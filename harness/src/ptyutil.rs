//! Pseudo-terminal plumbing shared by the pty tools (C16, C17): a pty pair, and a peer thread that plays
//! the terminal emulator on the master side: it drains output at a scripted rate, answers the primary
//! device attributes request (the library's "sync" query) and injects input on request.
#![allow(dead_code)]
use std::os::fd::{AsRawFd, FromRawFd, OwnedFd, RawFd};
use std::sync::atomic::{AtomicBool, AtomicUsize, Ordering};
use std::sync::mpsc::{channel, Receiver, Sender};
use std::sync::{Arc, Mutex};
use std::time::{Duration, Instant};

pub fn open_pty() -> Result<(OwnedFd, String), String> {
    unsafe {
        let m = libc::posix_openpt(libc::O_RDWR | libc::O_NOCTTY);
        if m < 0 {
            return Err("posix_openpt failed".into());
        }
        if libc::grantpt(m) != 0 || libc::unlockpt(m) != 0 {
            libc::close(m);
            return Err("grantpt/unlockpt failed".into());
        }
        let mut buf = [0 as libc::c_char; 128];
        if libc::ptsname_r(m, buf.as_mut_ptr(), buf.len()) != 0 {
            libc::close(m);
            return Err("ptsname_r failed".into());
        }
        let path = std::ffi::CStr::from_ptr(buf.as_ptr()).to_string_lossy().to_string();
        Ok((OwnedFd::from_raw_fd(m), path))
    }
}

/// termios of the pty as seen from the master fd (same line discipline as the slave)
pub fn tcgetattr(fd: RawFd) -> Option<libc::termios> {
    unsafe {
        let mut t: libc::termios = std::mem::zeroed();
        if libc::tcgetattr(fd, &mut t) == 0 {
            Some(t)
        } else {
            None
        }
    }
}

pub fn termios_key(t: &libc::termios) -> (u64, u64, u64, u64, Vec<u8>) {
    (t.c_iflag as u64, t.c_oflag as u64, t.c_cflag as u64, t.c_lflag as u64, t.c_cc.to_vec())
}

pub fn set_winsize(fd: RawFd, rows: u16, cols: u16) {
    unsafe {
        let ws = libc::winsize { ws_row: rows, ws_col: cols, ws_xpixel: 0, ws_ypixel: 0 };
        libc::ioctl(fd, libc::TIOCSWINSZ, &ws);
    }
}

/// one step of the peer's drain schedule: read at most `size` bytes, then sleep `sleep_us`
#[derive(Clone, Copy, Debug)]
pub struct Rate {
    pub size: usize,
    pub sleep_us: u64,
}

pub enum Ctl {
    /// write these bytes to the master (they become tty input)
    Inject(Vec<u8>),
    /// replace the drain schedule
    Rates(Vec<Rate>),
    /// stop reading until resumed (the kernel buffer fills, writes on the slave see EAGAIN)
    Pause(bool),
    /// close the master side (the slave sees a hang-up); the peer thread ends
    Close,
    /// answer (or stop answering) the device attributes request
    AnswerDa(bool),
    /// type a key every `every_ms` milliseconds, `count` times
    Flood { every_ms: u64, count: usize },
    /// answer the size queries CSI 18 t / CSI 14 t with these cells (rows, cols) and pixels (height, width)
    AnswerSize(Option<(u16, u16, u16, u16)>),
}

pub struct Peer {
    pub received: Arc<Mutex<Vec<u8>>>,
    pub count: Arc<AtomicUsize>,
    pub da_answers: Arc<AtomicUsize>,
    /// the pause state the peer thread has acted upon (acknowledgement of Ctl::Pause)
    pub paused_ack: Arc<AtomicBool>,
    closing: Arc<AtomicBool>,
    tx: Sender<Ctl>,
    handle: Option<std::thread::JoinHandle<()>>,
}

const DA_REQUEST: &[u8] = b"\x1b[c";
pub const DA_ANSWER: &[u8] = b"\x1b[?62;c";

fn write_all_fd(fd: RawFd, mut data: &[u8]) {
    while !data.is_empty() {
        let n = unsafe { libc::write(fd, data.as_ptr() as *const libc::c_void, data.len()) };
        if n <= 0 {
            let e = std::io::Error::last_os_error();
            if e.kind() == std::io::ErrorKind::Interrupted || e.kind() == std::io::ErrorKind::WouldBlock {
                std::thread::sleep(Duration::from_micros(200));
                continue;
            }
            return;
        }
        data = &data[n as usize..];
    }
}

impl Peer {
    /// `answer_da`: reply to every primary device attributes request seen in the output
    pub fn spawn(master: OwnedFd, rates: Vec<Rate>, answer_da: bool) -> Peer {
        let received = Arc::new(Mutex::new(Vec::new()));
        let count = Arc::new(AtomicUsize::new(0));
        let da_answers = Arc::new(AtomicUsize::new(0));
        let closing = Arc::new(AtomicBool::new(false));
        let paused_ack = Arc::new(AtomicBool::new(false));
        let pa2 = paused_ack.clone();
        let (tx, rx): (Sender<Ctl>, Receiver<Ctl>) = channel();
        let (r2, c2, d2, cl2) = (received.clone(), count.clone(), da_answers.clone(), closing.clone());
        let handle = std::thread::spawn(move || {
            let fd = master.as_raw_fd();
            let mut rates = if rates.is_empty() { vec![Rate { size: 65536, sleep_us: 0 }] } else { rates };
            let mut k = 0usize;
            let mut paused = false;
            let mut answer_da = answer_da;
            let mut flood: Option<(u64, usize, Instant)> = None;
            let mut answer_size: Option<(u16, u16, u16, u16)> = None;
            let mut tail: Vec<u8> = vec![]; // last bytes, to find a request split across reads
            let mut size_tail: Vec<u8> = vec![];
            let mut quiet_since: Option<Instant> = None;
            let mut buf = vec![0u8; 1 << 16];
            loop {
                while let Ok(c) = rx.try_recv() {
                    match c {
                        Ctl::Inject(b) => write_all_fd(fd, &b),
                        Ctl::Rates(r) => {
                            if !r.is_empty() {
                                rates = r;
                                k = 0;
                            }
                        }
                        Ctl::Pause(p) => {
                            paused = p;
                            pa2.store(p, Ordering::SeqCst);
                        }
                        Ctl::Close => return, // `master` is dropped here
                        Ctl::AnswerDa(a) => answer_da = a,
                        Ctl::AnswerSize(a) => answer_size = a,
                        Ctl::Flood { every_ms, count } => flood = Some((every_ms, count, Instant::now())),
                    }
                }
                if let Some((every, left, at)) = flood {
                    if left > 0 && Instant::now() >= at {
                        write_all_fd(fd, b"x");
                        flood = Some((every, left - 1, Instant::now() + Duration::from_millis(every)));
                    }
                }
                if paused {
                    std::thread::sleep(Duration::from_micros(500));
                    continue;
                }
                let mut pfd = libc::pollfd { fd, events: libc::POLLIN, revents: 0 };
                let pr = unsafe { libc::poll(&mut pfd, 1, 2) };
                let mut got = 0isize;
                if pr > 0 && (pfd.revents & (libc::POLLIN | libc::POLLHUP | libc::POLLERR)) != 0 {
                    let rate = rates[k % rates.len()];
                    k += 1;
                    let want = rate.size.max(1).min(buf.len());
                    got = unsafe { libc::read(fd, buf.as_mut_ptr() as *mut libc::c_void, want) };
                    if got > 0 {
                        let data = &buf[..got as usize];
                        r2.lock().unwrap().extend_from_slice(data);
                        c2.fetch_add(got as usize, Ordering::SeqCst);
                        if let Some((rows, cols, ph, pw)) = answer_size {
                            // a query may be split across two reads: the last bytes of the previous read are kept
                            let mut scan = size_tail.clone();
                            scan.extend_from_slice(data);
                            let old = size_tail.len();
                            // answered in the order of the requests
                            let mut i = 0;
                            while i + 5 <= scan.len() {
                                let new = i + 5 > old;
                                if &scan[i..i + 5] == b"\x1b[18t" {
                                    if new {
                                        write_all_fd(fd, format!("\x1b[8;{};{}t", rows, cols).as_bytes());
                                    }
                                    i += 5;
                                } else if &scan[i..i + 5] == b"\x1b[14t" {
                                    if new {
                                        write_all_fd(fd, format!("\x1b[4;{};{}t", ph, pw).as_bytes());
                                    }
                                    i += 5;
                                } else {
                                    i += 1;
                                }
                            }
                            let keep = scan.len().min(4);
                            size_tail = scan[scan.len() - keep..].to_vec();
                        }
                        if answer_da {
                            let mut scan = tail.clone();
                            scan.extend_from_slice(data);
                            let mut i = 0;
                            while i + DA_REQUEST.len() <= scan.len() {
                                if &scan[i..i + DA_REQUEST.len()] == DA_REQUEST {
                                    // only requests that end inside the new data are new
                                    if i + DA_REQUEST.len() > tail.len() {
                                        write_all_fd(fd, DA_ANSWER);
                                        d2.fetch_add(1, Ordering::SeqCst);
                                    }
                                    i += DA_REQUEST.len();
                                } else {
                                    i += 1;
                                }
                            }
                            let keep = scan.len().min(DA_REQUEST.len() - 1);
                            tail = scan[scan.len() - keep..].to_vec();
                        }
                        if rate.sleep_us > 0 {
                            std::thread::sleep(Duration::from_micros(rate.sleep_us));
                        }
                    }
                }
                if got <= 0 {
                    // nothing to read (or EIO because no slave is open)
                    if cl2.load(Ordering::SeqCst) {
                        match quiet_since {
                            None => quiet_since = Some(Instant::now()),
                            Some(t) if t.elapsed() > Duration::from_millis(40) => break,
                            _ => {}
                        }
                    }
                    if pr > 0 {
                        std::thread::sleep(Duration::from_micros(300));
                    }
                } else {
                    quiet_since = None;
                }
            }
        });
        Peer { received, count, da_answers, paused_ack, closing, tx, handle: Some(handle) }
    }

    pub fn ctl(&self, c: Ctl) {
        let _ = self.tx.send(c);
    }

    /// pause / resume and wait until the peer thread has acted on it (it is then not inside a read)
    pub fn pause(&self, p: bool) {
        let _ = self.tx.send(Ctl::Pause(p));
        let t0 = Instant::now();
        while self.paused_ack.load(Ordering::SeqCst) != p && t0.elapsed() < Duration::from_secs(2) {
            std::thread::sleep(Duration::from_micros(100));
        }
    }

    pub fn received_len(&self) -> usize {
        self.count.load(Ordering::SeqCst)
    }

    /// wait until at least n bytes have arrived (or the timeout passes)
    pub fn wait_received(&self, n: usize, timeout: Duration) -> bool {
        let t0 = Instant::now();
        while self.received_len() < n {
            if t0.elapsed() > timeout {
                return false;
            }
            std::thread::sleep(Duration::from_micros(200));
        }
        true
    }

    /// the terminal object is gone: read what is left, then stop; returns everything received
    pub fn finish(mut self) -> Vec<u8> {
        self.closing.store(true, Ordering::SeqCst);
        let _ = self.tx.send(Ctl::Pause(false));
        if let Some(h) = self.handle.take() {
            let _ = h.join();
        }
        let v = self.received.lock().unwrap().clone();
        v
    }
}
