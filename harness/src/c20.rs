//! C20: the colour a face colour is reduced to under each ColorDepth, for the foreground,
//! background and underline roles, observed in the SGR bytes of the real encoder.
// uses tool_c20sweep (always built): the Rust predicate whose verdict is cross-checked in Coq
use crate::registry::tool_c20sweep::{judge, Tables};
use crate::util::*;
use serde_json::{json, Value};
use surf_n_term::encoder::{ColorDepth, Encoder, TTYEncoder};
use surf_n_term::{FaceModify, TerminalCaps, TerminalCommand, RGBA};

fn depth_of(s: &str) -> ColorDepth {
    match s {
        "true" => ColorDepth::TrueColor,
        "256" => ColorDepth::EightBit,
        _ => ColorDepth::Gray,
    }
}

fn encode_bytes(caps: &TerminalCaps, cmd: TerminalCommand) -> Option<Vec<u8>> {
    let caps = caps.clone();
    catch(move || {
        let mut enc = TTYEncoder::new(caps);
        let mut out = Vec::new();
        match enc.encode(&mut out, cmd) {
            Ok(()) => Some(out),
            Err(_) => None,
        }
    })
    .flatten()
}

fn coq_depth(s: &str) -> &'static str {
    match s {
        "true" => "TrueColor",
        "256" => "EightBit",
        _ => "Gray",
    }
}

thread_local! {
    /// the tables the translator extracted (written by props.d/C20.py before the harness runs)
    static TABLES: Option<Tables> = {
        let path = std::env::var("VERIF_C20_TABLES").unwrap_or_else(|_| "_build/c20_tables_C20.json".to_string());
        Tables::load(&path).ok()
    };
}

pub fn run(input: &Value) -> Case {
    let depth = input["depth"].as_str().unwrap_or("256").to_string();
    let c = input["c"].as_array().cloned().unwrap_or_default();
    let g = |i: usize| c.get(i).and_then(|x| x.as_u64()).unwrap_or(0) as u8;
    let (r, gg, b) = (g(0), g(1), g(2));
    let color = RGBA::new(r, gg, b, 255);
    let caps = TerminalCaps { depth: depth_of(&depth), glyphs: false, kitty_keyboard: false };
    // three different colours for the three roles: fg = c, bg = rot c, underline = rot (rot c)
    let cmd = TerminalCommand::FaceModify(FaceModify {
        fg: Some(color),
        bg: Some(RGBA::new(gg, b, r, 255)),
        underline_color: Some(RGBA::new(b, r, gg, 255)),
        ..FaceModify::default()
    });
    let out = encode_bytes(&caps, cmd);
    // the verdict of the Rust predicate (tool_c20sweep::judge) on the same bytes: must equal Coq's
    let tool = TABLES.with(|t| t.as_ref().map(|t| judge(t, &depth, [r, gg, b], out.as_deref())));
    let coq = format!(
        "K {} (mkRgba {} {} {} 255) {} {}",
        coq_depth(&depth),
        r,
        gg,
        b,
        copt(out.as_ref().map(|x| cbytes(x))),
        copt(tool.map(|v| cbool(v).to_string()))
    );
    let mut j = input.clone();
    j["impl"] = match &out {
        Some(x) => json!(String::from_utf8_lossy(x)),
        None => json!("panic"),
    };
    let cube = [0u8, 95, 135, 175, 215, 255];
    let on_cube = cube.contains(&r) && cube.contains(&gg) && cube.contains(&b);
    let on_ramp = r == gg && gg == b && r >= 8 && (r - 8) % 10 == 0 && r <= 238;
    Case {
        coq,
        json: j,
        tags: vec![format!("depth={}", depth), format!("kind={}", input["kind"].as_str().unwrap_or("random"))],
        nontrivial: !(on_cube || on_ramp),
    }
}

pub fn generate(rng: &mut Rng, n: usize, tier: &str) -> Vec<Value> {
    let thorough = tier == "thorough";
    let mut v = vec![];
    let push = |depth: &str, kind: &str, r: u64, g: u64, b: u64, v: &mut Vec<Value>| {
        v.push(json!({"depth": depth, "kind": kind, "c": [r & 255, g & 255, b & 255]}));
    };
    // (a) per-channel boundaries: one channel sweeps all 256 values, the others fixed
    let fixed: &[(u64, u64)] = if thorough {
        &[(0, 0), (255, 255), (95, 135), (175, 215), (128, 128), (40, 200), (8, 238)]
    } else {
        &[(0, 0), (95, 175)]
    };
    // (each 256-colour case costs ~0.1 s in Coq: three roles x brute force over 240 entries in exact
    //  47-bit arithmetic; the exhaustive sweep in Rust covers every colour, so the sample here is small)
    for depth in ["256", "gray"] {
        for x in 0..256u64 {
            for (p, q) in fixed {
                if depth == "gray" && (*p, *q) != (0, 0) {
                    continue;
                }
                if depth == "256" && !thorough && x % 4 != 1 {
                    continue;
                }
                push(depth, "sweep", x, *p, *q, &mut v);
                push(depth, "sweep", *p, x, *q, &mut v);
                push(depth, "sweep", *p, *q, x, &mut v);
            }
            // the grey diagonal and its neighbourhood (cube-versus-grey decision, grey thresholds)
            if depth == "256" && !thorough && x % 4 != 2 {
                continue;
            }
            push(depth, "diag", x, x, x, &mut v);
            if thorough || depth == "gray" {
                push(depth, "diag", x, x + 1, x, &mut v);
                push(depth, "diag", x + 2, x, x + 1, &mut v);
            }
            push(depth, "diag", x, x, x + 3, &mut v);
        }
    }
    // (b) true colour: every channel value in every position
    for x in 0..256u64 {
        push("true", "sweep", x, 255 - x, (x * 7) & 255, &mut v);
    }
    // (b2) channel values aimed at the integer constants the encoder source contains right now (and their
    //      neighbours): a threshold a change introduces is reached without knowing it in advance
    let bounds: Vec<u64> = source_boundaries(&["src/encoder.rs"], 255);
    for (i, x) in bounds.iter().enumerate() {
        let y = bounds[(i * 7 + 3) % bounds.len()];
        let z = bounds[(i * 13 + 5) % bounds.len()];
        for depth in ["256", "gray", "true"] {
            if depth == "256" && !thorough && i % 3 != 0 {
                continue;
            }
            push(depth, "source-bound", *x, y, z, &mut v);
            push(depth, "source-bound", z, *x, *x, &mut v);
        }
    }
    // (c) random colours: mostly the 256-colour path
    let fixed_n = v.len();
    while v.len() < fixed_n + n {
        let depth = match rng.below(10) {
            0 => "true",
            1..=4 => "gray",
            _ => "256",
        };
        let near_grey = rng.chance(1, 4);
        let (r, g, b) = if near_grey {
            let m = rng.below(256);
            let d = |rng: &mut Rng| (m as i64 + rng.range(-12, 12)).clamp(0, 255) as u64;
            (d(rng), d(rng), d(rng))
        } else {
            (rng.below(256), rng.below(256), rng.below(256))
        };
        push(depth, if near_grey { "near-grey" } else { "random" }, r, g, b, &mut v);
    }
    v
}

pub fn batch(inputs: &[Value]) -> Batch {
    Batch {
        prop: "C20",
        coq_import: "Corr.C20Corr",
        case_type: "c20_case",
        report_fn: "c20_report",
        rule: "opaque colour that is not itself a palette entry (not on the 6x6x6 cube levels and not on the grey ramp); distinct by (depth, colour)",
        cases: inputs.iter().map(run).collect(),
        preamble: String::new(),
    }
}
